//! C17 under a weak memory model (engine E1, `ilv`): the SQPOLL hand-over.
//!
//! The code under test is the VERBATIM text of `IoUring::{get_next_sqe_slot, flush_submission_queue,
//! needs_wakeup, get_next_cqe}` and of the two queue structs with their helper methods, cut out of
//! /repo/rusl/src/platform/compat/io_uring.rs by build.rs and compiled here against the instrumented
//! atomics (`core` inside that module is `wmcore`: vshim-core, with a `fence(SeqCst)` that really
//! orders — see `wmcore::sync::atomic::fence`).
//!
//! Model: thread 0 is the application — per batch: take slots, write the entries, flush,
//! `if needs_wakeup() { wake }`, at the end reap every completion by polling `get_next_cqe`.
//! Thread 1 is the kernel's SQ poll thread written against the same atomics after io_sq_thread():
//! consume while there is something (acquire tail, read the entry, release head, post a completion);
//! when idle: prepare to wait, set IORING_SQ_NEED_WAKEUP, full barrier, look at the tail once more,
//! sleep; a wake-up clears the flag.
//! Property: every flushed entry is consumed and completed — no execution ends with the poller asleep
//! and an entry in the queue (ilv reports that as `deadlock`), no data race on an entry.
//! Explored: all interleavings within P preemptions and W stale reads (store histories).

use common::*;
use ilv::{Budget, Config, End, Model};
use serde_json::{json, Value};
use std::cell::RefCell;

/// `core` as the extracted code sees it
mod wmcore {
    pub use vshim_core::*;
    /// `core::ptr` with the one copy the extracted `get_next_cqe` does routed through the engine's tracked cells
    pub mod ptr {
        #[allow(unused_imports)]
        pub use vshim_core::ptr::*;
        /// # Safety
        /// as `core::ptr::copy_nonoverlapping`
        pub unsafe fn copy_nonoverlapping<T>(src: *const T, dst: *mut T, count: usize) {
            ilv::cell_access(src as usize, false);
            vshim_core::ptr::copy_nonoverlapping(src, dst, count)
        }
    }
    pub mod sync {
        #[allow(unused_imports)]
        pub use vshim_core::sync::*;
        pub mod atomic {
            pub use vshim_core::sync::atomic::*;

            /// the word all sequentially consistent fences go through
            pub static SC_FENCE_WORD: AtomicU32 = AtomicU32::new(0);

            /// ilv's own `fence` only moves the pending acquire/release clocks; it does not give SeqCst fences
            /// their total order, so a load after one could still be served a stale store.  A SeqCst fence is
            /// therefore modelled the standard way: an acquire-release read-modify-write of one common word —
            /// fences are totally ordered (the interleaving order) and everything sequenced before an earlier
            /// fence happens-before everything after a later one, which is what forbids the stale read.
            pub fn fence(order: Ordering) {
                ilv::fence(order);
                if order == Ordering::SeqCst {
                    ilv::atomic_rmw(SC_FENCE_WORD.as_ptr(), Ordering::AcqRel, "sc-fence", |x| x.wrapping_add(1));
                }
            }
        }
    }
}

/// the extracted items and the few names their file has in scope
#[allow(dead_code, unused_imports, unfulfilled_lint_expectations, clippy::all)]
mod ringcode {
    use crate::wmcore as core;
    use crate::wmcore::sync::atomic::{AtomicU32, Ordering};
    use real_rusl::platform::{Fd, IoUringCompletionQueueEntry, IoUringParamFlags, IoUringSubmissionQueueEntry};
    use std::num::NonZeroUsize;
    use std::ptr::NonNull;
    /// uapi value (linux/io_uring.h); rusl takes it from its bindings crate
    const IORING_SQ_NEED_WAKEUP: i32 = 1;

    include!(concat!(env!("OUT_DIR"), "/ring_items.rs"));

    /// ring memory owned by the harness
    pub struct Mem {
        pub sq_head: AtomicU32,
        pub sq_tail: AtomicU32,
        pub sq_flags: AtomicU32,
        pub sq_dropped: AtomicU32,
        pub sq_array: [AtomicU32; 4],
        pub cq_head: AtomicU32,
        pub cq_tail: AtomicU32,
        pub cq_overflow: AtomicU32,
        pub wake: AtomicU32,
        pub sqes: [IoUringSubmissionQueueEntry; 4],
        pub cqes: [IoUringCompletionQueueEntry; 8],
    }

    pub fn new_mem() -> Box<Mem> {
        let m: Box<Mem> = Box::new(unsafe { std::mem::zeroed() });
        for (i, a) in m.sq_array.iter().enumerate() {
            unsafe { *a.as_ptr() = i as u32 };
        }
        m
    }

    pub fn ring_over(m: &Mem, entries: u32) -> IoUring {
        ring_over_cq(m, entries, 2 * entries)
    }
    pub fn ring_over_cq(m: &Mem, entries: u32, cq_entries: u32) -> IoUring {
        let nn = |a: &AtomicU32| NonNull::from(a);
        IoUring {
            fd: Fd::try_new(0).unwrap(),
            flags: IoUringParamFlags::IORING_SETUP_SQPOLL,
            submission_queue: UringSubmissionQueue {
                ring_size: 0,
                ring_ptr: 0,
                kernel_head: nn(&m.sq_head),
                kernel_tail: nn(&m.sq_tail),
                kernel_flags: nn(&m.sq_flags),
                kernel_dropped: nn(&m.sq_dropped),
                kernel_array: nn(&m.sq_array[0]),
                head: 0,
                tail: 0,
                ring_mask: entries - 1,
                ring_entries: entries,
                entries: NonNull::from(&m.sqes[0]),
            },
            completion_queue: UringCompletionQueue {
                ring_size: 0,
                ring_ptr: 0,
                kernel_head: nn(&m.cq_head),
                kernel_tail: nn(&m.cq_tail),
                kernel_flags: None,
                kernel_overflow: nn(&m.cq_overflow),
                ring_mask: cq_entries - 1,
                ring_entries: cq_entries,
                entries: NonNull::from(&m.cqes[0]),
            },
            reaped: [0; 4],
        }
    }
}

use ringcode::{Mem, new_mem, ring_over, ring_over_cq};
use wmcore::sync::atomic::Ordering;

struct St {
    mem: Option<Box<Mem>>,
    consumed: Vec<u64>,
    reaped: Vec<u64>,
    flushed: u32,
    wakes: u32,
    said_no_wakeup: u32,
    poller_slept: u32,
}
thread_local! {
    static ST: RefCell<St> = const { RefCell::new(St { mem: None, consumed: Vec::new(), reaped: Vec::new(), flushed: 0, wakes: 0, said_no_wakeup: 0, poller_slept: 0 }) };
}
fn mem() -> &'static Mem {
    ST.with(|s| unsafe { &*(s.borrow().mem.as_ref().unwrap().as_ref() as *const Mem) })
}

struct Hand {
    entries: u32,
    /// batch sizes the application flushes, one after the other
    batches: Vec<u32>,
    /// the application also reaps every completion by polling get_next_cqe
    reap: bool,
    /// kernel-owned bits of the SQ flags word other than NEED_WAKEUP that are set from the start
    /// (IORING_SQ_CQ_OVERFLOW = 2, IORING_SQ_TASKRUN = 4); the poller only ever ORs / clears NEED_WAKEUP
    extra_bits: u32,
    /// a third thread (the kernel's completion side) sets and clears IORING_SQ_CQ_OVERFLOW at any time
    toggler: bool,
}

impl Hand {
    fn total(&self) -> u32 {
        self.batches.iter().sum()
    }
    fn app(&self) {
        let m = mem();
        let mut ring = ring_over(m, self.entries);
        let mut ud = 1u64;
        for &b in &self.batches {
            for _ in 0..b {
                // (a full queue cannot happen: batches fit the ring and the poller consumes)
                let slot = loop {
                    if let Some(s) = ring.get_next_sqe_slot() {
                        break s;
                    }
                    wmcore::hint::spin_loop();
                };
                ilv::cell_access(slot as usize, true);
                unsafe { (*slot).0.user_data = ud };
                ud += 1;
            }
            ring.flush_submission_queue();
            ST.with(|s| s.borrow_mut().flushed += b);
            if ring.needs_wakeup() {
                // io_uring_enter(IORING_ENTER_SQ_WAKEUP): wake_up(&sqd->wait)
                ST.with(|s| s.borrow_mut().wakes += 1);
                m.wake.store(1, Ordering::Release);
                ilv::futex_wake(m.wake.as_ptr(), 1);
            } else {
                ST.with(|s| s.borrow_mut().said_no_wakeup += 1);
            }
        }
        if self.reap {
            let mut n = 0;
            while n < self.total() {
                match ring.get_next_cqe() {
                    Some(c) => {
                        let u = c.0.user_data;
                        ST.with(|s| s.borrow_mut().reaped.push(u));
                        n += 1;
                    }
                    None => wmcore::hint::spin_loop(),
                }
            }
        }
    }

    /// io_sq_thread(), reduced to the hand-over protocol
    fn poller(&self) {
        let m = mem();
        let mask = self.entries - 1;
        let cq_mask = 2 * self.entries - 1;
        let mut head = 0u32;
        let mut cq_tail = 0u32;
        let total = self.total();
        loop {
            if head == total {
                return;
            }
            // io_sqring_entries(): smp_load_acquire(&rings->sq.tail)
            let tail = m.sq_tail.load(Ordering::Acquire);
            if tail != head {
                let idx = m.sq_array[(head & mask) as usize].load(Ordering::Relaxed);
                let sqe = &m.sqes[idx as usize] as *const _ as usize;
                ilv::cell_access(sqe, false);
                let ud = unsafe { (*(sqe as *const real_rusl::platform::IoUringSubmissionQueueEntry)).0.user_data };
                ST.with(|s| s.borrow_mut().consumed.push(ud));
                head = head.wrapping_add(1);
                // io_commit_sqring(): smp_store_release(&rings->sq.head, ..)
                m.sq_head.store(head, Ordering::Release);
                // the completion (a NOP): fill the CQE, smp_store_release(&rings->cq.tail, ..)
                let cqe = &m.cqes[(cq_tail & cq_mask) as usize] as *const _ as *mut real_rusl::platform::IoUringCompletionQueueEntry;
                ilv::cell_access(cqe as usize, true);
                unsafe { (*cqe).0.user_data = ud };
                cq_tail = cq_tail.wrapping_add(1);
                m.cq_tail.store(cq_tail, Ordering::Release);
                continue;
            }
            // idle: prepare_to_wait() — ordered against a concurrent wake_up() by the wait queue's lock
            m.wake.swap(0, Ordering::AcqRel);
            // atomic_or(IORING_SQ_NEED_WAKEUP, &rings->sq_flags); smp_mb__after_atomic();
            m.sq_flags.fetch_or(1, Ordering::Relaxed);
            wmcore::sync::atomic::fence(Ordering::SeqCst);
            // one more look at the queue
            let tail = m.sq_tail.load(Ordering::Acquire);
            if tail == head {
                ST.with(|s| s.borrow_mut().poller_slept += 1);
                // schedule(); returns at once when a wake-up came after prepare_to_wait()
                ilv::futex_wait(m.wake.as_ptr(), 0);
                m.wake.swap(0, Ordering::AcqRel);
            }
            // finish_wait(); atomic_andnot(IORING_SQ_NEED_WAKEUP, &rings->sq_flags)
            m.sq_flags.fetch_and(!1, Ordering::Relaxed);
        }
    }
}

impl Model for Hand {
    fn n_threads(&self) -> usize {
        if self.toggler {
            3
        } else {
            2
        }
    }
    fn setup(&self) {
        unsafe { *wmcore::sync::atomic::SC_FENCE_WORD.as_ptr() = 0 };
        ST.with(|s| {
            let mut s = s.borrow_mut();
            let m = new_mem();
            unsafe { *m.sq_flags.as_ptr() = self.extra_bits };
            s.mem = Some(m);
            s.consumed.clear();
            s.reaped.clear();
            s.flushed = 0;
            s.wakes = 0;
            s.said_no_wakeup = 0;
            s.poller_slept = 0;
        });
    }
    fn thread(&self, tid: usize) {
        match tid {
            0 => self.app(),
            1 => self.poller(),
            _ => {
                // io_cqring_event_overflow() / the overflow flush: atomic_or / atomic_andnot of IORING_SQ_CQ_OVERFLOW
                let m = mem();
                m.sq_flags.fetch_or(2, Ordering::Relaxed);
                m.sq_flags.fetch_and(!2, Ordering::Relaxed);
            }
        }
    }
    fn finish(&self, end: &End) -> String {
        ST.with(|s| {
            let s = s.borrow();
            if *end == End::Finished {
                let want: Vec<u64> = (1..=self.total() as u64).collect();
                if s.consumed != want {
                    ilv::flag_violation("entries-lost", format!("flushed entries {want:?}, the poller consumed {:?}", s.consumed));
                }
                if self.reap && s.reaped != want {
                    ilv::flag_violation("completions-lost", format!("completions due {want:?}, reaped {:?}", s.reaped));
                }
            }
            format!("{}wake-ups sent {} / not needed {} / poller slept {}", if *end == End::Finished { "" } else { "unfinished: " }, s.wakes, s.said_no_wakeup, s.poller_slept.min(2))
        })
    }
}

/// A completion ring that is kept FULL: the kernel posts the next completion the moment the head it reads
/// allows, into the slot the application has just released.  Every completion must be reaped exactly once, in
/// order, and the kernel's write must not race with the application's copy of the entry.
struct CqFull {
    cq: u32,
    total: u32,
}
impl Model for CqFull {
    fn n_threads(&self) -> usize {
        2
    }
    fn setup(&self) {
        unsafe { *wmcore::sync::atomic::SC_FENCE_WORD.as_ptr() = 0 };
        ST.with(|s| {
            let mut s = s.borrow_mut();
            s.mem = Some(new_mem());
            s.reaped.clear();
        });
    }
    fn thread(&self, tid: usize) {
        let m = mem();
        if tid == 0 {
            let mut ring = ring_over_cq(m, 1, self.cq);
            let mut n = 0;
            while n < self.total {
                match ring.get_next_cqe() {
                    Some(c) => {
                        let u = c.0.user_data;
                        ST.with(|s| s.borrow_mut().reaped.push(u));
                        n += 1;
                    }
                    None => wmcore::hint::spin_loop(),
                }
            }
        } else {
            let mask = self.cq - 1;
            for i in 0..self.total {
                // io_get_cqe(): room when tail - READ_ONCE(head) < cq_entries (the head is read with acquire semantics)
                loop {
                    let head = m.cq_head.load(Ordering::Acquire);
                    if i.wrapping_sub(head) < self.cq {
                        break;
                    }
                    wmcore::hint::spin_loop();
                }
                let cqe = &m.cqes[(i & mask) as usize] as *const _ as *mut real_rusl::platform::IoUringCompletionQueueEntry;
                ilv::cell_access(cqe as usize, true);
                unsafe { (*cqe).0.user_data = 1 + i as u64 };
                m.cq_tail.store(i + 1, Ordering::Release);
            }
        }
    }
    fn finish(&self, end: &End) -> String {
        ST.with(|s| {
            let s = s.borrow();
            if *end == End::Finished {
                let want: Vec<u64> = (1..=self.total as u64).collect();
                if s.reaped != want {
                    ilv::flag_violation("completion-lost-or-duplicated", format!("completions posted {want:?}, reaped {:?}", s.reaped));
                }
            }
            (if *end == End::Finished { "every completion reaped once, in order" } else { "unfinished" }).to_string()
        })
    }
}

fn programs(th: bool) -> Vec<(String, Hand, Budget)> {
    let mut v = Vec::new();
    let b = |p, w| Budget { p, d: 0, w };
    // every program with every setting of the kernel-owned other bits of the flags word
    for extra in [0u32, 2, 4, 6] {
        let tag = match extra {
            0 => "".to_string(),
            2 => " [CQ_OVERFLOW set]".to_string(),
            4 => " [TASKRUN set]".to_string(),
            _ => " [CQ_OVERFLOW|TASKRUN set]".to_string(),
        };
        let h = |batches: Vec<u32>, reap: bool| Hand { entries: 2, batches, reap, extra_bits: extra, toggler: false };
        v.push((format!("one-entry{tag}"), h(vec![1], false), b(if th { 4 } else { 3 }, 2)));
        v.push((format!("one-entry+reap{tag}"), h(vec![1], true), b(if th { 3 } else { 2 }, 2)));
        v.push((format!("two-flushes{tag}"), h(vec![1, 1], false), b(if th { 3 } else { 2 }, 2)));
        if th {
            v.push((format!("batch-of-two+reap{tag}"), h(vec![2], true), b(2, 2)));
            v.push((format!("three-flushes{tag}"), h(vec![1, 1, 1], false), b(2, 2)));
        }
    }
    // the overflow bit coming and going at any time (third thread)
    v.push(("one-entry [CQ_OVERFLOW toggled by a third thread]".to_string(), Hand { entries: 2, batches: vec![1], reap: false, extra_bits: 0, toggler: true }, b(if th { 3 } else { 2 }, if th { 2 } else { 1 })));
    if th {
        v.push(("two-flushes [CQ_OVERFLOW toggled by a third thread]".to_string(), Hand { entries: 2, batches: vec![1, 1], reap: false, extra_bits: 0, toggler: true }, b(2, 2)));
    }
    v
}

/// Sequential truth table (outside the explorer the instrumented atomics are plain memory): for every value
/// of the low three bits of the SQ flags word, `needs_wakeup()` is exactly the NEED_WAKEUP bit.
fn truth_table(r: &mut Report) {
    for word in 0u32..8 {
        r.eval();
        r.nontrivial_unique();
        let m = new_mem();
        unsafe { *m.sq_flags.as_ptr() = word };
        let ring = ring_over(&m, 2);
        let got = catch(|| ring.needs_wakeup());
        let want = word & 1 != 0;
        let cj = json!({"phase": "wm", "op": "needs_wakeup", "scenario": "truth-table", "word": word});
        match got {
            Ok(g) if g == want => r.outcome(if want { "truth-table: NEED_WAKEUP set -> true" } else { "truth-table: NEED_WAKEUP clear -> false" }),
            Ok(g) => {
                let key = if want { "C17:needs_wakeup:ignores-bit-when-other-flags-set" } else { "C17:needs_wakeup:true-without-bit" };
                r.violation(key, format!("SQ flags word {word:#05b} (NEED_WAKEUP {}, CQ_OVERFLOW {}, TASKRUN {}): needs_wakeup() = {g}", word & 1, (word >> 1) & 1, (word >> 2) & 1), cj);
            }
            Err(p) => r.violation("C17:needs_wakeup:panic", format!("needs_wakeup() with flags word {word:#x} panicked: {p}"), cj),
        }
    }
}

fn choices_json(c: &[(u16, u16)]) -> Value {
    json!(c.iter().map(|x| json!([x.0, x.1])).collect::<Vec<_>>())
}

fn run(args: &Args) -> Report {
    let t0 = now();
    let mut r = Report::new();
    truth_table(&mut r);
    for (name, model, budget) in programs(args.thorough) {
        let cfg = Config { budget, max_steps: 4_000, workers: n_workers().min(8), max_schedules: 0, stop_at_first: false, max_seconds: if args.thorough { 240 } else { 25 } };
        let st = ilv::explore(&model, &cfg);
        r.evaluations += st.schedules;
        r.distinct_by_construction += st.schedules;
        r.states += st.states;
        r.transitions += st.transitions;
        for (k, c) in &st.outcomes {
            r.outcome_n(&format!("{name}: {k}"), *c);
        }
        if st.time_cap_hit || st.schedule_cap_hit || st.step_cap_hits > 0 {
            r.cap(format!("{name}: exploration capped (time {} schedules {} step-cap hits {})", st.time_cap_hit, st.schedule_cap_hit, st.step_cap_hits));
        }
        for (i, fname) in ilv::FEATURE_NAMES.iter().enumerate() {
            if st.features & (1 << i) != 0 {
                r.outcome(&format!("seen: {fname}"));
            }
        }
        for (kind, v) in &st.violations {
            let key = match kind.as_str() {
                "deadlock" => "C17:weak-memory:flushed-entry-never-consumed(poller asleep)".to_string(),
                k => format!("C17:weak-memory:{k}"),
            };
            r.violation(
                &key,
                format!("program {name} (P={} W={}): {} [{} schedules]", budget.p, budget.w, v.desc, v.count),
                json!({"phase": "wm", "op": "sqpoll-handover", "program": name, "budget": [budget.p, budget.d, budget.w], "choices": choices_json(&v.choices)}),
            );
        }
        r.bound(&format!("budget {name}"), json!({"preemptions": budget.p, "stale_reads": budget.w, "schedules": st.schedules, "states": st.states}));
        if r.samples.len() < 3 {
            let a = ilv::replay(&model, budget, 4_000, &st.first_choices);
            r.sample(json!({"program": name, "outcome": a.1, "trace_head": a.3.iter().take(16).collect::<Vec<_>>()}));
        }
    }
    for cq in [1u32, 2] {
        let name = format!("full-completion-ring-of-{cq}");
        let model = CqFull { cq, total: cq + 1 };
        let budget = Budget { p: if args.thorough { 3 } else { 2 }, d: 0, w: 0 };
        let cfg = Config { budget, max_steps: 4_000, workers: n_workers().min(8), max_schedules: 0, stop_at_first: false, max_seconds: 30 };
        let st = ilv::explore(&model, &cfg);
        r.evaluations += st.schedules;
        r.distinct_by_construction += st.schedules;
        r.states += st.states;
        r.transitions += st.transitions;
        for (k, c) in &st.outcomes {
            r.outcome_n(&format!("{name}: {k}"), *c);
        }
        if st.time_cap_hit || st.schedule_cap_hit || st.step_cap_hits > 0 {
            r.cap(format!("{name}: exploration capped"));
        }
        for (kind, v) in &st.violations {
            r.violation(
                &format!("C17:weak-memory:{kind}"),
                format!("program {name} (P={} W={}): {} [{} schedules]", budget.p, budget.w, v.desc, v.count),
                json!({"phase": "wm", "op": "cq-full", "program": name, "cq": cq, "budget": [budget.p, budget.d, budget.w], "choices": choices_json(&v.choices)}),
            );
        }
        r.bound(&format!("budget {name}"), json!({"preemptions": budget.p, "stale_reads": budget.w, "schedules": st.schedules, "states": st.states}));
    }
    r.rule = "every interleaving of the application thread (verbatim rusl queue functions) and the modelled SQ poll thread within P preemptions and W stale reads, per program; each schedule is explored once".into();
    r.note("SeqCst fences are modelled as acquire-release RMWs of one common word (ilv's own fence does not order SeqCst fences totally)".to_string());
    r.note(format!("wall {:.1}s", t0.elapsed().as_secs_f64()));
    r
}

fn main() {
    let args = parse_args();
    install_panic_hook();
    if let Some(p) = &args.replay {
        let v = read_replay(p);
        if v["scenario"].as_str() == Some("truth-table") {
            let mut r = Report::new();
            truth_table(&mut r);
            for v in r.violations.values() {
                println!("VIOLATED {}: {}", v.key, v.desc);
            }
            std::process::exit(if r.violations.is_empty() { 0 } else { 1 });
        }
        if v["op"].as_str() == Some("cq-full") {
            let cq = v["cq"].as_u64().unwrap_or(1) as u32;
            let b = &v["budget"];
            let budget = Budget { p: b[0].as_u64().unwrap_or(3) as u8, d: 0, w: b[2].as_u64().unwrap_or(1) as u8 };
            let choices: Vec<(u16, u16)> = v["choices"].as_array().map(|a| a.iter().map(|x| (x[0].as_u64().unwrap_or(0) as u16, x[1].as_u64().unwrap_or(0) as u16)).collect()).unwrap_or_default();
            let (end, label, viol, trace) = ilv::replay(&CqFull { cq, total: cq + 1 }, budget, 4_000, &choices);
            for l in &trace {
                println!("{l}");
            }
            println!("end={end:?} outcome={label}");
            if let Some((k, d)) = viol {
                println!("VIOLATED C17:weak-memory:{k}: {d}");
                std::process::exit(1);
            }
            return;
        }
        let name = v["program"].as_str().unwrap_or("one-entry");
        let Some((_, model, _)) = programs(true).into_iter().find(|x| x.0 == name) else { panic!("no such program") };
        let b = &v["budget"];
        let budget = Budget { p: b[0].as_u64().unwrap_or(3) as u8, d: b[1].as_u64().unwrap_or(0) as u8, w: b[2].as_u64().unwrap_or(2) as u8 };
        let choices: Vec<(u16, u16)> = v["choices"].as_array().map(|a| a.iter().map(|x| (x[0].as_u64().unwrap_or(0) as u16, x[1].as_u64().unwrap_or(0) as u16)).collect()).unwrap_or_default();
        let (end, label, viol, trace) = ilv::replay(&model, budget, 4_000, &choices);
        for l in &trace {
            println!("{l}");
        }
        println!("end={end:?} outcome={label}");
        if let Some((k, d)) = viol {
            println!("VIOLATED C17:weak-memory:{k}: {d}");
            std::process::exit(1);
        }
        return;
    }
    let r = run(&args);
    r.write(&args.out);
}
