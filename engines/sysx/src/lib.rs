//! Syscall seam (DESIGN.md S2).
//!
//! rusl and tiny-std issue system calls with inline `syscall` instructions, which
//! live in the harness executable's text; the harness's own std goes through
//! libc.so.  `arm()` switches on Syscall User Dispatch for the calling thread with
//! libc's text mapping as the always-allowed range and a selector byte that is
//! BLOCK only inside `run`.  Every `syscall` instruction executed by repository
//! code inside `run` raises SIGSYS *before* the kernel acts; the handler asks the
//! current `Plan` what to do: pass the call through (re-issued via
//! `libc::syscall`), suppress it and force a result, or run it and report a
//! different result.  x86_64 only.

use libc::{c_int, c_void};
use std::cell::Cell;

const PR_SET_SYSCALL_USER_DISPATCH: c_int = 59;
const PR_SYS_DISPATCH_OFF: libc::c_ulong = 0;
const PR_SYS_DISPATCH_ON: libc::c_ulong = 1;
const SEL_ALLOW: u8 = 0;
const SEL_BLOCK: u8 = 1;

#[derive(Clone, Copy, Debug, PartialEq, Eq)]
pub enum Decision {
    /// execute the call for real and report its result
    Pass,
    /// do not execute; report this raw kernel return value
    Force(i64),
    /// execute for real (side effects happen) but report this value
    PassThenForce(i64),
}

#[derive(Clone, Copy, Debug, PartialEq, Eq)]
pub struct Call {
    pub nr: i64,
    pub args: [u64; 6],
    pub ret: i64,
    /// what the kernel really returned when the call was executed (== ret unless forced)
    pub real: Option<i64>,
    pub pid: i32,
}

pub trait Plan {
    /// `idx` = number of intercepted calls before this one in the current run
    fn decide(&mut self, idx: usize, nr: i64, args: &[u64; 6]) -> Decision;
    /// called after the call was answered
    fn after(&mut self, _idx: usize, _call: &Call) {}
}

/// Passes everything through (logging only).
pub struct PassAll;
impl Plan for PassAll {
    fn decide(&mut self, _: usize, _: i64, _: &[u64; 6]) -> Decision {
        Decision::Pass
    }
}

/// Fails the k-th intercepted call satisfying `pred` with `-errno`; everything else passes.
pub struct FailKth<F: FnMut(i64, &[u64; 6]) -> bool> {
    pub k: usize,
    pub errno: i64,
    pub seen: usize,
    pub hit: bool,
    pub pred: F,
    /// run the call for real before reporting the error (e.g. `close`: the descriptor is released even when an error is reported)
    pub execute_anyway: bool,
}
impl<F: FnMut(i64, &[u64; 6]) -> bool> Plan for FailKth<F> {
    fn decide(&mut self, _idx: usize, nr: i64, args: &[u64; 6]) -> Decision {
        if (self.pred)(nr, args) {
            let me = self.seen;
            self.seen += 1;
            if me == self.k {
                self.hit = true;
                return if self.execute_anyway { Decision::PassThenForce(-self.errno) } else { Decision::Force(-self.errno) };
            }
        }
        Decision::Pass
    }
}

struct RunState {
    plan: *mut dyn Plan,
    log: Vec<Call>,
    on_fork_child: Option<fn()>,
}

thread_local! {
    static SELECTOR: Cell<u8> = const { Cell::new(SEL_ALLOW) };
    static ARMED: Cell<bool> = const { Cell::new(false) };
    static STATE: Cell<*mut RunState> = const { Cell::new(std::ptr::null_mut()) };
}

static mut ALLOWED: (usize, usize) = (0, 0);

fn libc_text_range() -> (usize, usize) {
    // the r-xp mapping of libc.so that contains `libc::syscall`
    let probe = libc::syscall as usize;
    let maps = std::fs::read_to_string("/proc/self/maps").expect("maps");
    for l in maps.lines() {
        let mut it = l.split_whitespace();
        let range = it.next().unwrap();
        let perms = it.next().unwrap_or("");
        let (a, b) = range.split_once('-').unwrap();
        let (a, b) = (usize::from_str_radix(a, 16).unwrap(), usize::from_str_radix(b, 16).unwrap());
        if perms.starts_with("r-x") && a <= probe && probe < b {
            return (a, b - a);
        }
    }
    panic!("libc text mapping not found");
}

#[inline]
unsafe fn raw(nr: i64, a: &[u64; 6]) -> i64 {
    let r = libc::syscall(nr, a[0], a[1], a[2], a[3], a[4], a[5]);
    if r == -1 {
        -(*libc::__errno_location() as i64)
    } else {
        r
    }
}

fn prctl_on() -> bool {
    unsafe {
        let (off, len) = ALLOWED;
        let sel = SELECTOR.with(|s| s.as_ptr());
        libc::prctl(PR_SET_SYSCALL_USER_DISPATCH, PR_SYS_DISPATCH_ON, off as libc::c_ulong, len as libc::c_ulong, sel as libc::c_ulong) == 0
    }
}

extern "C" fn on_sigsys(_sig: c_int, _info: *mut libc::siginfo_t, ctx: *mut c_void) {
    unsafe {
        let sel = SELECTOR.with(|s| s.as_ptr());
        *sel = SEL_ALLOW;
        let uc = ctx as *mut libc::ucontext_t;
        let g = &mut (*uc).uc_mcontext.gregs;
        let nr = g[libc::REG_RAX as usize];
        let args: [u64; 6] = [
            g[libc::REG_RDI as usize] as u64,
            g[libc::REG_RSI as usize] as u64,
            g[libc::REG_RDX as usize] as u64,
            g[libc::REG_R10 as usize] as u64,
            g[libc::REG_R8 as usize] as u64,
            g[libc::REG_R9 as usize] as u64,
        ];
        let st = STATE.with(|s| s.get());
        let ret = if st.is_null() {
            raw(nr, &args)
        } else {
            let st = &mut *st;
            let idx = st.log.len();
            let d = (*st.plan).decide(idx, nr, &args);
            let is_fork = nr == libc::SYS_fork || nr == libc::SYS_vfork || (nr == libc::SYS_clone && args[0] & libc::CLONE_VM as u64 == 0);
            let (ret, real) = match d {
                Decision::Force(v) => (v, None),
                Decision::Pass => {
                    let r = if nr == libc::SYS_fork || nr == libc::SYS_vfork {
                        // a plain fork through libc's raw syscall entry; vfork semantics are not reproduced
                        raw(libc::SYS_fork, &args)
                    } else {
                        raw(nr, &args)
                    };
                    (r, Some(r))
                }
                Decision::PassThenForce(v) => {
                    let r = raw(nr, &args);
                    (v, Some(r))
                }
            };
            if is_fork && real == Some(0) {
                // we are the child: dispatch is not inherited over fork — re-arm so that the
                // child's calls up to exec are answered by the (copied) plan too
                prctl_on();
                if let Some(f) = st.on_fork_child {
                    f();
                }
            }
            let call = Call { nr, args, ret, real, pid: libc::getpid() };
            st.log.push(call);
            (*st.plan).after(idx, &call);
            ret
        };
        g[libc::REG_RAX as usize] = ret;
        // a `run` that ended inside the handler (never happens) would leave ALLOW; restore BLOCK only when a run is active
        if !STATE.with(|s| s.get()).is_null() {
            *sel = SEL_BLOCK;
        }
    }
}

/// Arm Syscall User Dispatch for the calling thread.  Returns false when the kernel refuses.
pub fn arm() -> bool {
    if ARMED.with(|a| a.get()) {
        return true;
    }
    unsafe {
        if ALLOWED.1 == 0 {
            ALLOWED = libc_text_range();
            let mut sa: libc::sigaction = std::mem::zeroed();
            sa.sa_sigaction = on_sigsys as *const () as usize;
            sa.sa_flags = libc::SA_SIGINFO | libc::SA_NODEFER;
            libc::sigemptyset(&mut sa.sa_mask);
            if libc::sigaction(libc::SIGSYS, &sa, std::ptr::null_mut()) != 0 {
                return false;
            }
        }
    }
    let ok = prctl_on();
    ARMED.with(|a| a.set(ok));
    ok
}

pub fn disarm() {
    unsafe {
        libc::prctl(PR_SET_SYSCALL_USER_DISPATCH, PR_SYS_DISPATCH_OFF, 0, 0, 0);
    }
    ARMED.with(|a| a.set(false));
}

/// Run `f` with every raw syscall instruction it executes (on this thread) answered by `plan`.
/// Returns `f`'s result and the log of intercepted calls.
pub fn run<R>(plan: &mut dyn Plan, f: impl FnOnce() -> R) -> (R, Vec<Call>) {
    run_opt(plan, None, f)
}

/// As `run`; `on_fork_child` is called in a forked child right after dispatch was re-armed there.
pub fn run_opt<R>(plan: &mut dyn Plan, on_fork_child: Option<fn()>, f: impl FnOnce() -> R) -> (R, Vec<Call>) {
    assert!(arm(), "Syscall User Dispatch not available");
    assert!(STATE.with(|s| s.get()).is_null(), "sysx::run is not re-entrant");
    let plan: *mut (dyn Plan + '_) = plan;
    let plan: *mut (dyn Plan + 'static) = unsafe { std::mem::transmute(plan) };
    let mut st = Box::new(RunState { plan, log: Vec::with_capacity(64), on_fork_child });
    STATE.with(|s| s.set(&mut *st as *mut RunState));
    struct Guard;
    impl Drop for Guard {
        fn drop(&mut self) {
            SELECTOR.with(|s| s.set(SEL_ALLOW));
            STATE.with(|s| s.set(std::ptr::null_mut()));
        }
    }
    let g = Guard;
    SELECTOR.with(|s| s.set(SEL_BLOCK));
    let r = f();
    drop(g);
    let log = std::mem::take(&mut st.log);
    (r, log)
}

/// Temporarily leave the seam inside a `run` (for harness callbacks that must do real work).
pub fn unhooked<R>(f: impl FnOnce() -> R) -> R {
    let prev = SELECTOR.with(|s| s.replace(SEL_ALLOW));
    let r = f();
    SELECTOR.with(|s| s.set(prev));
    r
}

pub fn name(nr: i64) -> &'static str {
    macro_rules! t { ($($n:ident),*) => { $( if nr == libc::$n { return &stringify!($n)[4..]; } )* } }
    t!(SYS_read, SYS_write, SYS_open, SYS_close, SYS_stat, SYS_fstat, SYS_lstat, SYS_poll, SYS_lseek, SYS_mmap, SYS_mprotect, SYS_munmap,
       SYS_brk, SYS_rt_sigaction, SYS_rt_sigprocmask, SYS_rt_sigreturn, SYS_ioctl, SYS_pread64, SYS_pwrite64, SYS_readv, SYS_writev,
       SYS_access, SYS_pipe, SYS_select, SYS_sched_yield, SYS_mremap, SYS_msync, SYS_madvise, SYS_dup, SYS_dup2, SYS_pause, SYS_nanosleep,
       SYS_getpid, SYS_sendfile, SYS_socket, SYS_connect, SYS_accept, SYS_sendto, SYS_recvfrom, SYS_sendmsg, SYS_recvmsg, SYS_shutdown,
       SYS_bind, SYS_listen, SYS_getsockname, SYS_getpeername, SYS_socketpair, SYS_setsockopt, SYS_getsockopt, SYS_clone, SYS_fork, SYS_vfork,
       SYS_execve, SYS_exit, SYS_wait4, SYS_kill, SYS_uname, SYS_fcntl, SYS_flock, SYS_fsync, SYS_fdatasync, SYS_truncate, SYS_ftruncate,
       SYS_getdents, SYS_getcwd, SYS_chdir, SYS_fchdir, SYS_rename, SYS_mkdir, SYS_rmdir, SYS_creat, SYS_link, SYS_unlink, SYS_symlink,
       SYS_readlink, SYS_chmod, SYS_fchmod, SYS_chown, SYS_umask, SYS_gettimeofday, SYS_getuid, SYS_getgid, SYS_setuid, SYS_setgid,
       SYS_geteuid, SYS_getegid, SYS_setpgid, SYS_getppid, SYS_getpgrp, SYS_setsid, SYS_setreuid, SYS_setregid, SYS_getpgid, SYS_getsid,
       SYS_arch_prctl, SYS_mount, SYS_umount2, SYS_swapon, SYS_swapoff, SYS_gettid, SYS_futex, SYS_epoll_create, SYS_getdents64,
       SYS_set_tid_address, SYS_clock_gettime, SYS_clock_getres, SYS_clock_nanosleep, SYS_exit_group, SYS_epoll_wait, SYS_epoll_ctl,
       SYS_tgkill, SYS_waitid, SYS_openat, SYS_mkdirat, SYS_newfstatat, SYS_unlinkat, SYS_renameat, SYS_linkat, SYS_symlinkat, SYS_readlinkat,
       SYS_ppoll, SYS_unshare, SYS_epoll_pwait, SYS_accept4, SYS_epoll_create1, SYS_dup3, SYS_pipe2, SYS_preadv, SYS_pwritev,
       SYS_prlimit64, SYS_renameat2, SYS_getrandom, SYS_execveat, SYS_copy_file_range, SYS_statx, SYS_io_uring_setup, SYS_io_uring_enter,
       SYS_io_uring_register, SYS_clone3, SYS_openat2, SYS_faccessat2, SYS_prctl, SYS_setresuid, SYS_setresgid, SYS_sigaltstack);
    "?"
}

/// Open descriptors of this process: (fd, readlink target), excluding the directory stream used to list them.
pub fn fd_table() -> Vec<(i32, String)> {
    let mut v = Vec::new();
    if let Ok(rd) = std::fs::read_dir("/proc/self/fd") {
        for e in rd.flatten() {
            if let Ok(n) = e.file_name().to_string_lossy().parse::<i32>() {
                if let Ok(t) = std::fs::read_link(e.path()) {
                    let t = t.to_string_lossy().to_string();
                    if t.contains("/proc/") && t.ends_with("/fd") {
                        continue;
                    }
                    v.push((n, t));
                }
            }
        }
    }
    v.sort();
    v
}
