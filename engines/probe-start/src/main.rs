//! C07 end-to-end probe.
//!
//! A `#![no_std] #![no_main]` executable started through tiny-std's `_start` /
//! `__proxy_main`.  It echoes, as length-prefixed binary records on stdout, what the
//! start-up code handed to the program: `args_os()`, `args()`, `var_unix`/`var` for the
//! keys given after the first `--keys` argument, every aux getter, the raw
//! `/proc/self/auxv` of this very process, a check of its own relocation table, and a
//! sampled comparison of the vDSO-backed clock with the `clock_gettime` system call.
//!
//! argv and envp are the data under test, so control information (exit code to return,
//! memory words to dump) travels on **stdin**:
//!   `"PSC1" <exit:u8> <npeek:u8> npeek x (<delta from PROBE_ANCHOR:i64 le> <len:u16 le>)`
//!
//! Record format: `<tag:u8><len:u32 le><payload>`; tags are documented next to the
//! code that emits them (and mirrored in /verif/lib/steps_start.py).
//!
//! No allocation, no formatting machinery.
#![no_std]
#![no_main]

#[cfg(not(any(
    feature = "fs-exe",
    feature = "fs-aux",
    feature = "fs-noaux",
    feature = "fs-exe-threaded",
    feature = "fs-noaux-threaded"
)))]
compile_error!("build with exactly one of the fs-* features (see Cargo.toml)");

use rusl::platform::{OpenFlags, STDIN, STDOUT};
use tiny_std::env::VarError;
use tiny_std::UnixStr;

/// The address of this byte, minus its link-time address in the symbol table, is the
/// load bias; the driver uses it to name other statics relative to it.
#[no_mangle]
#[used]
pub static PROBE_ANCHOR: u8 = 0x5a;

/// rustc >= 1.9x turns rusl's `strlen` loop into a call to `strlen` in optimised builds,
/// and nothing provides that symbol without libc.  Volatile reads keep this loop from
/// being turned into a call to itself.
/// # Safety
/// `s` must point to a NUL terminated string
#[no_mangle]
pub unsafe extern "C" fn strlen(s: *const u8) -> usize {
    let mut i = 0usize;
    while core::ptr::read_volatile(s.add(i)) != 0 {
        i += 1;
    }
    i
}

// ---------------------------------------------------------------- output

const OUT_CAP: usize = 32 * 1024;
static mut OUT: [u8; OUT_CAP] = [0; OUT_CAP];
static mut OUT_LEN: usize = 0;

fn write_all(mut b: &[u8]) {
    while !b.is_empty() {
        match rusl::unistd::write(STDOUT, b) {
            Ok(0) => rusl::process::exit(101),
            Ok(n) => b = &b[n..],
            Err(e) => {
                if e.code == Some(rusl::error::Errno::EINTR) {
                    continue;
                }
                rusl::process::exit(101);
            }
        }
    }
}

fn flush() {
    unsafe {
        let len = OUT_LEN;
        let p = core::ptr::addr_of!(OUT).cast::<u8>();
        write_all(core::slice::from_raw_parts(p, len));
        OUT_LEN = 0;
    }
}

fn put(b: &[u8]) {
    unsafe {
        if b.len() > OUT_CAP / 2 {
            flush();
            write_all(b);
            return;
        }
        if OUT_LEN + b.len() > OUT_CAP {
            flush();
        }
        let p = core::ptr::addr_of_mut!(OUT).cast::<u8>().add(OUT_LEN);
        core::ptr::copy_nonoverlapping(b.as_ptr(), p, b.len());
        OUT_LEN += b.len();
    }
}

fn rec(tag: u8, parts: &[&[u8]]) {
    let mut total = 0usize;
    for p in parts {
        total += p.len();
    }
    put(&[tag]);
    put(&(total as u32).to_le_bytes());
    for p in parts {
        put(p);
    }
}

fn body(u: &UnixStr) -> &[u8] {
    let s = u.as_slice();
    &s[..s.len() - 1]
}

// ---------------------------------------------------------------- helpers

#[repr(C)]
#[derive(Copy, Clone)]
struct Ts {
    sec: i64,
    nsec: i64,
}

impl Ts {
    fn le(self, o: Ts) -> bool {
        self.sec < o.sec || (self.sec == o.sec && self.nsec <= o.nsec)
    }
    fn nanos_since(self, o: Ts) -> u64 {
        ((self.sec - o.sec) * 1_000_000_000 + (self.nsec - o.nsec)) as u64
    }
}

const CLK_REAL: usize = 0;
const CLK_MONO: usize = 1;

fn sys_clock(clk: usize) -> Ts {
    let mut ts = Ts { sec: 0, nsec: 0 };
    unsafe {
        sc::syscall!(CLOCK_GETTIME, clk, core::ptr::addr_of_mut!(ts));
    }
    ts
}

/// The path tiny-std takes when feature `vdso` is on: `time::get_monotonic_time` /
/// `time::get_real_time` (tiny-std/src/time.rs), reached through the public `now()`s.
fn lib_clock(clk: usize) -> Ts {
    if clk == CLK_MONO {
        let inst = tiny_std::time::MonotonicInstant::now().as_instant();
        let ts: &rusl::platform::TimeSpec = inst.as_ref();
        Ts {
            sec: ts.seconds(),
            nsec: ts.nanoseconds(),
        }
    } else {
        let d = tiny_std::time::SystemTime::now().duration_since_unix_time();
        Ts {
            sec: d.as_secs() as i64,
            nsec: i64::from(d.subsec_nanos()),
        }
    }
}

const N_PAIRS: u32 = 1000;

/// 'T' payload per clock:
/// `<clk:u8> <n:u32> <ok:u32> <below:u32> <above:u32> <syscall_went_back:u32>
///  <first bad triple: 6 x i64> <lib_loop_ns:u64> <sys_loop_ns:u64>`
fn vdso_section(clk: usize) {
    let mut ok = 0u32;
    let mut below = 0u32;
    let mut above = 0u32;
    let mut back = 0u32;
    let mut first_bad = [0i64; 6];
    let mut have_bad = false;
    let mut before = sys_clock(clk);
    let mut i = 0;
    while i < N_PAIRS {
        let v = lib_clock(clk);
        let after = sys_clock(clk);
        if !before.le(after) {
            // the clock itself was stepped backwards between two system calls
            // (possible for CLOCK_REALTIME): the pair says nothing
            back += 1;
        } else if !before.le(v) {
            below += 1;
            if !have_bad {
                have_bad = true;
                first_bad = [before.sec, before.nsec, v.sec, v.nsec, after.sec, after.nsec];
            }
        } else if !v.le(after) {
            above += 1;
            if !have_bad {
                have_bad = true;
                first_bad = [before.sec, before.nsec, v.sec, v.nsec, after.sec, after.nsec];
            }
        } else {
            ok += 1;
        }
        before = after;
        i += 1;
    }
    // informational timing of the two paths
    let t0 = sys_clock(CLK_MONO);
    let mut k = 0;
    while k < N_PAIRS {
        let _ = lib_clock(clk);
        k += 1;
    }
    let t1 = sys_clock(CLK_MONO);
    k = 0;
    while k < N_PAIRS {
        let _ = sys_clock(clk);
        k += 1;
    }
    let t2 = sys_clock(CLK_MONO);
    let mut pl = [0u8; 1 + 5 * 4 + 6 * 8 + 16];
    pl[0] = clk as u8;
    let mut o = 1;
    for x in [N_PAIRS, ok, below, above, back] {
        pl[o..o + 4].copy_from_slice(&x.to_le_bytes());
        o += 4;
    }
    for x in first_bad {
        pl[o..o + 8].copy_from_slice(&x.to_le_bytes());
        o += 8;
    }
    pl[o..o + 8].copy_from_slice(&t1.nanos_since(t0).to_le_bytes());
    o += 8;
    pl[o..o + 8].copy_from_slice(&t2.nanos_since(t1).to_le_bytes());
    rec(b'T', &[&pl]);
}

fn auxv_find(auxv: &[u8], key: u64) -> Option<u64> {
    let mut o = 0;
    while o + 16 <= auxv.len() {
        let k = u64::from_le_bytes(auxv[o..o + 8].try_into().unwrap_or([0; 8]));
        let v = u64::from_le_bytes(auxv[o + 8..o + 16].try_into().unwrap_or([0; 8]));
        if k == 0 {
            return None;
        }
        if k == key {
            return Some(v);
        }
        o += 16;
    }
    None
}

unsafe fn rd64(addr: usize) -> u64 {
    core::ptr::read_volatile(addr as *const u64)
}

/// Check this image's own relocation table against memory (independent of the
/// start-up code): every `R_X86_64_RELATIVE` entry must have left `base + addend`
/// at `base + offset`.
/// 'L' payload: `<status:u8> <base:u64> <n_rela:u64> <n_relative:u64> <n_wrong:u64>
///   <first_wrong_index:u64> <rel_sz:u64> <relr_sz:u64> <has_interp:u8>`
/// status: 0 checked, 1 no PT_DYNAMIC (static non-PIE), 2 no AT_PHDR,
/// 3 image has PT_INTERP (the interpreter relocated it)
fn reloc_section(auxv: &[u8]) {
    let mut pl = [0u8; 1 + 7 * 8 + 1];
    let phdr = auxv_find(auxv, 3).unwrap_or(0) as usize;
    let phent = auxv_find(auxv, 4).unwrap_or(0) as usize;
    let phnum = auxv_find(auxv, 5).unwrap_or(0) as usize;
    if phdr == 0 || phent < 56 {
        pl[0] = 2;
        rec(b'L', &[&pl]);
        return;
    }
    let mut base: Option<usize> = None;
    let mut dyn_vaddr: Option<usize> = None;
    let mut has_interp = 0u8;
    let mut first_load_off0_vaddr: Option<usize> = None;
    unsafe {
        let mut i = 0;
        while i < phnum {
            let p = phdr + i * phent;
            let p_type = core::ptr::read_volatile(p as *const u32);
            let p_offset = rd64(p + 8) as usize;
            let p_vaddr = rd64(p + 16) as usize;
            match p_type {
                6 => base = Some(phdr.wrapping_sub(p_vaddr)), // PT_PHDR
                2 => dyn_vaddr = Some(p_vaddr),               // PT_DYNAMIC
                3 => has_interp = 1,                          // PT_INTERP
                1 => {
                    if p_offset == 0 && first_load_off0_vaddr.is_none() {
                        first_load_off0_vaddr = Some(p_vaddr);
                    }
                }
                _ => {}
            }
            i += 1;
        }
    }
    pl[57] = has_interp;
    let Some(dv) = dyn_vaddr else {
        pl[0] = 1;
        rec(b'L', &[&pl]);
        return;
    };
    if has_interp == 1 {
        // relocated by the program interpreter, which (glibc) also rewrites the
        // addresses inside .dynamic: nothing of tiny-std's to check here
        pl[0] = 3;
        rec(b'L', &[&pl]);
        return;
    }
    // without PT_PHDR: the headers live at file offset 64 of the first PT_LOAD
    let base = match (base, first_load_off0_vaddr) {
        (Some(b), _) => b,
        (None, Some(v)) => phdr.wrapping_sub(64).wrapping_sub(v),
        (None, None) => 0,
    };
    let (mut rela, mut rela_sz, mut rel_sz, mut relr_sz) = (0usize, 0usize, 0usize, 0usize);
    unsafe {
        let mut d = base.wrapping_add(dv);
        loop {
            let tag = rd64(d);
            let val = rd64(d + 8) as usize;
            match tag {
                0 => break,
                7 => rela = val,
                8 => rela_sz = val,
                18 => rel_sz = val,
                35 => relr_sz = val,
                _ => {}
            }
            d += 16;
        }
    }
    let n = rela_sz / 24;
    let mut n_rel = 0u64;
    let mut n_wrong = 0u64;
    let mut first_wrong = u64::MAX;
    unsafe {
        let mut i = 0;
        while i < n {
            // DT_RELA holds a link-time address in a not-yet-relocated image and stays
            // that way for self-relocating images; ld.so does not rewrite it either
            let e = base.wrapping_add(rela) + i * 24;
            let off = rd64(e) as usize;
            let info = rd64(e + 8);
            let addend = rd64(e + 16) as usize;
            if info & 0xffff_ffff == 8 {
                n_rel += 1;
                let have = rd64(base.wrapping_add(off)) as usize;
                if have != base.wrapping_add(addend) {
                    n_wrong += 1;
                    if first_wrong == u64::MAX {
                        first_wrong = i as u64;
                    }
                }
            }
            i += 1;
        }
    }
    let mut o = 1;
    for x in [
        base as u64,
        n as u64,
        n_rel,
        n_wrong,
        first_wrong,
        rel_sz as u64,
        relr_sz as u64,
    ] {
        pl[o..o + 8].copy_from_slice(&x.to_le_bytes());
        o += 8;
    }
    rec(b'L', &[&pl]);
}

// ---------------------------------------------------------------- main

#[no_mangle]
pub fn main() -> i32 {
    // ---- control block on stdin
    let mut ctl = [0u8; 512];
    let mut ctl_len = 0usize;
    loop {
        if ctl_len == ctl.len() {
            break;
        }
        match rusl::unistd::read(STDIN, &mut ctl[ctl_len..]) {
            Ok(0) | Err(_) => break,
            Ok(n) => ctl_len += n,
        }
    }
    let mut exit_code = 0i32;
    let mut npeek = 0usize;
    if ctl_len >= 6 && &ctl[..4] == b"PSC1" {
        exit_code = i32::from(ctl[4]);
        npeek = ctl[5] as usize;
        if 6 + npeek * 10 > ctl_len {
            npeek = 0;
        }
    }

    // ---- 'F': <bit0 aux compiled | bit1 vdso compiled | bit2 threaded compiled> <FS base:u64>
    {
        let flags = u8::from(cfg!(feature = "has-aux"))
            | (u8::from(cfg!(feature = "has-vdso")) << 1)
            | (u8::from(cfg!(feature = "has-threaded")) << 2);
        let mut fs_base = 0u64;
        unsafe {
            // ARCH_GET_FS
            sc::syscall!(ARCH_PRCTL, 0x1003, core::ptr::addr_of_mut!(fs_base));
        }
        rec(b'F', &[&[flags], &fs_base.to_le_bytes()]);
    }
    // ---- 'n': <args_os().len():u64> <args().len():u64>
    {
        let a = tiny_std::env::args_os().len() as u64;
        let b = tiny_std::env::args().len() as u64;
        rec(b'n', &[&a.to_le_bytes(), &b.to_le_bytes()]);
    }
    // ---- 'A': one per element of args_os(), raw bytes
    for a in tiny_std::env::args_os() {
        rec(b'A', &[body(a)]);
    }
    // ---- 'a': one per element of args(): <0> text | <1>
    for a in tiny_std::env::args() {
        match a {
            Ok(s) => rec(b'a', &[&[0u8], s.as_bytes()]),
            Err(_) => rec(b'a', &[&[1u8]]),
        }
    }
    // ---- keys: every argument after the first "--keys"
    //   'K' key bytes; 'U' var_unix: <0> value | <1 missing> | <2 not unicode (impossible)>
    //   'V' var: <0> value | <1 missing> | <2 not unicode> | <3 key is not UTF-8, not called>
    {
        let mut seen_marker = false;
        for a in tiny_std::env::args_os() {
            if !seen_marker {
                if body(a) == b"--keys" {
                    seen_marker = true;
                }
                continue;
            }
            rec(b'K', &[body(a)]);
            match tiny_std::env::var_unix(a) {
                Ok(v) => rec(b'U', &[&[0u8], body(v)]),
                Err(VarError::Missing) => rec(b'U', &[&[1u8]]),
                Err(VarError::NotUnicode(_)) => rec(b'U', &[&[2u8]]),
            }
            match core::str::from_utf8(body(a)) {
                Ok(k) => match tiny_std::env::var(k) {
                    Ok(v) => rec(b'V', &[&[0u8], v.as_bytes()]),
                    Err(VarError::Missing) => rec(b'V', &[&[1u8]]),
                    Err(VarError::NotUnicode(_)) => rec(b'V', &[&[2u8]]),
                },
                Err(_) => rec(b'V', &[&[3u8]]),
            }
        }
    }
    // ---- 'W' / 'w': var_unix / var of a fixed key, looked up in every run (also when no
    //      `--keys` were given), same status bytes as 'U' / 'V'
    {
        let k = UnixStr::from_str_checked("C07_PROBE_ALWAYS\0");
        match tiny_std::env::var_unix(k) {
            Ok(v) => rec(b'W', &[&[0u8], body(v)]),
            Err(VarError::Missing) => rec(b'W', &[&[1u8]]),
            Err(VarError::NotUnicode(_)) => rec(b'W', &[&[2u8]]),
        }
        match tiny_std::env::var("C07_PROBE_ALWAYS") {
            Ok(v) => rec(b'w', &[&[0u8], v.as_bytes()]),
            Err(VarError::Missing) => rec(b'w', &[&[1u8]]),
            Err(VarError::NotUnicode(_)) => rec(b'w', &[&[2u8]]),
        }
    }
    // ---- aux getters: 'u' uid:u32, 'g' gid:u32, 'r' <has:u8> 16 bytes, 'e' <has:u8> path
    //      (only where feature `aux` is compiled)
    #[cfg(feature = "has-aux")]
    {
        rec(b'u', &[&tiny_std::elf::aux::get_uid().to_le_bytes()]);
        rec(b'g', &[&tiny_std::elf::aux::get_gid().to_le_bytes()]);
        match tiny_std::elf::aux::get_random() {
            Some(r) => rec(b'r', &[&[1u8], &r.to_ne_bytes()]),
            None => rec(b'r', &[&[0u8]]),
        }
        match tiny_std::elf::aux::get_exec_fn() {
            Some(p) => rec(b'e', &[&[1u8], body(p)]),
            None => rec(b'e', &[&[0u8]]),
        }
    }
    // ---- 'X': raw /proc/self/auxv of this process ('x' <errno:i32> when unreadable)
    let mut auxv = [0u8; 2048];
    let mut auxv_len = 0usize;
    match rusl::unistd::open(
        UnixStr::from_str_checked("/proc/self/auxv\0"),
        OpenFlags::O_RDONLY,
    ) {
        Ok(fd) => {
            loop {
                if auxv_len == auxv.len() {
                    break;
                }
                match rusl::unistd::read(fd, &mut auxv[auxv_len..]) {
                    Ok(0) | Err(_) => break,
                    Ok(n) => auxv_len += n,
                }
            }
            let _ = rusl::unistd::close(fd);
            rec(b'X', &[&auxv[..auxv_len]]);
        }
        Err(e) => {
            let c = e.code.map_or(-1i32, |c| c.raw());
            rec(b'x', &[&c.to_le_bytes()]);
        }
    }
    let auxv = &auxv[..auxv_len];
    // ---- 'R': the 16 bytes at the kernel's AT_RANDOM pointer; 'E': the string at AT_EXECFN
    //      (pointers taken from the probe's own reading of /proc/self/auxv)
    if let Some(p) = auxv_find(auxv, 25) {
        if p != 0 {
            let s = unsafe { core::slice::from_raw_parts(p as usize as *const u8, 16) };
            rec(b'R', &[s]);
        }
    }
    if let Some(p) = auxv_find(auxv, 31) {
        if p != 0 {
            let l = unsafe { strlen(p as usize as *const u8) };
            let s = unsafe { core::slice::from_raw_parts(p as usize as *const u8, l) };
            rec(b'E', &[s]);
        }
    }
    // ---- 'O': layout of tiny_start::elf::aux::AuxValues: 10 field offsets + size, u16 each,
    //      order base gid uid phdr phent phnum random secure sysinfo_ehdr execfn
    #[cfg(feature = "has-aux")]
    {
        use core::mem::offset_of;
        use tiny_start::elf::aux::AuxValues as A;
        let offs = [
            offset_of!(A, at_base),
            offset_of!(A, at_gid),
            offset_of!(A, at_uid),
            offset_of!(A, at_phdr),
            offset_of!(A, at_phent),
            offset_of!(A, at_phnum),
            offset_of!(A, at_random),
            offset_of!(A, at_secure),
            offset_of!(A, at_sysinfo_ehdr),
            offset_of!(A, at_execfn),
            core::mem::size_of::<A>(),
        ];
        let mut pl = [0u8; 22];
        let mut i = 0;
        while i < offs.len() {
            pl[i * 2..i * 2 + 2].copy_from_slice(&(offs[i] as u16).to_le_bytes());
            i += 1;
        }
        rec(b'O', &[&pl]);
    }
    // ---- 'B': run-time address of PROBE_ANCHOR
    let anchor = core::ptr::addr_of!(PROBE_ANCHOR) as usize;
    rec(b'B', &[&(anchor as u64).to_le_bytes()]);
    // ---- 'P': <index:u8> bytes  -- memory the driver asked for, relative to the anchor
    {
        let mut i = 0;
        while i < npeek {
            let e = &ctl[6 + i * 10..6 + i * 10 + 10];
            let delta = i64::from_le_bytes(e[..8].try_into().unwrap_or([0; 8]));
            let len = u16::from_le_bytes([e[8], e[9]]) as usize;
            let addr = (anchor as i64).wrapping_add(delta) as usize;
            let mut buf = [0u8; 256];
            let len = if len > buf.len() { buf.len() } else { len };
            let mut k = 0;
            while k < len {
                buf[k] = unsafe { core::ptr::read_volatile((addr + k) as *const u8) };
                k += 1;
            }
            rec(b'P', &[&[i as u8], &buf[..len]]);
            i += 1;
        }
    }
    // ---- 'L': relocation self-check
    reloc_section(auxv);
    // ---- 'T': vDSO clock against the clock system call, sampled
    vdso_section(CLK_MONO);
    vdso_section(CLK_REAL);
    // ---- 'Z': <exit code about to be returned:u8>
    rec(b'Z', &[&[exit_code as u8]]);
    flush();
    exit_code
}
