//! Stand-alone build of the program C13's `Command::spawn` executes (see ../helper.rs).
#[allow(dead_code)]
#[path = "../helper.rs"]
mod helper;

fn main() {
    helper::helper_main()
}
