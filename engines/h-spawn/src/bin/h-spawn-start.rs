//! The `with-start` build of the harness under its own file name (same sources as `h-spawn`),
//! so that both variants coexist in the target directory.
#[path = "../main.rs"]
mod real;

fn main() {
    real::main()
}
