//! The program that C13's `Command::spawn` executes.  Ordinary std Rust, no repository
//! code.  It cannot be told anything through argv or the environment (both are what is
//! being verified), so the report channel is a descriptor number known by convention:
//! the harness leaves a report file open at `REPORT_FD` (no CLOEXEC) before spawning.
//!
//! The dump: argv, the complete environment, cwd, identity and access mode of
//! descriptors 0/1/2, the whole descriptor table, pid/ppid/pgid/uid/gid/umask, and what
//! could be read from stdin (0/1/2 as exec left them: captured in an ELF constructor, before Rust's
//! runtime re-opens closed standard descriptors on /dev/null).  A fixed token is written to stdout and to stderr so that
//! the data path of every stdio mode can be checked.  Exit status: `--exit=N` (first such
//! argument after argv[0]), else 0.  `--linger=MS`: sleep that long after stdin reached EOF
//! (the program is still running for a known time after its stdin was closed); `--kill=SIG`:
//! end by that signal instead of exiting; `--no-stdin`: do not read stdin; `--spew=N`: write N extra bytes
//! to stdout.  The dump names the executable that runs (`/proc/self/exe`).  Since stdin is read to EOF first, a parent holding
//! the write end of a stdin pipe decides when the program ends.

use serde_json::{json, Value};
use std::os::unix::ffi::OsStringExt;

/// identifies the helper's source text: a `spawn-helper` built from other sources than the harness is rejected
pub const PROTO: u64 = fnv(include_bytes!("helper.rs"));

const fn fnv(b: &[u8]) -> u64 {
    let mut h: u64 = 0xcbf29ce484222325;
    let mut i = 0;
    while i < b.len() {
        h = (h ^ b[i] as u64).wrapping_mul(0x100000001b3);
        i += 1;
    }
    h >> 12 // stays exact as a JSON number
}
pub const REPORT_FD: i32 = 9;
pub const OUT_TOKEN: &[u8] = b"spawn-helper:stdout\n";
pub const ERR_TOKEN: &[u8] = b"spawn-helper:stderr\n";
pub const HELPER_NAME: &str = "spawn-helper";

pub fn hex(b: &[u8]) -> String {
    let mut s = String::with_capacity(b.len() * 2);
    for c in b {
        s.push_str(&format!("{c:02x}"));
    }
    s
}

pub fn unhex(s: &str) -> Vec<u8> {
    let b = s.as_bytes();
    (0..b.len() / 2).map(|i| u8::from_str_radix(&s[2 * i..2 * i + 2], 16).unwrap_or(b'?')).collect()
}

extern "C" {
    static environ: *const *const libc::c_char;
}

// Rust's runtime re-opens a CLOSED descriptor 0/1/2 on /dev/null before `main` ("sanitize standard
// fds"), which would hide exactly what C13 wants to see (a stream closed by exec).  An ELF
// constructor runs before that: it records fstat + access mode of 0/1/2 as exec left them.
#[derive(Clone, Copy)]
pub struct EarlyFd {
    pub open: bool,
    pub dev: u64,
    pub ino: u64,
    pub typ: u64,
    pub rdev: u64,
    pub acc: i64,
}
static mut EARLY: [EarlyFd; 3] = [EarlyFd { open: false, dev: 0, ino: 0, typ: 0, rdev: 0, acc: -1 }; 3];
static mut EARLY_DONE: bool = false;

extern "C" fn early_capture() {
    unsafe {
        for fd in 0..3 {
            let mut st: libc::stat = std::mem::zeroed();
            if libc::fstat(fd, &mut st) == 0 {
                let fl = libc::fcntl(fd, libc::F_GETFL);
                EARLY[fd as usize] = EarlyFd {
                    open: true,
                    dev: st.st_dev as u64,
                    ino: st.st_ino as u64,
                    typ: (st.st_mode & libc::S_IFMT) as u64,
                    rdev: st.st_rdev as u64,
                    acc: if fl < 0 { -1 } else { (fl & libc::O_ACCMODE) as i64 },
                };
            }
        }
        EARLY_DONE = true;
    }
}
#[used]
#[link_section = ".init_array"]
static EARLY_CTOR: extern "C" fn() = early_capture;

/// descriptor 0/1/2 as exec left it (before the runtime touched it); null when it was closed
pub fn early_ident(fd: i32) -> Value {
    unsafe {
        if !EARLY_DONE {
            return fd_ident(fd);
        }
        let e = EARLY[fd as usize];
        if !e.open {
            return Value::Null;
        }
        json!({"dev": e.dev, "ino": e.ino, "type": e.typ, "rdev": e.rdev, "acc": e.acc})
    }
}

/// (dev, ino, file type bits, rdev, access mode) of an open descriptor, or null when closed
pub fn fd_ident(fd: i32) -> Value {
    unsafe {
        let mut st: libc::stat = std::mem::zeroed();
        if libc::fstat(fd, &mut st) != 0 {
            return Value::Null;
        }
        let fl = libc::fcntl(fd, libc::F_GETFL);
        json!({
            "dev": st.st_dev as u64,
            "ino": st.st_ino as u64,
            "type": (st.st_mode & libc::S_IFMT) as u64,
            "rdev": st.st_rdev as u64,
            "acc": if fl < 0 { -1 } else { (fl & libc::O_ACCMODE) as i64 },
        })
    }
}

/// open descriptors: number -> readlink target (the directory stream used for listing excluded)
pub fn fd_table() -> Vec<(i32, String)> {
    let mut v = Vec::new();
    unsafe {
        let d = libc::opendir(b"/proc/self/fd\0".as_ptr() as *const libc::c_char);
        if d.is_null() {
            return v;
        }
        let own = libc::dirfd(d);
        loop {
            let e = libc::readdir(d);
            if e.is_null() {
                break;
            }
            let name = std::ffi::CStr::from_ptr((*e).d_name.as_ptr()).to_string_lossy().to_string();
            let Ok(n) = name.parse::<i32>() else { continue };
            if n == own {
                continue;
            }
            let mut buf = [0u8; 512];
            let p = format!("/proc/self/fd/{n}\0");
            let l = libc::readlink(p.as_ptr() as *const libc::c_char, buf.as_mut_ptr() as *mut libc::c_char, buf.len());
            let t = if l > 0 { String::from_utf8_lossy(&buf[..l as usize]).to_string() } else { String::new() };
            v.push((n, t));
        }
        libc::closedir(d);
    }
    v.sort();
    v
}

pub fn is_helper_exe() -> bool {
    match std::fs::read_link("/proc/self/exe") {
        Ok(p) => p.file_name().map(|f| f.to_string_lossy().starts_with(HELPER_NAME)).unwrap_or(false),
        Err(_) => false,
    }
}

pub fn helper_main() -> ! {
    unsafe {
        libc::alarm(30);
        let argv: Vec<Vec<u8>> = std::env::args_os().map(|a| a.into_vec()).collect();
        let mut env: Vec<Vec<u8>> = Vec::new();
        let mut p = environ;
        if !p.is_null() {
            while !(*p).is_null() {
                env.push(std::ffi::CStr::from_ptr(*p).to_bytes().to_vec());
                p = p.add(1);
            }
        }
        let mut cwdbuf = [0u8; 4096];
        let cwd = if libc::getcwd(cwdbuf.as_mut_ptr() as *mut libc::c_char, cwdbuf.len()).is_null() {
            Value::Null
        } else {
            let n = cwdbuf.iter().position(|&c| c == 0).unwrap_or(0);
            Value::String(hex(&cwdbuf[..n]))
        };
        let fds: Vec<Value> = (0..3).map(early_ident).collect();
        // (a standard descriptor that exec left closed and the runtime re-opened on /dev/null is not listed)
        let table: Vec<Value> = fd_table().into_iter().filter(|(n, _)| !(0..3).contains(n) || !fds[*n as usize].is_null()).map(|(n, t)| json!([n, t])).collect();
        let closed_at_exec: Vec<bool> = fds.iter().map(|f| f.is_null()).collect();
        let um = libc::umask(0);
        libc::umask(um);

        let flag = |name: &[u8]| -> Option<i64> { argv.iter().skip(1).find_map(|a| a.strip_prefix(name).and_then(|r| String::from_utf8_lossy(r).parse::<i64>().ok())) };
        let no_stdin = argv.iter().skip(1).any(|a| a == b"--no-stdin");
        let spew = flag(b"--spew=");
        let exe = std::fs::read_link("/proc/self/exe").map(|p| hex(&p.into_os_string().into_vec())).unwrap_or_default();
        // stdin: everything up to EOF (bounded), unless told to leave it alone
        let mut stdin_data = Vec::new();
        let mut stdin_err = 0;
        let mut buf = [0u8; 4096];
        while !no_stdin && stdin_data.len() < 65536 {
            let n = libc::read(0, buf.as_mut_ptr() as *mut libc::c_void, buf.len());
            if n < 0 {
                stdin_err = *libc::__errno_location();
                if stdin_err == libc::EINTR {
                    continue;
                }
                break;
            }
            if n == 0 {
                break;
            }
            stdin_data.extend_from_slice(&buf[..n as usize]);
        }
        let w1 = libc::write(1, OUT_TOKEN.as_ptr() as *const libc::c_void, OUT_TOKEN.len());
        let w2 = libc::write(2, ERR_TOKEN.as_ptr() as *const libc::c_void, ERR_TOKEN.len());
        // `--spew=N`: N more bytes to stdout (more than a pipe holds when N > 64 KiB)
        if let Some(n) = spew {
            let chunk = [b'x'; 4096];
            let mut left = n.max(0) as usize;
            while left > 0 {
                let k = left.min(chunk.len());
                let w = libc::write(1, chunk.as_ptr() as *const libc::c_void, k);
                if w <= 0 {
                    break;
                }
                left -= w as usize;
            }
        }

        let mut code = 0;
        for a in argv.iter().skip(1) {
            if let Some(rest) = a.strip_prefix(b"--exit=") {
                if let Ok(n) = String::from_utf8_lossy(rest).parse::<i32>() {
                    code = n;
                    break;
                }
            }
        }
        let num_flag = |name: &[u8]| -> Option<i32> { argv.iter().skip(1).find_map(|a| a.strip_prefix(name).and_then(|r| String::from_utf8_lossy(r).parse::<i32>().ok())) };
        let linger = num_flag(b"--linger=");
        let kill = num_flag(b"--kill=");
        let early_done: bool = EARLY_DONE;
        let dump = json!({
            "proto": PROTO,
            "argv": argv.iter().map(|a| hex(a)).collect::<Vec<_>>(),
            "env": env.iter().map(|a| hex(a)).collect::<Vec<_>>(),
            "cwd": cwd,
            "fds": fds,
            "table": table,
            "pid": libc::getpid(),
            "ppid": libc::getppid(),
            "pgid": libc::getpgid(0),
            "uid": libc::getuid(), "euid": libc::geteuid(),
            "gid": libc::getgid(), "egid": libc::getegid(),
            "umask": um as u64,
            "stdin": hex(&stdin_data),
            "stdin_err": stdin_err,
            "exe": exe,
            "closed_at_exec": closed_at_exec,
            "early_capture": early_done,
            "wrote": [w1 as i64, w2 as i64],
            "exit": code,
        });
        let bytes = serde_json::to_vec(&dump).unwrap();
        let mut off = 0;
        while off < bytes.len() {
            let n = libc::write(REPORT_FD, bytes[off..].as_ptr() as *const libc::c_void, bytes.len() - off);
            if n <= 0 {
                break;
            }
            off += n as usize;
        }
        if let Some(ms) = linger {
            libc::usleep((ms.max(0) as u32) * 1000);
        }
        if let Some(sig) = kill {
            libc::signal(sig, libc::SIG_DFL);
            libc::kill(libc::getpid(), sig);
            libc::pause();
        }
        libc::_exit(code);
    }
}
