//! C13 — `Command::spawn` returns in exactly one process; on Ok the child runs the
//! requested program with exactly the configured argv / environment / cwd / stdio /
//! ids and `wait` reports its status; when a step up to and including exec fails the
//! caller gets that step's errno and no process keeps running the caller's code.
//!
//! Technique: fault enumeration (engine E2) over the syscall seam on the REAL
//! `Command::spawn`.  For every configuration the fault-free run records the
//! intercepted calls of the parent AND of the forked child (the seam is re-armed in
//! the child, the plan logs into a MAP_SHARED page); then the run is repeated once per
//! (call, errno of the call's menu).  Every run happens in its own forked "caller"
//! process P, so that a child that wrongly returns from `spawn()` can be detected
//! (`getpid() != caller`) and stopped with `_exit` before it runs harness code.
//!
//! Process tree of one case:  harness → shard (run_isolated) → P (the caller of
//! spawn) → child (fork inside spawn; execs `spawn-helper`, which dumps what it sees
//! to descriptor 9).

mod helper;

use common::*;
use helper::{hex, unhex, ERR_TOKEN, OUT_TOKEN, PROTO, REPORT_FD};
use serde_json::{json, Value};
use std::collections::HashSet;
use std::ffi::CString;
use std::sync::atomic::{AtomicI32, AtomicI64, AtomicU32, Ordering::SeqCst};
use tiny_std::process::{Command, Stdio};
use tiny_std::unix::fd::AsRawFd;
use tiny_std::{Errno, UnixStr, UnixString};

/// The harness's allocator: every fresh block, and 16 bytes of slack after it, is filled with 0xA5, so
/// that a pointer vector whose terminating NULL is missing (or was overwritten) never finds an
/// accidental zero word behind its last element: execve then sees the wild pointer 0xA5A5.. instead
/// of a vector that happens to end.  (`realloc`/`alloc_zeroed` go through `alloc` by default.)
struct Poison;
unsafe impl std::alloc::GlobalAlloc for Poison {
    unsafe fn alloc(&self, l: std::alloc::Layout) -> *mut u8 {
        let Ok(big) = std::alloc::Layout::from_size_align(l.size() + 16, l.align()) else { return std::ptr::null_mut() };
        let p = std::alloc::System.alloc(big);
        if !p.is_null() {
            std::ptr::write_bytes(p, 0xA5, big.size());
        }
        p
    }
    unsafe fn dealloc(&self, p: *mut u8, l: std::alloc::Layout) {
        std::alloc::System.dealloc(p, std::alloc::Layout::from_size_align_unchecked(l.size() + 16, l.align()));
    }
}
#[global_allocator]
static POISON: Poison = Poison;

const WITH_START: bool = cfg!(feature = "with-start");
const REPEATS: [usize; 4] = [1, 2, 3, 5];
const CASE_ALARM: u32 = 10;
/// after this many hanging cases (over all shards) the remaining cases are skipped (recorded as a cap)
const MAX_HANGS: u64 = 3;
const NOBODY: u32 = 65534;
const CLOSURE_ERRNO: i32 = libc::EXDEV;
const CLOSURE_UMASK: u32 = 0o137;
const PARENT_STDIN: &[u8] = b"PARENT-STDIN\n";
const RAW_STDIN: &[u8] = b"RAW-STDIN\n";
const PIPE_STDIN: &[u8] = b"PIPE-STDIN\n";
const RAW_FD_BASE: i32 = 20;
const STREAMS: [&str; 3] = ["stdin", "stdout", "stderr"];

// ---------------------------------------------------------------------------
// configuration

#[derive(Clone, Copy, PartialEq, Eq, Debug, Hash)]
enum Sm {
    Unset,
    Inherit,
    Null,
    Pipe,
    /// RawFd of a fresh file the harness opened at a high descriptor
    Raw,
    /// RawFd(0) / RawFd(1) / RawFd(2): the caller's own standard descriptor (the `2>&1` idiom)
    Std0,
    Std1,
    Std2,
    /// (stderr only) the very RawFd that stdout was given
    RawShared,
}
const SMS: [Sm; 5] = [Sm::Unset, Sm::Inherit, Sm::Null, Sm::Pipe, Sm::Raw];
const SMS_ALL: [Sm; 9] = [Sm::Unset, Sm::Inherit, Sm::Null, Sm::Pipe, Sm::Raw, Sm::Std0, Sm::Std1, Sm::Std2, Sm::RawShared];
impl Sm {
    fn name(self) -> &'static str {
        match self {
            Sm::Unset => "unset",
            Sm::Inherit => "Inherit",
            Sm::Null => "Null",
            Sm::Pipe => "MakePipe",
            Sm::Raw => "RawFd",
            Sm::Std0 => "RawFd(0)",
            Sm::Std1 => "RawFd(1)",
            Sm::Std2 => "RawFd(2)",
            Sm::RawShared => "RawFd(same as stdout)",
        }
    }
    fn from_name(s: &str) -> Sm {
        SMS_ALL.iter().copied().find(|m| m.name() == s).expect("stdio mode")
    }
    fn std_k(self) -> Option<usize> {
        match self {
            Sm::Std0 => Some(0),
            Sm::Std1 => Some(1),
            Sm::Std2 => Some(2),
            _ => None,
        }
    }
}

#[derive(Clone, PartialEq, Debug)]
struct Config {
    /// "helper" | "missing" | "notexec" | "dir" | "rel:<relative path>" (the caller then runs with cwd =
    /// Ctx::caller_dir; copies of the program exist under some relative paths there and/or in Ctx::cwd_dir)
    bin: String,
    args: Vec<Vec<u8>>,
    /// None: `env`/`envs` never called; Some(v): `envs(v)` (v may be empty)
    env: Option<Vec<Vec<u8>>>,
    /// (`start` build only) the process environment installed through hook H2 before the spawn, i.e.
    /// what `Environment::Inherit` reads; None: nothing installed (ENV.env_p stays null)
    inherit: Option<Vec<Vec<u8>>>,
    /// "unset" | "dir" | "missing"
    cwd: String,
    stdio: [Sm; 3],
    /// standard descriptors the caller has CLOSED before it calls spawn (start state of its descriptor
    /// table: pipe2/open inside spawn then hand out exactly these numbers)
    closed: [bool; 3],
    /// "unset" | "current" | "nobody"
    uid: String,
    gid: String,
    /// "unset" | "zero" | "own" | "other"
    pgroup: String,
    /// pre-exec closures, in order, joined by '+': "none" | kinds "ok" (succeeds, sets the umask), "fail"
    /// (Err(Os EXDEV)), "uncat" (Err(Uncategorized)), "timeout" (Err(Timeout)), "panic" (panics; the harness
    /// is built with unwinding panics)
    closure: String,
    /// disposition of SIGCHLD in the caller when it spawns: "default" | "ignore" (SIG_IGN) | "nocldwait"
    /// (a handler installed with SA_NOCLDWAIT): the kernel then reaps children itself, wait4 says ECHILD
    sigchld: String,
    /// the same `Command` is spawned twice (first child run to its end); the second spawn is the judged one
    twice: bool,
    /// while the caller spawns, another of its threads is inside `tiny_std::eprintln!` (holds tiny-std's
    /// stderr lock): the forked child inherits that lock locked for ever
    lock_held: bool,
}

impl Config {
    fn base() -> Config {
        Config {
            bin: "helper".into(),
            args: vec![b"--exit=7".to_vec()],
            env: None,
            // (start build) every ordinary configuration runs with a process environment installed through
            // H2; the one scenario without it is `uninitialised_env_scenario`
            inherit: if WITH_START { Some(default_inherit()) } else { None },
            cwd: "unset".into(),
            stdio: [Sm::Unset; 3],
            closed: [false; 3],
            uid: "unset".into(),
            gid: "unset".into(),
            pgroup: "unset".into(),
            closure: "none".into(),
            sigchld: "default".into(),
            twice: false,
            lock_held: false,
        }
    }
    fn to_json(&self) -> Value {
        // count ladders are written as {"ladder": n}
        let list = |v: &Vec<Vec<u8>>, gen: fn(usize) -> Vec<Vec<u8>>| -> Value {
            if v.len() > 2 && *v == gen(v.len()) {
                json!({"ladder": v.len()})
            } else {
                json!(v.iter().map(|a| show_bytes(a)).collect::<Vec<_>>())
            }
        };
        json!({
            "bin": self.bin,
            "args": list(&self.args, ladder_args),
            "env": match &self.env { None => Value::Null, Some(v) => list(v, ladder_env) },
            "inherit": match &self.inherit { None => Value::Null, Some(v) => json!(v.iter().map(|a| show_bytes(a)).collect::<Vec<_>>()) },
            "cwd": self.cwd,
            "stdio": self.stdio.iter().map(|m| m.name()).collect::<Vec<_>>(),
            "closed": (0..3).filter(|&k| self.closed[k]).collect::<Vec<_>>(),
            "uid": self.uid, "gid": self.gid, "pgroup": self.pgroup, "closure": self.closure, "sigchld": self.sigchld, "twice": self.twice, "lock_held": self.lock_held,
        })
    }
    fn from_json(v: &Value) -> Config {
        let strs = |x: &Value| -> Vec<Vec<u8>> { x.as_array().map(|a| a.iter().map(|s| parse_shown(s.as_str().unwrap_or(""))).collect()).unwrap_or_default() };
        let st: Vec<Sm> = v["stdio"].as_array().map(|a| a.iter().map(|s| Sm::from_name(s.as_str().unwrap_or("unset"))).collect()).unwrap_or_default();
        let s = |k: &str, d: &str| v[k].as_str().unwrap_or(d).to_string();
        Config {
            bin: s("bin", "helper"),
            args: match v["args"]["ladder"].as_u64() { Some(n) => ladder_args(n as usize), None => strs(&v["args"]) },
            env: if v["env"].is_null() { None } else { Some(match v["env"]["ladder"].as_u64() { Some(n) => ladder_env(n as usize), None => strs(&v["env"]) }) },
            inherit: if v["inherit"].is_null() { None } else { Some(strs(&v["inherit"])) },
            cwd: s("cwd", "unset"),
            stdio: [st.first().copied().unwrap_or(Sm::Unset), st.get(1).copied().unwrap_or(Sm::Unset), st.get(2).copied().unwrap_or(Sm::Unset)],
            closed: {
                let c: Vec<u64> = v["closed"].as_array().map(|a| a.iter().filter_map(|x| x.as_u64()).collect()).unwrap_or_default();
                [c.contains(&0), c.contains(&1), c.contains(&2)]
            },
            uid: s("uid", "unset"),
            gid: s("gid", "unset"),
            pgroup: s("pgroup", "unset"),
            closure: s("closure", "none"),
            sigchld: s("sigchld", "default"),
            twice: v["twice"].as_bool().unwrap_or(false),
            lock_held: v["lock_held"].as_bool().unwrap_or(false),
        }
    }
    /// the step that fails without any injection, with the errno Linux gives
    fn natural_failure(&self) -> Option<(String, i32)> {
        // child-side order in do_spawn: dup2 x3, chdir, setuid, setgid, setpgid, closures, execve
        if self.cwd == "missing" {
            return Some(("child-chdir".into(), libc::ENOENT));
        }
        // the first closure that does not succeed ends the set-up; errno 0 = a failure without an errno
        // (the caller then gets an error of any kind)
        for kind in self.closure.split('+') {
            match kind {
                "fail" => return Some(("closure".into(), CLOSURE_ERRNO)),
                "uncat" | "timeout" | "panic" => return Some(("closure".into(), 0)),
                _ => {}
            }
        }
        if let Some(rel) = self.bin.strip_prefix("rel:") {
            // execve runs in the child AFTER chdir: a relative path is resolved against the configured cwd
            let in_configured = self.cwd == "dir";
            return if rel_exists(rel, in_configured) { None } else { Some(("child-execve".into(), libc::ENOENT)) };
        }
        match self.bin.as_str() {
            "missing" => Some(("child-execve".into(), libc::ENOENT)),
            "notexec" | "dir" => Some(("child-execve".into(), libc::EACCES)),
            _ => None,
        }
    }
    /// descriptor numbers 0/1/2 play two roles (closed in the caller, or given as RawFd values)
    fn aliasing(&self) -> bool {
        self.closed.iter().any(|&c| c) || self.stdio.iter().any(|m| m.std_k().is_some())
    }
    /// uid and gid both changed to an unprivileged id: the statement allows either a child
    /// with both ids or an error (setgid after setuid is refused by Linux)
    fn drops_both_ids(&self) -> bool {
        self.uid == "nobody" && self.gid == "nobody"
    }
}

fn default_inherit() -> Vec<Vec<u8>> {
    vec![b"INH=1".to_vec(), b"HOME=/nowhere".to_vec()]
}

/// relative program paths the harness lays out: (path, exists under the caller's cwd, exists under the configured cwd)
const REL_PROGRAMS: [(&str, bool, bool); 9] = [
    ("onlyA/spawn-helper", true, false),
    ("onlyB/spawn-helper", false, true),
    ("both/spawn-helper", true, true),
    ("./both/spawn-helper", true, true),
    ("neither/spawn-helper", false, false),
    // bare names: execve does no PATH search, they are relative to the cwd like any other
    ("spawn-helper", true, true),
    ("spawn-helper-a", true, false),
    ("spawn-helper-b", false, true),
    ("spawn-helper-none", false, false),
];
fn rel_exists(rel: &str, in_configured_cwd: bool) -> bool {
    REL_PROGRAMS.iter().find(|p| p.0 == rel).map(|p| if in_configured_cwd { p.2 } else { p.1 }).unwrap_or(false)
}

#[derive(Clone, PartialEq, Debug)]
struct Fault {
    child: bool,
    idx: usize,
    nr: i64,
    errno: i32,
    /// the call is executed for real and the error reported afterwards (`close`)
    after_real: bool,
    step: String,
    /// Some((a0, a1, r)): not the call at `idx` but the call SITE (same syscall, same first argument —
    /// descriptor / pid —, for dup3 also the same target) answers `errno` r times in a row and then proceeds
    site: Option<(u64, u64, usize)>,
}
impl Fault {
    fn to_json(&self) -> Value {
        json!({"side": if self.child { "child" } else { "parent" }, "idx": self.idx, "nr": self.nr, "call": sysx::name(self.nr),
               "errno": self.errno, "after_real": self.after_real, "step": self.step,
               "site": self.site.map(|(a0, a1, r)| json!({"a0": a0, "a1": a1, "times": r}))})
    }
    fn from_json(v: &Value) -> Fault {
        Fault {
            child: v["side"].as_str() == Some("child"),
            idx: v["idx"].as_u64().unwrap_or(0) as usize,
            nr: v["nr"].as_i64().unwrap_or(-1),
            errno: v["errno"].as_i64().unwrap_or(0) as i32,
            after_real: v["after_real"].as_bool().unwrap_or(false),
            step: v["step"].as_str().unwrap_or("?").to_string(),
            site: if v["site"].is_object() { Some((v["site"]["a0"].as_u64().unwrap_or(0), v["site"]["a1"].as_u64().unwrap_or(0), v["site"]["times"].as_u64().unwrap_or(1) as usize)) } else { None },
        }
    }
    /// failures the code may legitimately absorb: `close` reporting an error after having
    /// released the descriptor, an interrupted `read`/`wait4`
    fn tolerable(&self) -> bool {
        self.nr == libc::SYS_close
            || ((self.nr == libc::SYS_read || self.nr == libc::SYS_wait4 || self.nr == libc::SYS_dup3) && self.errno == libc::EINTR)
            || (self.nr == libc::SYS_dup3 && self.errno == libc::EBUSY)
    }
}

/// The read of the exec-report pipe fails for good while the child's stdin is a pipe whose write end the
/// parent holds: a spawn that waits for the child before dropping that end deadlocks (C13:spawn:hang:parent-read).
fn read_failure_with_stdin_pipe(cfg: &Config, faults: &[Fault]) -> bool {
    cfg.stdio[0] == Sm::Pipe && faults.iter().any(|f| !f.child && f.nr == libc::SYS_read && f.errno != libc::EINTR)
}
/// watchdog of those cases (a regression makes each of them hang)
const READ_DEADLOCK_ALARM: u32 = 5;

fn step_name(child: bool, nr: i64, args: &[u64; 6]) -> String {
    let side = if child { "child" } else { "parent" };
    if nr == libc::SYS_dup3 || nr == libc::SYS_dup2 {
        let s = STREAMS.get(args[1] as usize).copied().unwrap_or("other");
        return format!("{side}-{}-{s}", sysx::name(nr));
    }
    if nr == libc::SYS_fcntl {
        let what = match args[1] as i32 {
            libc::F_DUPFD_CLOEXEC => "dupfd",
            libc::F_SETFD => "setfd",
            _ => "other",
        };
        return format!("{side}-fcntl-{what}");
    }
    format!("{side}-{}", sysx::name(nr))
}

/// Appendix C menus: only answers Linux can give for the call, with Linux's side effect.
fn menu(nr: i64, args: &[u64; 6], thorough: bool) -> Vec<(i32, bool)> {
    let m: Vec<(i32, bool)> = match nr {
        // moving a descriptor above 2: out of descriptors; changing FD_CLOEXEC: EBADF is all Linux has
        x if x == libc::SYS_fcntl && args[1] as i32 == libc::F_DUPFD_CLOEXEC => vec![(libc::EMFILE, false), (libc::EINVAL, false)],
        x if x == libc::SYS_fcntl && args[1] as i32 == libc::F_SETFD => vec![(libc::EBADF, false)],
        x if x == libc::SYS_pipe2 => vec![(libc::EMFILE, false), (libc::ENFILE, false), (libc::ENOMEM, false)],
        x if x == libc::SYS_openat || x == libc::SYS_open => vec![(libc::EMFILE, false), (libc::ENOENT, false), (libc::EACCES, false), (libc::ENOMEM, false)],
        x if x == libc::SYS_fork || x == libc::SYS_clone || x == libc::SYS_vfork => vec![(libc::EAGAIN, false), (libc::ENOMEM, false)],
        x if x == libc::SYS_close => vec![(libc::EIO, true), (libc::EINTR, true)],
        // the read of the exec-report pipe: interrupted (retried), or failing for good
        x if x == libc::SYS_read => vec![(libc::EINTR, false), (libc::EIO, false), (libc::EBADF, false)],
        x if x == libc::SYS_wait4 => vec![(libc::EINTR, false)],
        // one EBUSY (the race with open): retrying and reporting it are both accepted (how dup3 treats it is C09's subject)
        x if x == libc::SYS_dup3 || x == libc::SYS_dup2 => vec![(libc::EMFILE, false), (libc::EBADF, false), (libc::EBUSY, false)],
        x if x == libc::SYS_chdir => vec![(libc::ENOENT, false), (libc::ENOTDIR, false), (libc::EACCES, false)],
        x if x == libc::SYS_setuid => vec![(libc::EPERM, false), (libc::EAGAIN, false)],
        x if x == libc::SYS_setgid => vec![(libc::EPERM, false)],
        x if x == libc::SYS_setpgid => vec![(libc::EPERM, false), (libc::ESRCH, false), (libc::EACCES, false)],
        x if x == libc::SYS_execve => vec![(libc::ENOENT, false), (libc::EACCES, false), (libc::ENOMEM, false), (libc::E2BIG, false)],
        _ => vec![],
    };
    if thorough {
        m
    } else {
        // quick: two answers for the calls the property names, one for the rest
        let keep = if nr == libc::SYS_execve || nr == libc::SYS_dup3 || nr == libc::SYS_chdir || nr == libc::SYS_setpgid || nr == libc::SYS_fork || nr == libc::SYS_read { 2 } else { 1 };
        m.into_iter().take(keep).collect()
    }
}

// ---------------------------------------------------------------------------
// shared page between P, the forked child and the shard

const TRACE_CAP: usize = 200;
const OBS_CAP: usize = 1 << 21;

#[repr(C)]
struct TraceEnt {
    pid: i32,
    idx: u32,
    nr: i64,
    args: [u64; 6],
    ret: i64,
    has_ret: u32,
    _pad: u32,
}

#[repr(C)]
struct Shm {
    returned_in_child: AtomicU32,
    returned_pid: AtomicI32,
    child_panicked: AtomicU32,
    closure_pid: AtomicI32,
    closure_runs: AtomicU32,
    fault_hit: AtomicU32,
    fault_nr_mismatch: AtomicU32,
    fault_seen_nr: AtomicI64,
    site_applied: AtomicU32,
    /// waitseq: (step index + 1) << 8 | letter, written before each step (tells where a hang happened)
    ws_progress: AtomicU32,
    trace_n: AtomicU32,
    obs_len: AtomicU32,
    trace: [TraceEnt; TRACE_CAP],
    obs: [u8; OBS_CAP],
}

fn shm_new() -> *mut Shm {
    unsafe {
        let p = libc::mmap(std::ptr::null_mut(), std::mem::size_of::<Shm>(), libc::PROT_READ | libc::PROT_WRITE, libc::MAP_SHARED | libc::MAP_ANONYMOUS, -1, 0);
        assert!(p != libc::MAP_FAILED, "mmap shared page");
        p as *mut Shm
    }
}
fn shm_reset(s: *mut Shm) {
    unsafe {
        let hdr = std::mem::offset_of!(Shm, obs);
        std::ptr::write_bytes(s as *mut u8, 0, hdr);
    }
}

struct CasePlan {
    shm: *mut Shm,
    caller: i32,
    faults: Vec<Fault>,
    last_slot: usize,
    /// per fault: how often a site deviation has been applied (in this process)
    applied: Vec<usize>,
}
impl sysx::Plan for CasePlan {
    fn decide(&mut self, idx: usize, nr: i64, args: &[u64; 6]) -> sysx::Decision {
        unsafe {
            let pid = libc::getpid();
            let child = pid != self.caller;
            let slot = (*self.shm).trace_n.fetch_add(1, SeqCst) as usize;
            self.last_slot = slot;
            if slot < TRACE_CAP {
                let e = &mut (*self.shm).trace[slot];
                e.pid = pid;
                e.idx = idx as u32;
                e.nr = nr;
                e.args = *args;
                e.ret = 0;
                e.has_ret = 0;
            }
            for (i, f) in self.faults.iter().enumerate() {
                if let Some((a0, a1, times)) = f.site {
                    // (wait4's first argument is the child's pid, different in every run: any wait4 of that side)
                    let same = f.child == child && f.nr == nr && (nr == libc::SYS_wait4 || args[0] == a0) && (nr != libc::SYS_dup3 || args[1] == a1);
                    if same && self.applied[i] < times {
                        self.applied[i] += 1;
                        (*self.shm).fault_hit.fetch_or(1 << i, SeqCst);
                        (*self.shm).site_applied.fetch_add(1, SeqCst);
                        return sysx::Decision::Force(-(f.errno as i64));
                    }
                    continue;
                }
                if f.child == child && f.idx == idx {
                    if f.nr != nr {
                        (*self.shm).fault_nr_mismatch.fetch_or(1 << i, SeqCst);
                        (*self.shm).fault_seen_nr.store(nr, SeqCst);
                        return sysx::Decision::Pass;
                    }
                    (*self.shm).fault_hit.fetch_or(1 << i, SeqCst);
                    let v = -(f.errno as i64);
                    return if f.after_real { sysx::Decision::PassThenForce(v) } else { sysx::Decision::Force(v) };
                }
            }
            sysx::Decision::Pass
        }
    }
    fn after(&mut self, _idx: usize, call: &sysx::Call) {
        unsafe {
            let is_fork = call.nr == libc::SYS_fork || call.nr == libc::SYS_vfork || call.nr == libc::SYS_clone;
            if is_fork && call.ret == 0 {
                return; // the child's view of fork; the slot belongs to the parent
            }
            if self.last_slot < TRACE_CAP {
                let e = &mut (*self.shm).trace[self.last_slot];
                e.ret = call.ret;
                e.has_ret = 1;
                // a pipe that was really created: keep its two descriptors (args 4 and 5 are unused by pipe/pipe2)
                if (call.nr == libc::SYS_pipe2 || call.nr == libc::SYS_pipe) && call.ret == 0 && call.real == Some(0) {
                    let fds = call.args[0] as *const i32;
                    e.args[4] = *fds as u64;
                    e.args[5] = *fds.add(1) as u64;
                }
            }
        }
    }
}

// ---------------------------------------------------------------------------
// context

#[derive(Clone)]
struct Ctx {
    root: String,
    helper: String,
    helper_src: String,
    cwd_dir: String,
    /// the caller's own cwd in the relative-program configurations
    caller_dir: String,
    thorough: bool,
    root_user: bool,
}
impl Ctx {
    fn missing_dir(&self) -> String {
        format!("{}/no-such-dir", self.root)
    }
    fn missing_bin(&self) -> String {
        format!("{}/no-such-bin", self.root)
    }
    fn notexec(&self) -> String {
        format!("{}/notexec", self.root)
    }
    fn bin_path(&self, cfg: &Config) -> String {
        if let Some(rel) = cfg.bin.strip_prefix("rel:") {
            return rel.to_string();
        }
        match cfg.bin.as_str() {
            "helper" => self.helper.clone(),
            "missing" => self.missing_bin(),
            "notexec" => self.notexec(),
            _ => self.cwd_dir.clone(),
        }
    }
}

fn make_ctx(thorough: bool) -> Ctx {
    let base = if std::path::Path::new("/dev/shm").is_dir() { "/dev/shm".to_string() } else { std::env::temp_dir().to_string_lossy().to_string() };
    let root = format!("{base}/h-spawn-{}-{}", std::process::id(), if WITH_START { "start" } else { "nostart" });
    let _ = std::fs::remove_dir_all(&root);
    std::fs::create_dir_all(&root).expect("temp dir");
    chmod(&root, 0o755);
    let root = std::fs::canonicalize(&root).unwrap().to_string_lossy().to_string();
    let cwd_dir = format!("{root}/cwd-target");
    std::fs::create_dir_all(&cwd_dir).unwrap();
    chmod(&cwd_dir, 0o755);
    std::fs::write(format!("{root}/notexec"), b"#!/bin/sh\nexit 0\n").unwrap();
    chmod(&format!("{root}/notexec"), 0o644);
    // the helper: the sibling binary when it exists, else this very executable under the helper's name
    let me = std::env::current_exe().expect("current_exe");
    let sibling = me.parent().map(|p| p.join(helper::HELPER_NAME));
    let helper = format!("{root}/{}", helper::HELPER_NAME);
    // (a sibling built from other helper sources than this harness is not used: probe it once)
    let src = match sibling {
        Some(s) if s.is_file() && probe_helper(&s, &root) => s,
        _ => me.clone(),
    };
    let helper_src = if src == me { "a copy of the harness executable run under the name spawn-helper (no spawn-helper binary built from the same sources next to the harness)".to_string() } else { format!("a copy of {}", src.display()) };
    std::fs::copy(&src, &helper).expect("copy helper");
    chmod(&helper, 0o755);
    // copies (hard links) of the program under relative paths in the caller's cwd and in the configured cwd;
    // which copy runs shows in the dump (/proc/self/exe)
    let caller_dir = format!("{root}/caller-cwd");
    std::fs::create_dir_all(&caller_dir).unwrap();
    chmod(&caller_dir, 0o755);
    for (rel, in_a, in_b) in REL_PROGRAMS {
        for (dir, there) in [(&caller_dir, in_a), (&cwd_dir, in_b)] {
            if !there {
                continue;
            }
            let path = std::path::Path::new(dir).join(rel.trim_start_matches("./"));
            if path.exists() {
                continue;
            }
            if let Some(parent) = path.parent() {
                std::fs::create_dir_all(parent).unwrap();
                chmod(&parent.to_string_lossy(), 0o755);
            }
            if std::fs::hard_link(&helper, &path).is_err() {
                std::fs::copy(&helper, &path).expect("copy of the program under a relative path");
            }
        }
    }
    Ctx { root, helper, helper_src, cwd_dir, caller_dir, thorough, root_user: unsafe { libc::geteuid() } == 0 }
}

/// Run a candidate helper once (outside any spawn under test) and see whether its dump carries this
/// harness's source hash.
fn probe_helper(path: &std::path::Path, root: &str) -> bool {
    use std::os::unix::io::AsRawFd as _;
    use std::os::unix::process::CommandExt;
    let rep = format!("{root}/probe-report");
    let Ok(f) = std::fs::File::create(&rep) else { return false };
    let fd = f.as_raw_fd();
    let mut c = std::process::Command::new(path);
    c.stdin(std::process::Stdio::null()).stdout(std::process::Stdio::null()).stderr(std::process::Stdio::null());
    unsafe {
        c.pre_exec(move || {
            if libc::dup2(fd, REPORT_FD) < 0 {
                return Err(std::io::Error::last_os_error());
            }
            Ok(())
        });
    }
    let ok = c.status().is_ok();
    drop(f);
    let v: Value = std::fs::read(&rep).ok().and_then(|b| serde_json::from_slice(&b).ok()).unwrap_or(Value::Null);
    let _ = std::fs::remove_file(&rep);
    ok && v["proto"].as_u64() == Some(PROTO)
}

fn chmod(p: &str, mode: u32) {
    let c = CString::new(p).unwrap();
    unsafe {
        libc::chmod(c.as_ptr(), mode as libc::mode_t);
    }
}

// ---------------------------------------------------------------------------
// P: the process that calls spawn

unsafe fn write_file(path: &str, data: &[u8]) {
    let c = CString::new(path).unwrap();
    let fd = libc::open(c.as_ptr(), libc::O_WRONLY | libc::O_CREAT | libc::O_TRUNC | libc::O_CLOEXEC, 0o666);
    if fd >= 0 {
        libc::fchmod(fd, 0o666);
        if !data.is_empty() {
            libc::write(fd, data.as_ptr() as *const libc::c_void, data.len());
        }
        libc::close(fd);
    }
}
unsafe fn read_fd_all(fd: i32) -> (Vec<u8>, i32) {
    let mut v = Vec::new();
    let mut buf = [0u8; 4096];
    loop {
        let n = libc::read(fd, buf.as_mut_ptr() as *mut libc::c_void, buf.len());
        if n < 0 {
            let e = *libc::__errno_location();
            if e == libc::EINTR {
                continue;
            }
            return (v, e);
        }
        if n == 0 {
            return (v, 0);
        }
        v.extend_from_slice(&buf[..n as usize]);
        if v.len() > OBS_CAP / 4 {
            return (v, 0);
        }
    }
}
unsafe fn read_file(path: &str) -> Vec<u8> {
    let c = CString::new(path).unwrap();
    let fd = libc::open(c.as_ptr(), libc::O_RDONLY | libc::O_CLOEXEC);
    if fd < 0 {
        return Vec::new();
    }
    let (v, _) = read_fd_all(fd);
    libc::close(fd);
    v
}
unsafe fn path_ident(path: &str) -> Value {
    let c = CString::new(path).unwrap();
    let mut st: libc::stat = std::mem::zeroed();
    if libc::stat(c.as_ptr(), &mut st) != 0 {
        return Value::Null;
    }
    json!({"dev": st.st_dev as u64, "ino": st.st_ino as u64, "type": (st.st_mode & libc::S_IFMT) as u64, "rdev": st.st_rdev as u64})
}
unsafe fn open_at_fd(path: &str, flags: i32, target: i32) -> bool {
    let c = CString::new(path).unwrap();
    let fd = libc::open(c.as_ptr(), flags, 0o666);
    if fd < 0 {
        return false;
    }
    if fd != target {
        if libc::dup2(fd, target) < 0 {
            return false;
        }
        libc::close(fd);
    }
    true
}

fn nul(b: &[u8]) -> Vec<u8> {
    let mut v = b.to_vec();
    v.push(0);
    v
}

#[inline(never)]
fn after_spawn(caller: i32, shm: *mut Shm, panicked: bool) {
    unsafe {
        let me = libc::getpid();
        if me != caller {
            // a process other than the caller reached the statement after `spawn()`
            (*shm).returned_in_child.fetch_add(1, SeqCst);
            (*shm).returned_pid.store(me, SeqCst);
            if panicked {
                (*shm).child_panicked.store(1, SeqCst);
            }
            libc::_exit(99);
        }
    }
}

fn finish(shm: *mut Shm, obs: &Value) -> ! {
    unsafe {
        let b = serde_json::to_vec(obs).unwrap();
        let n = b.len().min(OBS_CAP);
        std::ptr::copy_nonoverlapping(b.as_ptr(), (*shm).obs.as_mut_ptr(), n);
        (*shm).obs_len.store(n as u32, SeqCst);
        libc::_exit(0);
    }
}

fn trace_json(shm: *mut Shm, caller: i32) -> Vec<Value> {
    let mut v = Vec::new();
    unsafe {
        let n = ((*shm).trace_n.load(SeqCst) as usize).min(TRACE_CAP);
        for i in 0..n {
            let e = &(*shm).trace[i];
            v.push(json!({
                "side": if e.pid == caller { "parent" } else { "child" },
                "pid": e.pid, "idx": e.idx, "nr": e.nr, "call": sysx::name(e.nr),
                "args": [e.args[0], e.args[1], e.args[2], e.args[3], e.args[4], e.args[5]],
                "ret": if e.has_ret != 0 { json!(e.ret) } else { Value::Null },
            }));
        }
    }
    v.sort_by_key(|x| (x["side"].as_str() == Some("child"), x["idx"].as_u64()));
    v
}

/// Runs in P (never returns).  Everything outside `sysx::run` uses libc only.
fn exec_case(ctx: &Ctx, sdir: &str, shm: *mut Shm, shard_pgid: i32, cfg: &Config, faults: &[Fault]) -> ! {
    unsafe {
        libc::setpgid(0, 0);
        libc::alarm(if read_failure_with_stdin_pipe(cfg, faults) || cfg.lock_held { READ_DEADLOCK_ALARM } else { CASE_ALARM });
        let caller = libc::getpid();
        let f = |n: &str| format!("{sdir}/{n}");
        write_file(&f("in0"), PARENT_STDIN);
        write_file(&f("out1"), b"");
        write_file(&f("err2"), b"");
        write_file(&f("raw0"), RAW_STDIN);
        write_file(&f("raw1"), b"");
        write_file(&f("raw2"), b"");
        write_file(&f("report"), b"");
        // P's own standard streams: three distinct files, so that "inherited" is checkable
        let ok = open_at_fd(&f("in0"), libc::O_RDONLY, 0)
            && open_at_fd(&f("out1"), libc::O_WRONLY | libc::O_APPEND, 1)
            && open_at_fd(&f("err2"), libc::O_WRONLY | libc::O_APPEND, 2)
            && open_at_fd(&f("report"), libc::O_WRONLY | libc::O_APPEND, REPORT_FD);
        if !ok {
            finish(shm, &json!({"machinery": "could not set up P's descriptors"}));
        }
        let mut raw_ident = vec![Value::Null; 3];
        for i in 0..3 {
            if cfg.stdio[i] == Sm::Raw {
                let flags = if i == 0 { libc::O_RDONLY } else { libc::O_WRONLY | libc::O_APPEND };
                if !open_at_fd(&f(&format!("raw{i}")), flags, RAW_FD_BASE + i as i32) {
                    finish(shm, &json!({"machinery": "could not open a RawFd file"}));
                }
                raw_ident[i] = helper::fd_ident(RAW_FD_BASE + i as i32);
            }
        }
        // start state of the caller's descriptor table
        for k in 0..3 {
            if cfg.closed[k] {
                libc::close(k as i32);
            }
        }
        if cfg.bin.starts_with("rel:") {
            let c = CString::new(ctx.caller_dir.as_str()).unwrap();
            if libc::chdir(c.as_ptr()) != 0 {
                finish(shm, &json!({"machinery": "could not enter the caller's cwd"}));
            }
        }
        let parent_ident: Vec<Value> = (0..3).map(helper::fd_ident).collect();
        let mut cwdbuf = [0u8; 4096];
        libc::getcwd(cwdbuf.as_mut_ptr() as *mut libc::c_char, cwdbuf.len());
        let parent_cwd = cwdbuf[..cwdbuf.iter().position(|&c| c == 0).unwrap_or(0)].to_vec();
        let um = libc::umask(0o022);
        libc::umask(um);
        let inheritable: Vec<i32> = helper::fd_table().into_iter().map(|(n, _)| n).filter(|&n| libc::fcntl(n, libc::F_GETFD) & libc::FD_CLOEXEC == 0).collect();

        // ---- the command
        let bin_b = nul(ctx.bin_path(cfg).as_bytes());
        let args_b: Vec<Vec<u8>> = cfg.args.iter().map(|a| nul(a)).collect();
        let cwd_b = nul(match cfg.cwd.as_str() {
            "dir" => ctx.cwd_dir.clone(),
            _ => ctx.missing_dir(),
        }
        .as_bytes());
        // (start build) the process environment as tiny-std's start-up code would have recorded it
        let inh_b: Vec<Vec<u8>> = cfg.inherit.clone().unwrap_or_default().iter().map(|e| nul(e)).collect();
        let mut inh_p: Vec<*const u8> = inh_b.iter().map(|e| e.as_ptr()).collect();
        inh_p.push(std::ptr::null());
        #[cfg(feature = "with-start")]
        if cfg.inherit.is_some() {
            tiny_std::env::verif_set_env(0, std::ptr::null(), inh_p.as_ptr());
        }
        let bin = UnixStr::try_from_bytes(&bin_b).expect("bin");
        let mut cmd = Command::new(bin).expect("Command::new");
        // the builder calls are part of the subject too (they lay out the argv / envp vectors)
        let built = catch(|| {
            for a in &args_b {
                cmd.arg(UnixStr::try_from_bytes(a).expect("arg"));
            }
            if let Some(envs) = &cfg.env {
                let v: Vec<UnixString> = envs.iter().map(|e| UnixString::try_from_vec(nul(e)).expect("env entry")).collect();
                cmd.envs(v.into_iter());
            }
        });
        if let Err(p) = built {
            finish(shm, &json!({"spawn": "panic", "panic": format!("while building the command (Command::arg / envs): {p}"), "fault_hit": 0, "trace_overflow": false, "returned_in_child": 0}));
        }
        if cfg.cwd != "unset" {
            cmd.cwd(UnixStr::try_from_bytes(&cwd_b).expect("cwd"));
        }
        match cfg.uid.as_str() {
            "current" => {
                cmd.uid(libc::geteuid());
            }
            "nobody" => {
                cmd.uid(NOBODY);
            }
            _ => {}
        }
        match cfg.gid.as_str() {
            "current" => {
                cmd.gid(libc::getegid());
            }
            "nobody" => {
                cmd.gid(NOBODY);
            }
            _ => {}
        }
        match cfg.pgroup.as_str() {
            "zero" => {
                cmd.pgroup(0);
            }
            "own" => {
                cmd.pgroup(libc::getpgid(0));
            }
            "other" => {
                cmd.pgroup(shard_pgid);
            }
            _ => {}
        }
        for i in 0..3 {
            let s = match cfg.stdio[i] {
                Sm::Unset => continue,
                Sm::Inherit => Stdio::Inherit,
                Sm::Null => Stdio::Null,
                Sm::Pipe => Stdio::MakePipe,
                Sm::Raw => Stdio::RawFd(rusl::platform::Fd::try_new(RAW_FD_BASE + i as i32).unwrap()),
                Sm::RawShared => Stdio::RawFd(rusl::platform::Fd::try_new(RAW_FD_BASE + 1).unwrap()),
                Sm::Std0 | Sm::Std1 | Sm::Std2 => Stdio::RawFd(rusl::platform::Fd::try_new(cfg.stdio[i].std_k().unwrap() as i32).unwrap()),
            };
            match i {
                0 => cmd.stdin(s),
                1 => cmd.stdout(s),
                _ => cmd.stderr(s),
            };
        }
        let shm_addr = shm as usize;
        for kind in cfg.closure.split('+') {
            let kind = kind.to_string();
            if kind == "none" {
                continue;
            }
            cmd.pre_exec(move || {
                let s = shm_addr as *mut Shm;
                (*s).closure_pid.store(libc::getpid(), SeqCst);
                (*s).closure_runs.fetch_add(1, SeqCst);
                match kind.as_str() {
                    "ok" => {
                        libc::umask(CLOSURE_UMASK as libc::mode_t);
                        Ok(())
                    }
                    "fail" => Err(tiny_std::Error::Os { msg: "pre-exec closure of the harness fails", code: Errno::new(CLOSURE_ERRNO) }),
                    "uncat" => Err(tiny_std::Error::Uncategorized("pre-exec closure of the harness fails without an errno")),
                    "timeout" => Err(tiny_std::Error::Timeout),
                    _ => panic!("pre-exec closure of the harness panics"),
                }
            });
        }
        // the caller's SIGCHLD disposition
        match cfg.sigchld.as_str() {
            "ignore" => {
                libc::signal(libc::SIGCHLD, libc::SIG_IGN);
            }
            "nocldwait" => {
                extern "C" fn on_chld(_: libc::c_int) {}
                let mut sa: libc::sigaction = std::mem::zeroed();
                sa.sa_sigaction = on_chld as *const () as usize;
                sa.sa_flags = libc::SA_NOCLDWAIT | libc::SA_RESTART;
                libc::sigemptyset(&mut sa.sa_mask);
                libc::sigaction(libc::SIGCHLD, &sa, std::ptr::null_mut());
            }
            _ => {}
        }
        // (start build) a caller whose tiny_std::env::ENV nobody initialised still has a real environment
        let uninitialised_env = WITH_START && cfg.inherit.is_none();
        if uninitialised_env {
            libc::setenv(b"H_SPAWN_CALLER_ENV\0".as_ptr() as *const libc::c_char, b"1\0".as_ptr() as *const libc::c_char, 1);
        }
        let parent_environ: Vec<String> = {
            extern "C" {
                static environ: *const *const libc::c_char;
            }
            let mut v = Vec::new();
            let mut p = environ;
            while !p.is_null() && !(*p).is_null() {
                v.push(hex(std::ffi::CStr::from_ptr(*p).to_bytes()));
                p = p.add(1);
            }
            v
        };

        // ---- another thread of the caller is inside tiny_std::eprintln! (it holds the stderr lock: the
        // argument's Display blocks on a pipe) while this thread spawns
        let mut lock_holder: Option<(std::thread::JoinHandle<()>, i32)> = None;
        if cfg.lock_held {
            static INSIDE: std::sync::atomic::AtomicBool = std::sync::atomic::AtomicBool::new(false);
            struct Blocker(i32);
            impl std::fmt::Display for Blocker {
                fn fmt(&self, _f: &mut std::fmt::Formatter<'_>) -> std::fmt::Result {
                    INSIDE.store(true, SeqCst);
                    let mut b = [0u8; 1];
                    unsafe {
                        while libc::read(self.0, b.as_mut_ptr() as *mut libc::c_void, 1) < 0 && *libc::__errno_location() == libc::EINTR {}
                    }
                    Ok(()) // (nothing is printed: the caller's stderr file stays as the program leaves it)
                }
            }
            let mut fds = [0i32; 2];
            if libc::pipe2(fds.as_mut_ptr(), libc::O_CLOEXEC) != 0 {
                finish(shm, &json!({"machinery": "pipe for the lock holder"}));
            }
            let rd = fds[0];
            let h = std::thread::spawn(move || {
                tiny_std::eprint!("{}", Blocker(rd));
            });
            while !INSIDE.load(SeqCst) {
                libc::usleep(200);
            }
            lock_holder = Some((h, fds[1]));
        }

        // ---- (the same Command used before: first child spawned, fed, drained and waited for, un-judged)
        if cfg.twice {
            match catch(|| cmd.spawn()) {
                Ok(Ok(mut first)) => {
                    if let Some(p) = &first.stdin {
                        let fd = p.borrow_fd().as_raw_fd().value();
                        libc::write(fd, PIPE_STDIN.as_ptr() as *const libc::c_void, PIPE_STDIN.len());
                    }
                    drop(first.stdin.take());
                    for p in [first.stdout.take(), first.stderr.take()].into_iter().flatten() {
                        let _ = read_fd_all(p.borrow_fd().as_raw_fd().value());
                    }
                    let _ = first.wait();
                }
                Ok(Err(e)) => finish(shm, &json!({"machinery": format!("the first spawn of the twice-used command failed: {e}")})),
                Err(p) => finish(shm, &json!({"machinery": format!("the first spawn of the twice-used command panicked: {p}")})),
            }
            // start the second child from a clean slate: outputs emptied, inputs rewound
            for n in ["out1", "err2", "raw1", "raw2", "report"] {
                let c = CString::new(f(n)).unwrap();
                libc::truncate(c.as_ptr(), 0);
            }
            libc::lseek(0, 0, libc::SEEK_SET);
            if cfg.stdio[0] == Sm::Raw {
                libc::lseek(RAW_FD_BASE, 0, libc::SEEK_SET);
            }
        }

        // ---- the operation under test
        let mut plan = CasePlan { shm, caller, faults: faults.to_vec(), last_slot: usize::MAX, applied: vec![0; faults.len()] };
        let res = catch(|| {
            sysx::run_opt(&mut plan, None, || {
                let r = cmd.spawn();
                after_spawn(caller, shm, false);
                r
            })
            .0
        });
        after_spawn(caller, shm, res.is_err());
        if let Some((h, wr)) = lock_holder.take() {
            libc::write(wr, b"x".as_ptr() as *const libc::c_void, 1);
            let _ = h.join();
            libc::close(wr);
        }

        let mut obs = json!({
            "caller": caller, "parent_ident": parent_ident, "raw_ident": raw_ident, "null_ident": path_ident("/dev/null"),
            "parent_cwd": hex(&parent_cwd), "parent_umask": um as u64, "inheritable": inheritable, "parent_environ": parent_environ,
            "parent_uid": libc::geteuid(), "parent_gid": libc::getegid(), "parent_pgid": libc::getpgid(0), "shard_pgid": shard_pgid,
        });
        let fork_pid = {
            let n = ((*shm).trace_n.load(SeqCst) as usize).min(TRACE_CAP);
            (0..n).map(|i| &(*shm).trace[i]).find(|e| e.nr == libc::SYS_fork && e.pid == caller && e.has_ret != 0 && e.ret > 0).map(|e| e.ret as i32)
        };
        obs["fork_pid"] = json!(fork_pid);
        match res {
            Err(p) => {
                obs["spawn"] = json!("panic");
                obs["panic"] = json!(p);
            }
            Ok(Err(e)) => {
                obs["spawn"] = json!("err");
                obs["err"] = match e {
                    tiny_std::Error::Os { msg, code } => json!({"kind": "os", "code": code.raw(), "msg": msg}),
                    tiny_std::Error::Uncategorized(m) => json!({"kind": "uncategorized", "msg": m}),
                    tiny_std::Error::Timeout => json!({"kind": "timeout"}),
                };
            }
            Ok(Ok(mut child)) => {
                obs["spawn"] = json!("ok");
                obs["child_pid"] = json!(child.get_pid());
                let fdnum = |p: &Option<tiny_std::process::AnonPipe>| p.as_ref().map(|a| a.borrow_fd().as_raw_fd().value());
                let fds = [fdnum(&child.stdin), fdnum(&child.stdout), fdnum(&child.stderr)];
                obs["pipe_ident"] = json!(fds.iter().map(|f| f.map(helper::fd_ident).unwrap_or(Value::Null)).collect::<Vec<_>>());
                obs["pipe_held"] = json!(fds.iter().map(|f| f.is_some()).collect::<Vec<_>>());
                if let Some(fd) = fds[0] {
                    libc::write(fd, PIPE_STDIN.as_ptr() as *const libc::c_void, PIPE_STDIN.len());
                }
                drop(child.stdin.take());
                let mut pipe_data = vec![Value::Null; 3];
                for i in 1..3 {
                    if let Some(fd) = fds[i] {
                        let (d, e) = read_fd_all(fd);
                        pipe_data[i] = json!({"data": hex(&d), "err": e});
                    }
                }
                obs["pipe_data"] = json!(pipe_data);
                obs["wait"] = match catch(|| child.wait()) {
                    Ok(Ok(s)) => json!({"ok": s}),
                    Ok(Err(e)) => json!({"err": format!("{e}")}),
                    Err(p) => json!({"panic": p}),
                };
                drop(child);
            }
        }
        // ---- whoever is left
        let mut left = Vec::new();
        if let Some(pid) = fork_pid {
            let mut st = 0;
            let r = libc::waitpid(pid, &mut st, libc::WNOHANG);
            if r == pid {
                left.push(json!({"pid": pid, "state": "zombie", "status": st}));
            } else if r == 0 {
                let exe = std::fs::read_link(format!("/proc/{pid}/exe")).map(|p| p.to_string_lossy().to_string()).unwrap_or_default();
                // does it go away by itself?
                let mut gone = false;
                for _ in 0..300 {
                    libc::usleep(1000);
                    if libc::waitpid(pid, &mut st, libc::WNOHANG) == pid {
                        gone = true;
                        break;
                    }
                }
                if !gone {
                    libc::kill(pid, libc::SIGKILL);
                    libc::waitpid(pid, &mut st, 0);
                }
                left.push(json!({"pid": pid, "state": "alive", "exe": exe, "is_helper": exe == ctx.helper, "exited_by_itself": gone, "status": st}));
            }
        }
        loop {
            let mut st = 0;
            let r = libc::waitpid(-1, &mut st, libc::WNOHANG);
            if r > 0 {
                left.push(json!({"pid": r, "state": "zombie", "status": st}));
                continue;
            }
            if r == 0 {
                left.push(json!({"pid": 0, "state": "alive-unknown"}));
            }
            break;
        }
        obs["left"] = json!(left);
        let rep = read_file(&f("report"));
        obs["helper"] = if rep.is_empty() { Value::Null } else { serde_json::from_slice(&rep).unwrap_or(json!({"unparsable": hex(&rep)})) };
        obs["files"] = json!({"out1": hex(&read_file(&f("out1"))), "err2": hex(&read_file(&f("err2"))), "raw1": hex(&read_file(&f("raw1"))), "raw2": hex(&read_file(&f("raw2")))});
        obs["returned_in_child"] = json!((*shm).returned_in_child.load(SeqCst));
        obs["child_panicked"] = json!((*shm).child_panicked.load(SeqCst));
        obs["closure_pid"] = json!((*shm).closure_pid.load(SeqCst));
        obs["closure_runs"] = json!((*shm).closure_runs.load(SeqCst));
        obs["fault_hit"] = json!((*shm).fault_hit.load(SeqCst));
        obs["fault_nr_mismatch"] = json!((*shm).fault_nr_mismatch.load(SeqCst));
        obs["site_applied"] = json!((*shm).site_applied.load(SeqCst));
        obs["trace_overflow"] = json!((*shm).trace_n.load(SeqCst) as usize > TRACE_CAP);
        obs["trace"] = json!(trace_json(shm, caller));
        finish(shm, &obs);
    }
}

// ---------------------------------------------------------------------------
// shard side: run one case in a fresh P and judge what it observed

struct Shard {
    ctx: Ctx,
    sdir: String,
    shm: *mut Shm,
    pgid: i32,
}

impl Shard {
    fn new(ctx: &Ctx, name: &str) -> Shard {
        let sdir = format!("{}/{name}", ctx.root);
        std::fs::create_dir_all(&sdir).expect("shard dir");
        chmod(&sdir, 0o755);
        // compute the seam's allowed range once (inherited by every P)
        assert!(sysx::arm(), "Syscall User Dispatch not available");
        sysx::disarm();
        Shard { ctx: ctx.clone(), sdir, shm: shm_new(), pgid: unsafe { libc::getpgid(0) } }
    }

    /// Ok(observation) or Err("hang" | machinery message)
    fn hangs_file(&self) -> String {
        format!("{}/hangs", self.ctx.root)
    }
    fn run(&self, cfg: &Config, faults: &[Fault]) -> Result<Value, String> {
        self.run_p2(|| exec_case(&self.ctx, &self.sdir, self.shm, self.pgid, cfg, faults), true)
    }
    fn run_p(&self, body: impl FnOnce()) -> Result<Value, String> {
        self.run_p2(body, true)
    }
    /// Run `body` (which ends with `finish`) in a fresh process P and collect its observation.
    /// `count_hang`: a hang counts against the run's hang budget.
    fn run_p2(&self, body: impl FnOnce(), count_hang: bool) -> Result<Value, String> {
        if std::fs::metadata(self.hangs_file()).map(|m| m.len()).unwrap_or(0) >= MAX_HANGS {
            return Err("skipped".into());
        }
        shm_reset(self.shm);
        unsafe {
            let pid = libc::fork();
            if pid == 0 {
                body();
                libc::_exit(3);
            }
            if pid < 0 {
                return Err("machinery: fork of P failed".into());
            }
            let mut st = 0;
            loop {
                let r = libc::waitpid(pid, &mut st, 0);
                if r == pid || (r < 0 && *libc::__errno_location() != libc::EINTR) {
                    break;
                }
            }
            let normal = libc::WIFEXITED(st) && libc::WEXITSTATUS(st) == 0;
            if !normal {
                // clean up whatever P left in its process group
                libc::kill(-pid, libc::SIGKILL);
            }
            if libc::WIFSIGNALED(st) && libc::WTERMSIG(st) == libc::SIGALRM {
                use std::io::Write;
                if !count_hang {
                    return Err("hang".into());
                }
                if let Ok(mut f) = std::fs::OpenOptions::new().create(true).append(true).open(self.hangs_file()) {
                    let _ = f.write_all(b"h");
                }
                return Err("hang".into());
            }
            if !normal {
                return Err(format!("machinery: P ended with wait status {st:#x}"));
            }
            let n = (*self.shm).obs_len.load(SeqCst) as usize;
            if n == 0 {
                return Err("machinery: P left no observation".into());
            }
            let v: Value = serde_json::from_slice(&(&(*self.shm).obs)[..n]).map_err(|e| format!("machinery: observation unparsable: {e}"))?;
            if let Some(m) = v.get("machinery").and_then(|m| m.as_str()) {
                return Err(format!("machinery: {m}"));
            }
            Ok(v)
        }
    }
}

fn replay_of(cfg: &Config, faults: &[Fault]) -> Value {
    json!({
        "op": "spawn",
        "variant": if WITH_START { "start" } else { "nostart" },
        "cfg": cfg.to_json(),
        "faults": faults.iter().map(|f| f.to_json()).collect::<Vec<_>>(),
    })
}

fn ident_eq(a: &Value, b: &Value) -> bool {
    !a.is_null() && !b.is_null() && a["dev"] == b["dev"] && a["ino"] == b["ino"] && a["type"] == b["type"]
}

/// The oracle for a run in which spawn must have succeeded: the helper's dump equals the configuration.
fn judge_ok(ctx: &Ctx, cfg: &Config, obs: &Value, r: &mut Report, rp: &Value) {
    let h = &obs["helper"];
    if !h["unparsable"].is_null() {
        r.cap(format!("the program's dump could not be parsed (too large for the harness's buffers?) in {rp}"));
        r.notes.push("machinery-failure".into());
        return;
    }
    if h.is_null() || h["proto"].as_u64().is_none() {
        r.outcome("ok-but-no-dump");
        r.violation("C13:spawn:ok-but-program-not-run", format!("spawn returned Ok but the requested program left no dump (wait: {})", obs["wait"]), rp.clone());
        return;
    }
    if h["proto"].as_u64() != Some(PROTO) {
        r.cap("stale spawn-helper next to the harness (protocol mismatch): rebuild with `cargo build -p h-spawn`");
        r.notes.push("machinery-failure".into());
        return;
    }
    let strs = |v: &Value| -> Vec<Vec<u8>> { v.as_array().map(|a| a.iter().map(|s| unhex(s.as_str().unwrap_or(""))).collect()).unwrap_or_default() };
    let show = |v: &[Vec<u8>]| format!("[{}]", v.iter().map(|a| format!("\"{}\"", show_bytes(a))).collect::<Vec<_>>().join(", "));
    // argv: Command::new puts the binary path first, then every `arg`
    let mut want_argv = vec![ctx.bin_path(cfg).into_bytes()];
    want_argv.extend(cfg.args.iter().cloned());
    let got_argv = strs(&h["argv"]);
    if got_argv != want_argv {
        r.violation("C13:spawn:argv-differs", format!("child argv {} but configured {}", show(&got_argv), show(&want_argv)), rp.clone());
    }
    // environment: exactly the provided entries; nothing given = (without `start`) Environment::None = empty
    // with `start`: nothing given = Environment::Inherit = the installed process environment (H2);
    // `envs(<empty iterator>)` is accepted either way (no entries / no-op)
    // with `start` and nothing installed (no H2 call: the situation of every user of the `library` feature),
    // "inherit" can only mean the caller's real environment
    let uninitialised = WITH_START && cfg.inherit.is_none();
    let inherited: Vec<Vec<u8>> = if uninitialised { strs(&obs["parent_environ"]) } else if WITH_START { cfg.inherit.clone().unwrap_or_default() } else { Vec::new() };
    let want_envs: Vec<Vec<Vec<u8>>> = match &cfg.env {
        None => vec![inherited],
        Some(v) if v.is_empty() => vec![Vec::new(), inherited],
        Some(v) => vec![v.clone()],
    };
    let got_env = strs(&h["env"]);
    if uninitialised && cfg.env.is_none() {
        r.outcome(if want_envs.contains(&got_env) { "env-inherited-with-uninitialised-ENV" } else { "env-lost-with-uninitialised-ENV" });
    }
    if uninitialised && cfg.env.is_none() && !want_envs.contains(&got_env) {
        r.violation(
            "C13:spawn:env-differs:inherit-with-uninitialised-ENV",
            format!(
                "tiny-std built with `start` but without `symbols` (what the std-compatible `library` feature enables): nothing initialises tiny_std::env::ENV (there is no public initialiser; only tiny-std's own _start does), so Command's default Environment::Inherit passes envp = NULL — the child's environment is {} although the caller's has {} entries (e.g. H_SPAWN_CALLER_ENV=1)",
                show(&got_env), want_envs[0].len()
            ),
            rp.clone(),
        );
    } else if !want_envs.contains(&got_env) {
        r.violation(
            "C13:spawn:env-differs",
            format!("child environment {} but configured {}{}", show(&got_env), show(&want_envs[0]), if cfg.env.is_none() && WITH_START { " (Environment::Inherit of the installed process environment)" } else { "" }),
            rp.clone(),
        );
    }
    r.outcome(match (&cfg.env, WITH_START && cfg.inherit.is_some()) {
        (None, true) => "env-inherited",
        (None, false) => "env-none",
        (Some(_), true) => "env-provided-over-inherit",
        (Some(_), false) => "env-provided",
    });
    // the requested program: a relative path names the file under the cwd the child has when it execs
    let want_exe = match cfg.bin.strip_prefix("rel:") {
        Some(rel) => format!("{}/{}", if cfg.cwd == "dir" { &ctx.cwd_dir } else { &ctx.caller_dir }, rel.trim_start_matches("./")),
        None => ctx.bin_path(cfg),
    };
    let got_exe = unhex(h["exe"].as_str().unwrap_or(""));
    if got_exe != want_exe.as_bytes() {
        r.violation("C13:spawn:wrong-program-run", format!("the child executes \"{}\" but the configured program is \"{}\" (path \"{}\", cwd {})", show_bytes(&got_exe), want_exe, ctx.bin_path(cfg), cfg.cwd), rp.clone());
    }
    if cfg.bin.starts_with("rel:") {
        r.outcome(if cfg.cwd == "dir" { "ok-relative-program-under-configured-cwd" } else { "ok-relative-program-under-callers-cwd" });
    }
    let want_cwd = if cfg.cwd == "dir" { ctx.cwd_dir.clone().into_bytes() } else { unhex(obs["parent_cwd"].as_str().unwrap_or("")) };
    let got_cwd = unhex(h["cwd"].as_str().unwrap_or(""));
    if got_cwd != want_cwd {
        r.violation("C13:spawn:cwd-differs", format!("child cwd \"{}\" but configured \"{}\"", show_bytes(&got_cwd), show_bytes(&want_cwd)), rp.clone());
    }
    // standard streams
    let files = &obs["files"];
    let filedata = |k: &str| unhex(files[k].as_str().unwrap_or(""));
    let child_stdin = unhex(h["stdin"].as_str().unwrap_or(""));
    if cfg.aliasing() {
        judge_streams_aliasing(cfg, obs, r, rp);
    }
    for i in 0..3 {
        if cfg.aliasing() {
            break;
        }
        let m = cfg.stdio[i];
        let key = format!("C13:spawn:stdio-differs:{}:{}", STREAMS[i], m.name());
        let got = &h["fds"][i];
        let mut bad: Vec<String> = Vec::new();
        let token: &[u8] = if i == 1 { OUT_TOKEN } else { ERR_TOKEN };
        let parent_file = ["in0", "out1", "err2"][i];
        let raw_file = ["raw0", "raw1", "raw2"][i];
        let acc = got["acc"].as_i64().unwrap_or(-1);
        let acc_ok = if i == 0 { acc == libc::O_RDONLY as i64 || acc == libc::O_RDWR as i64 } else { acc == libc::O_WRONLY as i64 || acc == libc::O_RDWR as i64 };
        let held = obs["pipe_held"][i].as_bool().unwrap_or(false);
        if held != (m == Sm::Pipe) {
            bad.push(format!("parent {} a pipe end in Child.{}", if held { "holds" } else { "does not hold" }, STREAMS[i]));
        }
        match m {
            Sm::Unset | Sm::Inherit => {
                if !ident_eq(got, &obs["parent_ident"][i]) {
                    bad.push(format!("descriptor {i} is {got}, the caller's is {}", obs["parent_ident"][i]));
                }
                if i == 0 && child_stdin != PARENT_STDIN {
                    bad.push(format!("child read \"{}\" from stdin", show_bytes(&child_stdin)));
                }
                if i > 0 && filedata(parent_file) != token {
                    bad.push(format!("the caller's {} received \"{}\"", STREAMS[i], show_bytes(&filedata(parent_file))));
                }
            }
            Sm::Null => {
                let n = &obs["null_ident"];
                if !(ident_eq(got, n) && got["rdev"] == n["rdev"] && got["type"].as_u64() == Some(libc::S_IFCHR as u64)) {
                    bad.push(format!("descriptor {i} is {got}, /dev/null is {n}"));
                }
                if !acc_ok {
                    bad.push(format!("access mode {acc}"));
                }
                if i == 0 && !child_stdin.is_empty() {
                    bad.push(format!("child read \"{}\" from stdin", show_bytes(&child_stdin)));
                }
            }
            Sm::Pipe => {
                if got["type"].as_u64() != Some(libc::S_IFIFO as u64) || !ident_eq(got, &obs["pipe_ident"][i]) {
                    bad.push(format!("descriptor {i} is {got}, the parent's pipe end is {}", obs["pipe_ident"][i]));
                }
                if !acc_ok {
                    bad.push(format!("access mode {acc}"));
                }
                if i == 0 && child_stdin != PIPE_STDIN {
                    bad.push(format!("child read \"{}\" from the stdin pipe", show_bytes(&child_stdin)));
                }
                if i > 0 {
                    let d = unhex(obs["pipe_data"][i]["data"].as_str().unwrap_or(""));
                    if d != token {
                        bad.push(format!("parent read \"{}\" from the pipe", show_bytes(&d)));
                    }
                }
            }
            Sm::Std0 | Sm::Std1 | Sm::Std2 => unreachable!("aliasing configurations are judged separately"),
            Sm::RawShared => {
                // stderr on the very file stdout was given: both tokens arrive there, stdout's first
                if !ident_eq(got, &obs["raw_ident"][1]) {
                    bad.push(format!("descriptor {i} is {got}, the file given to stdout and stderr is {}", obs["raw_ident"][1]));
                }
                let both = [OUT_TOKEN, ERR_TOKEN].concat();
                if filedata("raw1") != both {
                    bad.push(format!("the file given to stdout and stderr received \"{}\"", show_bytes(&filedata("raw1"))));
                }
            }
            Sm::Raw if i == 1 && cfg.stdio[2] == Sm::RawShared => {
                if !ident_eq(got, &obs["raw_ident"][i]) {
                    bad.push(format!("descriptor {i} is {got}, the given file is {}", obs["raw_ident"][i]));
                }
            }
            Sm::Raw => {
                if !ident_eq(got, &obs["raw_ident"][i]) {
                    bad.push(format!("descriptor {i} is {got}, the given file is {}", obs["raw_ident"][i]));
                }
                if i == 0 && child_stdin != RAW_STDIN {
                    bad.push(format!("child read \"{}\" from stdin", show_bytes(&child_stdin)));
                }
                if i > 0 && filedata(raw_file) != token {
                    bad.push(format!("the given file received \"{}\"", show_bytes(&filedata(raw_file))));
                }
            }
        }
        // output of a redirected stream must not reach the caller's own stream
        if i > 0 && !matches!(m, Sm::Unset | Sm::Inherit) && !filedata(parent_file).is_empty() {
            bad.push(format!("the caller's own {} received \"{}\"", STREAMS[i], show_bytes(&filedata(parent_file))));
        }
        if !bad.is_empty() {
            r.violation(&key, bad.join("; "), rp.clone());
        }
    }
    // descriptors beyond 0..2: only what the caller itself left inheritable
    let inh: HashSet<i64> = obs["inheritable"].as_array().map(|a| a.iter().filter_map(|x| x.as_i64()).collect()).unwrap_or_default();
    let extra: Vec<String> = h["table"].as_array().map(|a| a.iter().filter(|e| { let n = e[0].as_i64().unwrap_or(-1); n > 2 && !inh.contains(&n) }).map(|e| e.to_string()).collect()).unwrap_or_default();
    if !extra.is_empty() {
        r.outcome("extra-descriptor-in-child");
        r.violation("C13:spawn:stdio-differs:extra-descriptor", format!("the child holds descriptors the caller did not leave inheritable: {}", extra.join(" ")), rp.clone());
    }
    // ids
    let num = |v: &Value| v.as_i64().unwrap_or(-1);
    let want_uid = if cfg.uid == "nobody" { NOBODY as i64 } else { num(&obs["parent_uid"]) };
    let want_gid = if cfg.gid == "nobody" { NOBODY as i64 } else { num(&obs["parent_gid"]) };
    let want_pgid = match cfg.pgroup.as_str() {
        "zero" => num(&h["pid"]),
        "other" => num(&obs["shard_pgid"]),
        _ => num(&obs["parent_pgid"]),
    };
    if num(&h["uid"]) != want_uid || num(&h["euid"]) != want_uid || num(&h["gid"]) != want_gid || num(&h["egid"]) != want_gid || num(&h["pgid"]) != want_pgid {
        r.violation(
            "C13:spawn:ids-differ",
            format!("child uid/euid {}/{} gid/egid {}/{} pgid {} but configured uid {want_uid} gid {want_gid} pgid {want_pgid}", h["uid"], h["euid"], h["gid"], h["egid"], h["pgid"]),
            rp.clone(),
        );
    }
    if num(&h["pid"]) != num(&obs["child_pid"]) || num(&h["ppid"]) != num(&obs["caller"]) {
        r.violation("C13:spawn:pid-differs", format!("Child.get_pid() = {} caller = {} but the program ran as pid {} with parent {}", obs["child_pid"], obs["caller"], h["pid"], h["ppid"]), rp.clone());
    }
    // pre-exec closure: ran once, in the child, before exec (its umask is visible in the program)
    match cfg.closure.as_str() {
        "ok" => {
            if num(&obs["closure_runs"]) != 1 || num(&obs["closure_pid"]) != num(&h["pid"]) || h["umask"].as_u64() != Some(CLOSURE_UMASK as u64) {
                r.violation("C13:spawn:closure-not-run-in-child", format!("closure ran {} time(s) in pid {} (child pid {}), child umask {:o}", obs["closure_runs"], obs["closure_pid"], h["pid"], h["umask"].as_u64().unwrap_or(0)), rp.clone());
            }
        }
        _ => {
            if h["umask"] != obs["parent_umask"] {
                r.violation("C13:spawn:closure-not-run-in-child", format!("no closure configured but the child's umask is {:o}", h["umask"].as_u64().unwrap_or(0)), rp.clone());
            }
        }
    }
    // wait
    if cfg.sigchld != "default" {
        // the kernel reaps the child itself: what wait reports then (ECHILD) is not spawn's or wait's doing
        r.outcome("ok-sigchld-not-default-wait-not-judged");
        return;
    }
    let code = h["exit"].as_i64().unwrap_or(0);
    match obs["wait"]["ok"].as_i64() {
        Some(s) if s == (code & 0xff) << 8 => r.outcome("wait-returns-raw-wait-status"),
        Some(s) if s == code & 0xff && code != 0 => r.outcome("wait-returns-exit-code"),
        _ => {
            r.violation("C13:wait:wrong-status", format!("the program exited with {code}; wait returned {}", obs["wait"]), rp.clone());
        }
    }
    if obs["left"].as_array().map(|a| !a.is_empty()).unwrap_or(false) {
        r.outcome("ok-wait-left-children");
        r.violation("C13:wait:child-not-reaped", format!("after Ok + wait: {}", obs["left"]), rp.clone());
    }
}

/// (stream descriptor pairs of the child's dup3 calls, in order)
fn child_dups(obs: &Value) -> Vec<(u64, u64)> {
    obs["trace"].as_array().map(|a| a.iter().filter(|e| e["side"] == "child" && e["call"] == "dup3").map(|e| (e["args"][0].as_u64().unwrap_or(99), e["args"][1].as_u64().unwrap_or(99))).collect()).unwrap_or_default()
}

/// Standard streams when the numbers 0/1/2 play a second role: the caller closed some of them before
/// spawn (so spawn's own pipes / /dev/null land on them), or a stream is `RawFd(k)` for k in 0..=2.
/// Judged: what the program found at 0/1/2 as exec left them — identity, access mode, open or closed.
fn judge_streams_aliasing(cfg: &Config, obs: &Value, r: &mut Report, rp: &Value) {
    let h = &obs["helper"];
    let pi = &obs["parent_ident"]; // after the caller closed its descriptors: null = closed
    let dups = child_dups(obs);
    r.outcome(if cfg.closed.iter().any(|&c| c) { "ok-caller-had-closed-std-descriptors" } else { "ok-rawfd-names-std-descriptor" });
    for i in 0..3 {
        let m = cfg.stdio[i];
        let got = &h["fds"][i];
        let key = format!("C13:spawn:stdio-differs:{}:{}", STREAMS[i], m.name());
        let acc = got["acc"].as_i64().unwrap_or(-1);
        let acc_ok = if i == 0 { acc == libc::O_RDONLY as i64 || acc == libc::O_RDWR as i64 } else { acc == libc::O_WRONLY as i64 || acc == libc::O_RDWR as i64 };
        let held = obs["pipe_held"][i].as_bool().unwrap_or(false);
        let mut bad: Vec<String> = Vec::new();
        if held != (m == Sm::Pipe) {
            bad.push(format!("parent {} a pipe end in Child.{}", if held { "holds" } else { "does not hold" }, STREAMS[i]));
        }
        // what the stream must be: None = closed (inherited from a caller that had it closed)
        let mut want: Option<Vec<Value>> = match m {
            Sm::Unset | Sm::Inherit => if pi[i].is_null() { None } else { Some(vec![pi[i].clone()]) },
            Sm::Null => Some(vec![obs["null_ident"].clone()]),
            Sm::Pipe => Some(vec![obs["pipe_ident"][i].clone()]),
            Sm::Raw => Some(vec![obs["raw_ident"][i].clone()]),
            Sm::RawShared => Some(vec![obs["raw_ident"][1].clone()]),
            Sm::Std0 | Sm::Std1 | Sm::Std2 => {
                let k = m.std_k().unwrap();
                if pi[k].is_null() { None } else { Some(vec![pi[k].clone()]) }
            }
        };
        // RawFd(k) while stream k itself is redirected and set up earlier (k < i): whether "descriptor k"
        // means the caller's or the child's new one is not fixed by the statement: both accepted
        if let (Some(k), Some(w)) = (m.std_k(), want.as_mut()) {
            if k < i && !matches!(cfg.stdio[k], Sm::Unset | Sm::Inherit) && !h["fds"][k].is_null() {
                w.push(h["fds"][k].clone());
            }
        }
        match &want {
            None => {
                if !got.is_null() {
                    bad.push(format!("descriptor {i} is open ({got}) although the caller's own descriptor was closed"));
                }
                r.outcome("stream-closed-as-in-caller");
            }
            Some(alts) => {
                if got.is_null() {
                    r.outcome("stream-closed-in-child");
                    r.violation(
                        &format!("C13:spawn:ok-but-stream-closed:{}:{}", STREAMS[i], m.name()),
                        format!("spawn returned Ok but the program runs with {} CLOSED; configured {} (caller had closed {:?}; child dup3 calls {:?})", STREAMS[i], m.name(), (0..3).filter(|&k| cfg.closed[k]).collect::<Vec<_>>(), dups),
                        rp.clone(),
                    );
                    continue;
                }
                if !alts.iter().any(|w| ident_eq(got, w)) {
                    // the stream's source descriptor was overwritten by an earlier dup3 of the same child?
                    let mine = dups.iter().position(|d| d.1 == i as u64);
                    let clobbered = mine.map(|p| dups[..p].iter().any(|d| d.1 == dups[p].0)).unwrap_or(false);
                    let desc = format!("descriptor {i} is {got}, configured {} = {} (child dup3 calls {:?})", m.name(), alts[0], dups);
                    if clobbered {
                        r.outcome("stream-source-clobbered");
                        r.violation(&format!("C13:spawn:stdio-differs:source-clobbered:{}", STREAMS[i]), format!("{desc}: the stream's source descriptor had been overwritten by an earlier dup2 in the child"), rp.clone());
                        continue;
                    }
                    bad.push(desc);
                }
                if matches!(m, Sm::Null) && !(got["type"].as_u64() == Some(libc::S_IFCHR as u64) && got["rdev"] == obs["null_ident"]["rdev"]) {
                    bad.push(format!("descriptor {i} is {got}, not /dev/null"));
                }
                if matches!(m, Sm::Null | Sm::Pipe) && !acc_ok {
                    bad.push(format!("access mode {acc}"));
                }
                if m == Sm::Pipe {
                    if i == 0 {
                        let d = unhex(h["stdin"].as_str().unwrap_or(""));
                        if d != PIPE_STDIN {
                            bad.push(format!("child read \"{}\" from the stdin pipe", show_bytes(&d)));
                        }
                    } else {
                        let token: &[u8] = if i == 1 { OUT_TOKEN } else { ERR_TOKEN };
                        let d = unhex(obs["pipe_data"][i]["data"].as_str().unwrap_or(""));
                        if !d.windows(token.len()).any(|w| w == token) {
                            bad.push(format!("parent read \"{}\" from the pipe", show_bytes(&d)));
                        }
                    }
                }
            }
        }
        if !bad.is_empty() {
            r.violation(&key, bad.join("; "), rp.clone());
        }
    }
}

/// What the call log itself must satisfy, in every run.
/// Parent: every descriptor spawn creates is close-on-exec FROM ITS CREATION (another thread of the caller
/// may fork + exec at any moment: a flag set by a later fcntl leaves a window in which that other program
/// inherits, say, the write end of the exec-report pipe).
/// Child: between fork and exec/exit only the calls of the documented steps — it is a copy of a possibly
/// multi-threaded caller, any lock of the caller may be locked for ever in it.
fn judge_call_log(obs: &Value, r: &mut Report, rp: &Value) {
    let mut parent_bad: Vec<String> = Vec::new();
    let mut child_bad: Vec<String> = Vec::new();
    let entries = obs["trace"].as_array().cloned().unwrap_or_default();
    // the exec-report pipe: the last pipe the parent created before the fork; in the child its write end
    // may have been moved (fcntl F_DUPFD_CLOEXEC) away from 0..=2
    let fork_idx = entries.iter().find(|e| e["side"] == "parent" && e["call"] == "fork").and_then(|e| e["idx"].as_u64()).unwrap_or(u64::MAX);
    let mut report_fds: Vec<u64> = entries.iter().filter(|e| e["side"] == "parent" && (e["call"] == "pipe2" || e["call"] == "pipe") && e["ret"] == 0 && e["idx"].as_u64().unwrap_or(0) < fork_idx).last().map(|e| vec![e["args"][5].as_u64().unwrap_or(u64::MAX)]).unwrap_or_default();
    for e in &entries {
        if e["side"] == "child" && e["call"] == "fcntl" && e["args"][1].as_u64() == Some(libc::F_DUPFD_CLOEXEC as u64) && report_fds.contains(&e["args"][0].as_u64().unwrap_or(u64::MAX)) {
            if let Some(n) = e["ret"].as_i64().filter(|&n| n >= 0) {
                report_fds.push(n as u64);
            }
        }
    }
    for e in entries {
        let nr = e["nr"].as_i64().unwrap_or(-1);
        let a = |i: usize| e["args"][i].as_u64().unwrap_or(0);
        let call = format!("{}({:#x}, {:#x}, {:#x})", e["call"].as_str().unwrap_or("?"), a(0), a(1), a(2));
        let cloexec = libc::O_CLOEXEC as u64;
        if e["side"] == "parent" {
            let ok = match nr {
                x if x == libc::SYS_pipe => false,
                x if x == libc::SYS_pipe2 => a(1) & cloexec != 0,
                x if x == libc::SYS_open || x == libc::SYS_creat => x == libc::SYS_open && a(1) & cloexec != 0,
                x if x == libc::SYS_openat => a(2) & cloexec != 0,
                x if x == libc::SYS_dup || x == libc::SYS_dup2 => false,
                x if x == libc::SYS_dup3 => a(2) & cloexec != 0,
                x if x == libc::SYS_fcntl => a(1) as i32 != libc::F_DUPFD,
                x if x == libc::SYS_socket || x == libc::SYS_socketpair => a(1) & libc::SOCK_CLOEXEC as u64 != 0,
                _ => true,
            };
            if !ok {
                parent_bad.push(call);
            }
        } else {
            let ok = match nr {
                x if x == libc::SYS_close || x == libc::SYS_dup3 || x == libc::SYS_dup2 || x == libc::SYS_chdir || x == libc::SYS_setuid || x == libc::SYS_setgid || x == libc::SYS_setpgid => true,
                x if x == libc::SYS_execve || x == libc::SYS_exit || x == libc::SYS_exit_group => true,
                x if x == libc::SYS_fcntl => matches!(a(1) as i32, libc::F_DUPFD_CLOEXEC | libc::F_SETFD | libc::F_GETFD),
                // the 8-byte report to the parent, through the report pipe's write end (wherever it sits)
                x if x == libc::SYS_write => report_fds.contains(&a(0)) && a(2) == 8,
                _ => false,
            };
            if !ok {
                child_bad.push(call);
            }
        }
    }
    if !parent_bad.is_empty() {
        r.outcome("descriptor-created-without-cloexec");
        r.violation("C13:spawn:descriptor-created-without-cloexec", format!("spawn, in the caller, creates a descriptor that is not close-on-exec from its creation: {} (a flag set by a later fcntl leaves a window for another thread's fork + exec)", parent_bad.join(", ")), rp.clone());
    }
    if !child_bad.is_empty() {
        r.outcome("child-does-unexpected-work");
        r.violation("C13:spawn:child-does-unexpected-work-between-fork-and-exec", format!("between fork and exec/exit the child makes calls that are none of the documented steps: {}", child_bad.join(", ")), rp.clone());
    }
}

/// A step that fails without injection: the configuration's known one, or — where descriptor numbers
/// alias — the child-side call the fault-free trace shows failing (dup3(k, k) = EINVAL, ...).
fn natural_of(cfg: &Config, obs: &Value, faults: &[Fault]) -> Option<(String, i32)> {
    if !cfg.aliasing() || !faults.is_empty() {
        return cfg.natural_failure();
    }
    // (only a call the trace really shows failing counts: no errno is "natural" by configuration here,
    // except the one the configuration itself produces, which the trace shows too)
    for e in obs["trace"].as_array()? {
        let ret = e["ret"].as_i64().unwrap_or(0);
        if e["side"] == "child" && ret < 0 && e["call"] != "close" {
            let a = &e["args"];
            let args = [a[0].as_u64().unwrap_or(0), a[1].as_u64().unwrap_or(0), a[2].as_u64().unwrap_or(0), 0, 0, 0];
            return Some((step_name(true, e["nr"].as_i64().unwrap_or(-1), &args), (-ret) as i32));
        }
    }
    // the failing call may be missing from the trace only when the child did not get that far
    cfg.natural_failure()
}

/// Judge one run.  Returns the observation's trace (for deriving faults) when there is one.
fn judge(ctx: &Ctx, cfg: &Config, faults: &[Fault], res: &Result<Value, String>, r: &mut Report) {
    let rp = replay_of(cfg, faults);
    // the step the keys name: the deviation that must make spawn fail, else the natural failure, else the
    // (absorbable) deviation
    let step = match (faults.iter().find(|f| !f.tolerable()), cfg.natural_failure(), faults.first()) {
        (Some(f), _, _) => f.step.clone(),
        (None, Some((s, _)), _) => s,
        (None, None, Some(f)) => f.step.clone(),
        (None, None, None) if cfg.drops_both_ids() => "child-setgid".into(),
        (None, None, None) => "none".into(),
    };
    let obs = match res {
        Ok(o) => o,
        Err(e) if e == "hang" => {
            r.outcome("hang");
            if cfg.lock_held {
                r.outcome("hang-child-blocked-on-callers-lock");
                r.violation(
                    "C13:spawn:hang:child-blocked-on-callers-lock",
                    format!("another thread of the caller was inside tiny_std::eprintln! (holding tiny-std's stderr lock) when spawn forked; spawn did not return within {READ_DEADLOCK_ALARM}s (failing step: {step}): the child, a copy of the caller with that lock locked for ever, blocks on it in the caller's code and the parent waits for it"),
                    rp,
                );
                return;
            }
            if read_failure_with_stdin_pipe(cfg, faults) {
                r.outcome("hang-read-failure-with-stdin-pipe");
                r.violation(
                    "C13:spawn:hang:parent-read",
                    format!("stdin = MakePipe and the read of the exec-report pipe fails for good (errno {:?}): spawn did not return within {READ_DEADLOCK_ALARM}s — it waits for the child before it lets go of the parent's end of the child's stdin pipe, and the child (any program that reads its stdin to end-of-file, e.g. cat) waits for that end to close", faults.iter().map(|f| f.errno).collect::<Vec<_>>()),
                    rp,
                );
                return;
            }
            r.violation("C13:spawn:hang", format!("spawn (or reading the pipes / wait) did not finish within {CASE_ALARM}s; failing step: {step}"), rp);
            return;
        }
        Err(e) if e == "skipped" => {
            if r.caps_hit.is_empty() {
                r.cap(format!("{MAX_HANGS} cases hung; the remaining cases of the run were skipped"));
            }
            r.outcome("skipped-after-hangs");
            return;
        }
        Err(e) => {
            r.cap(format!("{e} (case {rp})"));
            r.notes.push("machinery-failure".into());
            return;
        }
    };
    // the planned deviation must have happened, otherwise the run says nothing
    let want_hits = (1u64 << faults.len()) - 1;
    if obs["fault_hit"].as_u64() != Some(want_hits) || obs["trace_overflow"].as_bool() == Some(true) {
        r.cap(format!("planned fault not applied (hit mask {} of {want_hits}, nr mismatch {}) in {rp}", obs["fault_hit"], obs["fault_nr_mismatch"]));
        return;
    }
    judge_call_log(obs, r, &rp);
    // (1) exactly one process continues after spawn()
    let returned = obs["returned_in_child"].as_u64().unwrap_or(0);
    if returned > 0 {
        r.outcome("returned-in-child");
        r.violation(
            &format!("C13:spawn:returned-in-child:{step}"),
            format!(
                "spawn() returned in the forked child (pid {}) as well as in the caller (pid {}): the statement after spawn() ran in {} processes{}",
                obs["fork_pid"], obs["caller"], returned + 1, if obs["child_panicked"].as_u64() == Some(1) { " (the child got there by a panic)" } else { "" }
            ),
            rp.clone(),
        );
    }
    if obs["spawn"] == "panic" {
        r.outcome("panic");
        r.violation("C13:spawn:panic", format!("spawn panicked in the caller: {}; failing step: {step}", obs["panic"]), rp);
        return;
    }
    let spawn_ok = obs["spawn"] == "ok";
    // expectation
    // an Err may carry the errno of any step that failed (injected or natural); spawn MUST fail when a
    // step failed that cannot be absorbed
    let natural = natural_of(cfg, obs, faults);
    let step = match (&natural, cfg.natural_failure().is_none() && faults.is_empty()) {
        (Some((s, _)), true) => {
            r.outcome("natural-failure-seen-in-trace-only");
            s.clone()
        }
        _ => step,
    };
    let tolerated = !faults.is_empty() && faults.iter().all(|f| f.tolerable()) && natural.is_none();
    let mut expected_errnos: Vec<i32> = faults.iter().map(|f| f.errno).collect();
    if let Some((_, e)) = &natural {
        expected_errnos.push(*e);
    }
    let either = faults.is_empty() && natural.is_none() && cfg.drops_both_ids();
    let must_fail = natural.is_some() || faults.iter().any(|f| !f.tolerable());
    if let Some(f) = faults.iter().find(|f| f.site.is_some()) {
        let times = f.site.map(|x| x.2).unwrap_or(0) as u64;
        r.outcome(if obs["site_applied"].as_u64() == Some(times) { "eintr-run-fully-retried" } else { "eintr-run-cut-short" });
    }
    if spawn_ok {
        if must_fail {
            r.outcome("ok-despite-failed-step");
            r.violation(
                &format!("C13:spawn:ok-despite-failed-step:{step}"),
                format!("step {step} failed with errno {:?} but spawn returned Ok (child pid {}, wait: {}, program dump present: {})", expected_errnos, obs["child_pid"], obs["wait"], !obs["helper"].is_null()),
                rp,
            );
            return;
        }
        if returned > 0 {
            return; // the "child" was a copy of the caller; nothing further to compare
        }
        r.outcome(if faults.is_empty() { "ok-dump-compared" } else { "ok-tolerated-fault-dump-compared" });
        judge_ok(ctx, cfg, obs, r, &rp);
        return;
    }
    // spawn returned Err
    if expected_errnos.is_empty() && !either {
        r.outcome("err-without-failed-step");
        r.violation("C13:spawn:err-without-failed-step", format!("no step failed but spawn returned {}", obs["err"]), rp);
        return;
    }
    if tolerated && !obs["helper"].is_null() {
        r.outcome("err-although-program-ran");
        r.violation(
            &format!("C13:spawn:err-although-program-ran:{step}"),
            format!("the only deviation was {step} answering errno {:?} ({} time(s)); spawn returned {} although the child executed the program", expected_errnos, obs["site_applied"].as_u64().unwrap_or(0).max(1), obs["err"]),
            rp.clone(),
        );
    }
    // (the parent's read of the report pipe happens after the fork: the child may well have exec'd by then)
    if must_fail && !obs["helper"].is_null() && step != "parent-read" {
        r.outcome("err-although-program-ran");
        r.violation(&format!("C13:spawn:err-although-program-ran:{step}"), format!("step {step} failed, spawn returned {} — but the requested program was executed", obs["err"]), rp.clone());
    }
    let accept: Vec<i32> = if either { vec![libc::EPERM] } else { expected_errnos.clone() };
    let code = obs["err"]["code"].as_i64();
    match code {
        // a step that failed without an errno (a closure returning Uncategorized / Timeout, a closure that
        // panicked): any error value tells the caller
        _ if accept.contains(&0) => r.outcome("err-for-errnoless-step"),
        Some(c) if accept.iter().any(|&e| e as i64 == c) => r.outcome(if faults.is_empty() { "err-natural-errno-relayed" } else if faults[0].child { "err-child-step-errno-relayed" } else { "err-parent-step-errno" }),
        Some(c) if accept.iter().any(|&e| -(e as i64) == c) => {
            r.outcome("err-negative-errno");
            r.violation(&format!("C13:spawn:wrong-errno:{step}"), format!("step {step} failed with errno {accept:?}; the error carries the NEGATIVE value {c} ({})", obs["err"]), rp.clone());
        }
        _ => {
            r.outcome("err-other-errno");
            r.violation(&format!("C13:spawn:wrong-errno:{step}"), format!("step {step} failed with errno {accept:?}; the error is {}", obs["err"]), rp.clone());
        }
    }
    // nobody may be left running the caller's code; when the only deviations were absorbable ones (an
    // interrupted call, a close reporting late) an Err must not leave any child behind at all
    for l in obs["left"].as_array().cloned().unwrap_or_default() {
        if tolerated {
            let alive = l["state"] != "zombie";
            r.outcome(if alive { "err-eintr-child-left-running" } else { "err-eintr-child-left-unreaped" });
            r.violation(
                if alive { "C13:spawn:err-but-child-left-running" } else { "C13:spawn:err-but-child-not-reaped" },
                format!("the only deviation was {step} answering errno {:?} ({} time(s)); spawn returned {} and left {l}", expected_errnos, obs["site_applied"].as_u64().unwrap_or(0).max(1), obs["err"]),
                rp.clone(),
            );
            continue;
        }
        match l["state"].as_str() {
            Some("zombie") => r.outcome("err-child-left-unreaped"),
            Some("alive") if l["is_helper"] == true => r.outcome("err-but-program-running"),
            Some("alive") if l["exited_by_itself"] == true => r.outcome("err-child-exiting-unreaped"),
            _ => {
                r.outcome("err-child-left-running");
                r.violation("C13:spawn:err-but-child-left-running", format!("spawn returned Err ({step}) and left {l}"), rp.clone());
            }
        }
    }
}

fn faults_of_trace(obs: &Value, thorough: bool) -> Vec<Fault> {
    let mut v = Vec::new();
    for e in obs["trace"].as_array().cloned().unwrap_or_default() {
        let child = e["side"] == "child";
        let nr = e["nr"].as_i64().unwrap_or(-1);
        let a = &e["args"];
        let args = [a[0].as_u64().unwrap_or(0), a[1].as_u64().unwrap_or(0), a[2].as_u64().unwrap_or(0), 0, 0, 0];
        for (errno, after_real) in menu(nr, &args, thorough) {
            v.push(Fault { child, idx: e["idx"].as_u64().unwrap_or(0) as usize, nr, errno, after_real, step: step_name(child, nr, &args), site: None });
        }
    }
    v
}

/// Repeated deviations: every call site of the trace that can be interrupted (read of the sync pipe,
/// wait4, dup3) answers EINTR r times in a row (r in REPEATS) and then proceeds.  r = 1 is left out where
/// the single-call menu already holds EINTR for that call.
fn site_faults_of_trace(obs: &Value, only: &[i64]) -> Vec<Fault> {
    let mut v = Vec::new();
    let mut seen: HashSet<(bool, i64, u64, u64)> = HashSet::new();
    for e in obs["trace"].as_array().cloned().unwrap_or_default() {
        let child = e["side"] == "child";
        let nr = e["nr"].as_i64().unwrap_or(-1);
        if !(nr == libc::SYS_read || nr == libc::SYS_wait4 || nr == libc::SYS_dup3) || !(only.is_empty() || only.contains(&nr)) {
            continue;
        }
        let a = &e["args"];
        let args = [a[0].as_u64().unwrap_or(0), a[1].as_u64().unwrap_or(0), a[2].as_u64().unwrap_or(0), 0, 0, 0];
        let a1 = if nr == libc::SYS_dup3 { args[1] } else { 0 };
        let a0 = if nr == libc::SYS_wait4 { 0 } else { args[0] };
        if !seen.insert((child, nr, a0, a1)) {
            continue;
        }
        let single_in_menu = menu(nr, &args, false).iter().any(|m| m.0 == libc::EINTR);
        for r in REPEATS {
            if r == 1 && single_in_menu {
                continue;
            }
            v.push(Fault { child, idx: e["idx"].as_u64().unwrap_or(0) as usize, nr, errno: libc::EINTR, after_real: false, step: step_name(child, nr, &args), site: Some((a0, a1, r)) });
        }
    }
    v
}

fn skipped(res: &Result<Value, String>) -> bool {
    matches!(res, Err(e) if e == "skipped")
}

fn short_trace(obs: &Value) -> Vec<String> {
    obs["trace"].as_array().map(|a| a.iter().map(|e| format!("{}:{}#{}", e["side"].as_str().unwrap_or("?"), e["call"].as_str().unwrap_or("?"), e["idx"])).collect()).unwrap_or_default()
}

/// fault-free run + (optionally) every single deviation (+ pairs)
fn check_config(sh: &Shard, job: &Job, r: &mut Report) {
    let cfg = &job.cfg;
    let case = replay_of(cfg, &[]);
    set_case(&case.to_string());
    let res = sh.run(cfg, &[]);
    if !job.pairs {
        // (in a pairs job the fault-free and the single-deviation runs only provide the traces;
        // they are counted and judged in the configuration's ordinary job)
        r.eval();
        if !skipped(&res) {
            r.nontrivial_unique();
        }
        judge(&sh.ctx, cfg, &[], &res, r);
    }
    let Ok(obs) = res else {
        clear_case();
        return;
    };
    let (np, nc) = obs["trace"].as_array().map(|a| (a.iter().filter(|e| e["side"] == "parent").count(), a.iter().filter(|e| e["side"] == "child").count())).unwrap_or((0, 0));
    if *cfg == Config::base() && !job.pairs {
        r.bound("base_command_intercepted_calls_parent", np as u64);
        r.bound("base_command_intercepted_calls_child", nc as u64);
        r.bound("base_command_trace", json!(short_trace(&obs)));
    }
    if *cfg == (Config { stdio: [Sm::Pipe; 3], ..Config::base() }) {
        r.bound("all_pipes_command_intercepted_calls_parent", np as u64);
        r.bound("all_pipes_command_intercepted_calls_child", nc as u64);
        r.bound("all_pipes_command_trace", json!(short_trace(&obs)));
    }
    if !job.pairs {
    r.sample(json!({"cfg": cfg.to_json(), "spawn": obs["spawn"], "err": obs["err"], "wait": obs["wait"], "calls_parent": np, "calls_child": nc,
                    "child_argv": obs["helper"]["argv"].as_array().map(|a| a.iter().map(|s| show_bytes(&unhex(s.as_str().unwrap_or("")))).collect::<Vec<_>>())}));
    }
    if !job.faults || cfg.drops_both_ids() {
        clear_case();
        return;
    }
    if cfg.natural_failure().is_some() {
        // a command that fails by itself: only the interruptible calls of the failure path (the read of the
        // sync pipe, the wait4 that reaps the failed child) are deviated, repeatedly
        if !job.pairs {
            for f in site_faults_of_trace(&obs, &[libc::SYS_read, libc::SYS_wait4]) {
                let fs = [f.clone()];
                set_case(&replay_of(cfg, &fs).to_string());
                let res1 = sh.run(cfg, &fs);
                r.eval();
                if !skipped(&res1) {
                    r.nontrivial_unique();
                }
                judge(&sh.ctx, cfg, &fs, &res1, r);
                r.outcome(&format!("eintr-run@{}", f.step));
            }
        }
        clear_case();
        return;
    }
    if obs["spawn"] != "ok" {
        // the command fails by itself for a reason only its trace shows: deviations on top of that say nothing
        clear_case();
        return;
    }
    let mut faults = faults_of_trace(&obs, job.full_menu);
    faults.extend(site_faults_of_trace(&obs, &[]));
    if job.child_only {
        // (quick, descriptor-aliasing family) one errno per child-side call, no repeated-EINTR runs: those
        // are enumerated on the 125 stdio triples
        let mut seen_idx: HashSet<usize> = HashSet::new();
        faults.retain(|f| f.child && f.site.is_none() && seen_idx.insert(f.idx));
    }
    let mut firsts: Vec<(Fault, Value)> = Vec::new();
    for f in &faults {
        let fs = [f.clone()];
        set_case(&replay_of(cfg, &fs).to_string());
        let res1 = sh.run(cfg, &fs);
        if !job.pairs {
            r.eval();
            if !skipped(&res1) {
                r.nontrivial_unique();
            }
            judge(&sh.ctx, cfg, &fs, &res1, r);
            r.outcome(&format!("{}@{}", if f.site.is_some() { "eintr-run" } else { "fault" }, f.step));
        } else if let (Ok(o1), None) = (res1, &f.site) {
            firsts.push((f.clone(), o1));
        }
    }
    // second deviation: any call the deviated run made after the first one (later on the same side, or
    // on the other side once both sides exist)
    for (f, o1) in &firsts {
        let fork_idx = o1["trace"].as_array().and_then(|a| a.iter().find(|e| e["side"] == "parent" && e["call"] == "fork").and_then(|e| e["idx"].as_u64())).map(|x| x as usize);
        for f2 in faults_of_trace(o1, true) {
            let later = if f2.child == f.child { f2.idx > f.idx } else { fork_idx.map(|k| f2.idx > k && f.idx > k).unwrap_or(false) };
            if !later {
                continue;
            }
            let fs2 = [f.clone(), f2.clone()];
            set_case(&replay_of(cfg, &fs2).to_string());
            r.eval();
            let res2 = sh.run(cfg, &fs2);
            if !skipped(&res2) {
                r.nontrivial_unique();
            }
            judge_pair(&sh.ctx, cfg, &fs2, &res2, r);
        }
    }
    clear_case();
}

/// Two deviations: the statement fixes less (which of the two errnos is reported is open), so the
/// oracle is: one process continues, no panic/hang, Ok only when both deviations are absorbable,
/// an Err carries one of the two errnos (positive), nobody is left running the caller's code.
fn judge_pair(ctx: &Ctx, cfg: &Config, faults: &[Fault], res: &Result<Value, String>, r: &mut Report) {
    let rp = replay_of(cfg, faults);
    let step = faults.iter().map(|f| f.step.as_str()).collect::<Vec<_>>().join("+");
    // the key names the step that must make spawn fail (the first one that cannot be absorbed)
    let key_step = faults.iter().find(|f| !f.tolerable()).unwrap_or(&faults[0]).step.clone();
    let obs = match res {
        Ok(o) => o,
        Err(e) if e == "hang" => {
            r.violation("C13:spawn:hang", format!("two deviations ({step}): no result within {CASE_ALARM}s"), rp);
            return;
        }
        Err(e) if e == "skipped" => {
            r.outcome("skipped-after-hangs");
            return;
        }
        Err(e) => {
            r.cap(format!("{e} (case {rp})"));
            return;
        }
    };
    // the two sides run concurrently: a deviation on one side can keep the other from being reached
    if obs["fault_hit"].as_u64().unwrap_or(0) != 3 {
        r.outcome("pair-not-both-reached");
        return;
    }
    r.outcome("pair-both-applied");
    if obs["returned_in_child"].as_u64().unwrap_or(0) > 0 {
        r.violation(&format!("C13:spawn:returned-in-child:{key_step}"), format!("two deviations ({step}): spawn() also returned in the forked child {}", obs["fork_pid"]), rp.clone());
    }
    if obs["spawn"] == "panic" {
        r.violation("C13:spawn:panic", format!("two deviations ({step}): {}", obs["panic"]), rp);
        return;
    }
    let essential: Vec<&Fault> = faults.iter().filter(|f| !f.tolerable()).collect();
    if obs["spawn"] == "ok" {
        if !essential.is_empty() {
            r.violation(&format!("C13:spawn:ok-despite-failed-step:{key_step}"), format!("two deviations ({step}): spawn returned Ok"), rp);
        } else if obs["returned_in_child"].as_u64().unwrap_or(0) == 0 {
            judge_ok(ctx, cfg, obs, r, &rp);
        }
        return;
    }
    let code = obs["err"]["code"].as_i64();
    if !faults.iter().any(|f| Some(f.errno as i64) == code) {
        r.violation(&format!("C13:spawn:wrong-errno:{key_step}"), format!("two deviations ({step}, errnos {:?}): the error is {}", faults.iter().map(|f| f.errno).collect::<Vec<_>>(), obs["err"]), rp.clone());
    }
    for l in obs["left"].as_array().cloned().unwrap_or_default() {
        match l["state"].as_str() {
            Some("zombie") => r.outcome("pair-err-child-left-unreaped"),
            Some("alive") if l["is_helper"] == true => r.outcome("pair-err-but-program-running"),
            Some("alive") if l["exited_by_itself"] == true => r.outcome("pair-err-child-exiting-unreaped"),
            _ => r.violation("C13:spawn:err-but-child-left-running", format!("two deviations ({step}): spawn returned Err and left {l}"), rp.clone()),
        }
    }
}

// ---------------------------------------------------------------------------
// the configuration family

fn b(s: &[u8]) -> Vec<u8> {
    s.to_vec()
}

fn single_factor(ctx: &Ctx) -> Vec<Config> {
    let base = Config::base();
    // natural failures first: they are the simplest cases of their keys
    let mut v = Vec::new();
    for bn in ["missing", "notexec", "dir"] {
        v.push(Config { bin: bn.into(), ..base.clone() });
    }
    v.push(base.clone());
    let mut args: Vec<Vec<Vec<u8>>> = vec![vec![], vec![b(b"--exit=3"), b(b"x")], vec![b(b"--exit=3"), b(b"")], vec![b(b""), b(b"--exit=5")], vec![b(b"--exit=4"), b(b"\xff\xfe")]];
    let mut envs: Vec<Vec<Vec<u8>>> = vec![vec![], vec![b(b"A=1")], vec![b(b"A=1"), b(b"B=two words")]];
    if ctx.thorough {
        args.extend([vec![b(b"a b"), b(b"--exit=2")], vec![b(b"--exit=0")], vec![b(b"--exit=255"), b(b"-")]]);
        envs.extend([vec![b(b"NOEQ")], vec![b(b"E=")], vec![b(b"X=\xff\x80")], vec![b(b"A=1"), b(b"A=2")], vec![b(b""), b(b"Z=1")]]);
    }
    for a in args {
        v.push(Config { args: a, ..base.clone() });
    }
    for e in envs {
        v.push(Config { env: Some(e), ..base.clone() });
    }
    if WITH_START {
        // Environment::Inherit: process environments of 0..2 entries installed through H2, alone and
        // under provided entries
        let inh: Vec<Vec<Vec<u8>>> = vec![vec![], vec![b(b"INH=1")], vec![b(b"INH=1"), b(b"HOME=/nowhere")], vec![b(b"I=\xff"), b(b"NOEQ")]];
        for i in &inh {
            v.push(Config { inherit: Some(i.clone()), ..base.clone() });
        }
        v.push(Config { inherit: Some(inh[2].clone()), env: Some(vec![]), ..base.clone() });
        v.push(Config { inherit: Some(inh[2].clone()), env: Some(vec![b(b"A=1")]), ..base.clone() });
        v.push(Config { inherit: Some(inh[2].clone()), env: Some(vec![b(b"A=1"), b(b"INH=2")]), ..base.clone() });
    }
    for c in ["missing", "dir"] {
        v.push(Config { cwd: c.into(), ..base.clone() });
    }
    for i in 0..3 {
        for m in [Sm::Inherit, Sm::Null, Sm::Pipe, Sm::Raw] {
            let mut c = base.clone();
            c.stdio[i] = m;
            v.push(c);
        }
    }
    v.push(Config { uid: "current".into(), ..base.clone() });
    v.push(Config { gid: "current".into(), ..base.clone() });
    if ctx.root_user {
        v.push(Config { uid: "nobody".into(), ..base.clone() });
        v.push(Config { gid: "nobody".into(), ..base.clone() });
        v.push(Config { uid: "nobody".into(), gid: "nobody".into(), ..base.clone() });
    }
    for p in ["zero", "own", "other"] {
        v.push(Config { pgroup: p.into(), ..base.clone() });
    }
    for c in ["ok", "fail"] {
        v.push(Config { closure: c.into(), ..base.clone() });
    }
    v
}

/// n recognisable arguments a0, a1, ...
fn ladder_args(n: usize) -> Vec<Vec<u8>> {
    (0..n).map(|i| format!("a{i}").into_bytes()).collect()
}
/// n recognisable environment entries E0=v0, E1=v1, ...
fn ladder_env(n: usize) -> Vec<Vec<u8>> {
    (0..n).map(|i| format!("E{i}=v{i}").into_bytes()).collect()
}
fn ladder_counts(thorough: bool) -> Vec<usize> {
    let mut v: Vec<usize> = (0..=if thorough { 300 } else { 70 }).collect();
    v.extend([127, 128, 129, 255, 256, 257, 1000]);
    if thorough {
        v.extend([511, 512, 513, 1023, 1024, 1025, 4096]);
    }
    v.sort();
    v.dedup();
    v
}
/// count ladders (fault-free): every number of arguments, every number of provided environment entries
fn ladders(thorough: bool) -> Vec<Config> {
    let mut v = Vec::new();
    for n in ladder_counts(thorough) {
        v.push(Config { args: ladder_args(n), ..Config::base() });
    }
    for n in ladder_counts(thorough) {
        v.push(Config { env: Some(ladder_env(n)), ..Config::base() });
    }
    v
}

/// (1) the caller has closed a non-empty subset of {0,1,2} x every stream in {Inherit, Null, MakePipe, RawFd};
/// (2) one stream is RawFd(k), k in 0..=2, the other two in {Inherit, MakePipe, Null}.  Fault-free.
/// program-path shapes x cwd: absolute is the base command; relative paths (with and without a slash)
/// that exist under the caller's cwd only / the configured cwd only / both / neither, x cwd in {unset, dir}
fn program_paths() -> Vec<Config> {
    let mut v = Vec::new();
    for (rel, _, _) in REL_PROGRAMS {
        for cwd in ["unset", "dir"] {
            v.push(Config { bin: format!("rel:{rel}"), cwd: cwd.into(), ..Config::base() });
        }
    }
    v
}

/// RawFd is borrowed: the same Command spawned twice must give the second child the file again; the
/// same RawFd may serve stdout and stderr
fn rawfd_reuse() -> (Vec<Config>, Vec<Config>) {
    let base = Config::base();
    let shared = |stdin: Sm| Config { stdio: [stdin, Sm::Raw, Sm::RawShared], ..base.clone() };
    let with_faults = vec![shared(Sm::Inherit), shared(Sm::Pipe), shared(Sm::Null), shared(Sm::Raw)];
    let mut twice = Vec::new();
    for st in [[Sm::Raw, Sm::Inherit, Sm::Inherit], [Sm::Inherit, Sm::Raw, Sm::Inherit], [Sm::Inherit, Sm::Inherit, Sm::Raw], [Sm::Raw; 3], [Sm::Inherit, Sm::Raw, Sm::RawShared], [Sm::Pipe, Sm::Raw, Sm::Pipe], [Sm::Inherit; 3]] {
        twice.push(Config { stdio: st, twice: true, ..base.clone() });
    }
    (with_faults, twice)
}

/// a few commands of different shape, to cross with the closure outcomes and the SIGCHLD dispositions
fn shape_bases() -> Vec<Config> {
    let base = Config::base();
    vec![
        base.clone(),
        Config { stdio: [Sm::Pipe; 3], ..base.clone() },
        Config { cwd: "dir".into(), uid: "current".into(), gid: "current".into(), pgroup: "zero".into(), ..base.clone() },
        // the exec-report pipe lands on 1/2
        Config { closed: [true; 3], stdio: [Sm::Inherit, Sm::Inherit, Sm::Null], ..base.clone() },
        Config { stdio: [Sm::Inherit, Sm::Pipe, Sm::Std1], ..base.clone() },
    ]
}

/// pre-exec closure outcomes {Ok, Err(Os), Err(Uncategorized), Err(Timeout), panic} as the only / first / second closure
fn closure_family() -> Vec<Config> {
    let specs = ["ok", "fail", "uncat", "timeout", "panic", "ok+fail", "ok+uncat", "ok+timeout", "ok+panic", "fail+ok", "uncat+ok", "timeout+ok", "panic+ok"];
    let mut v = Vec::new();
    for b0 in shape_bases() {
        for sp in specs {
            v.push(Config { closure: sp.into(), ..b0.clone() });
        }
    }
    v
}

/// the caller ignores SIGCHLD (SIG_IGN / handler with SA_NOCLDWAIT): (with deviations, without)
fn sigchld_family() -> (Vec<Config>, Vec<Config>) {
    let (mut with, mut without) = (Vec::new(), Vec::new());
    for disp in ["ignore", "nocldwait"] {
        for b0 in shape_bases().into_iter().take(3) {
            let c = Config { sigchld: disp.into(), ..b0 };
            with.push(c.clone());
            without.push(Config { bin: "missing".into(), ..c.clone() });
            without.push(Config { cwd: "missing".into(), ..c.clone() });
            for cl in ["fail", "uncat", "panic"] {
                without.push(Config { closure: cl.into(), ..c.clone() });
            }
        }
    }
    (with, without)
}

fn descriptor_aliasing() -> Vec<Config> {
    let mut v = Vec::new();
    let grid = [Sm::Inherit, Sm::Null, Sm::Pipe, Sm::Raw];
    for mask in 1..8u8 {
        for a in grid {
            for bb in grid {
                for c in grid {
                    v.push(Config { stdio: [a, bb, c], closed: [mask & 1 != 0, mask & 2 != 0, mask & 4 != 0], ..Config::base() });
                }
            }
        }
    }
    let others = [Sm::Inherit, Sm::Pipe, Sm::Null];
    for i in 0..3 {
        for k in [Sm::Std0, Sm::Std1, Sm::Std2] {
            for x in others {
                for y in others {
                    let mut st = [Sm::Inherit; 3];
                    st[i] = k;
                    st[(i + 1) % 3] = x;
                    st[(i + 2) % 3] = y;
                    v.push(Config { stdio: st, ..Config::base() });
                }
            }
        }
    }
    v
}

fn stdio_triples() -> Vec<Config> {
    let mut v = Vec::new();
    for a in SMS {
        for bb in SMS {
            for c in SMS {
                v.push(Config { stdio: [a, bb, c], ..Config::base() });
            }
        }
    }
    v
}

/// args x env x cwd x ids x closure x stdio triples (quick: the 64 triples without Inherit, fault-free
/// only; thorough: all 125 triples, with deviations)
fn product(thorough: bool) -> Vec<Config> {
    let args: Vec<Vec<Vec<u8>>> = vec![vec![], vec![b(b"--exit=7")], vec![b(b"--exit=3"), b(b"")]];
    let envs: Vec<Option<Vec<Vec<u8>>>> = vec![None, Some(vec![b(b"A=1")]), Some(vec![b(b"A=1"), b(b"B=two words")])];
    let mut v = Vec::new();
    for a in &args {
        for e in &envs {
            for cwd in ["unset", "dir"] {
                for ids in [false, true] {
                    for cl in ["none", "ok"] {
                        for t in stdio_triples() {
                            // quick: Inherit is left to the 125 base-command triples (`None` and
                            // `Some(Inherit)` take the same path through setup_io)
                            if !thorough && t.stdio.contains(&Sm::Inherit) {
                                continue;
                            }
                            v.push(Config {
                                bin: "helper".into(),
                                args: a.clone(),
                                env: e.clone(),
                                inherit: if WITH_START { Some(vec![b(b"INH=1"), b(b"HOME=/nowhere")]) } else { None },
                                cwd: cwd.into(),
                                stdio: t.stdio,
                                closed: [false; 3],
                                uid: if ids { "current" } else { "unset" }.into(),
                                gid: if ids { "current" } else { "unset" }.into(),
                                pgroup: if ids { "zero" } else { "unset" }.into(),
                                closure: cl.into(),
                                sigchld: "default".into(),
                                twice: false,
                                lock_held: false,
                            });
                        }
                    }
                }
            }
        }
    }
    v
}

#[derive(Clone)]
struct Job {
    cfg: Config,
    faults: bool,
    /// every errno of each call's menu (else the first one or two)
    full_menu: bool,
    pairs: bool,
    /// deviations only on the calls of the forked child (between fork and exec)
    child_only: bool,
}

fn jobs(ctx: &Ctx) -> Vec<Job> {
    let mut seen: HashSet<String> = HashSet::new();
    let mut out = Vec::new();
    let mut add = |cfg: Config, faults: bool, full_menu: bool, child_only: bool, out: &mut Vec<Job>| {
        if seen.insert(cfg.to_json().to_string()) {
            out.push(Job { cfg, faults, full_menu, pairs: false, child_only });
        }
    };
    let t = ctx.thorough;
    let piped = Config { stdio: [Sm::Pipe; 3], ..Config::base() };
    for c in single_factor(ctx) {
        add(c, true, t, false, &mut out);
    }
    for c in stdio_triples() {
        add(c, true, t, false, &mut out);
    }
    for c in program_paths() {
        add(c, true, t, false, &mut out);
    }
    // another thread holds tiny-std's stderr lock while the command fails in the child (and, for
    // completeness, while it succeeds)
    for c in [
        Config { bin: "missing".into(), lock_held: true, ..Config::base() },
        Config { cwd: "missing".into(), lock_held: true, ..Config::base() },
        Config { closure: "fail".into(), lock_held: true, ..Config::base() },
        Config { closure: "uncat".into(), lock_held: true, ..Config::base() },
        Config { bin: "missing".into(), stdio: [Sm::Pipe; 3], lock_held: true, ..Config::base() },
    ] {
        add(c, false, false, false, &mut out);
    }
    add(Config { lock_held: true, ..Config::base() }, true, t, !t, &mut out);
    let (raw_shared, raw_twice) = rawfd_reuse();
    for c in raw_shared {
        add(c, true, t, false, &mut out);
    }
    for c in raw_twice {
        add(c, false, false, false, &mut out);
    }
    for c in closure_family() {
        add(c, false, false, false, &mut out);
    }
    let (sig_faults, sig_plain) = sigchld_family();
    for c in sig_faults {
        add(c, true, t, !t, &mut out);
    }
    for c in sig_plain {
        add(c, false, false, false, &mut out);
    }
    if WITH_START {
        // the one scenario in which nobody has initialised tiny_std::env::ENV (no H2 call)
        add(Config { inherit: None, ..Config::base() }, false, false, false, &mut out);
    }
    for c in ladders(t) {
        add(c, false, false, false, &mut out);
    }
    // descriptor numbers in two roles: fault-free and with every child-side call failing (thorough: every
    // call of both sides, full menus); then the same commands with a program that does not exist (a failing
    // exec must reach the caller although the report pipe itself may sit on 0..=2)
    for c in descriptor_aliasing() {
        add(c, true, t, !t, &mut out);
    }
    for c in descriptor_aliasing() {
        add(Config { bin: "missing".into(), ..c }, t, false, false, &mut out);
    }
    for c in product(t) {
        add(c, t, false, false, &mut out);
    }
    if t {
        // pairs last, so that the single-deviation cases are the replay artefacts
        out.push(Job { cfg: Config::base(), faults: true, full_menu: true, pairs: true, child_only: false });
        out.push(Job { cfg: piped, faults: true, full_menu: true, pairs: true, child_only: false });
    }
    out
}

fn c13(args: &Args) -> Report {
    let t0 = now();
    let ctx = make_ctx(args.thorough);
    let all = jobs(&ctx);
    let n_cfg = all.iter().filter(|j| !j.pairs).count();
    let n_fault_cfg = all.iter().filter(|j| j.faults && !j.pairs && j.cfg.natural_failure().is_none() && !j.cfg.drops_both_ids()).count();
    // shards: consecutive configurations in batches (merge order = enumeration order, simplest first)
    let mut items: Vec<Isolated> = Vec::new();
    let per = if ctx.thorough { 24 } else { 48 };
    let mut batches: Vec<Vec<Job>> = Vec::new();
    let (pairs, plain): (Vec<Job>, Vec<Job>) = all.into_iter().partition(|j| j.pairs);
    for c in plain.chunks(per) {
        batches.push(c.to_vec());
    }
    for j in pairs {
        batches.push(vec![j]);
    }
    for (i, batch) in batches.into_iter().enumerate() {
        let ctx = ctx.clone();
        items.push(isolated(format!("s{i}"), move || {
            let mut r = Report::new();
            let sh = Shard::new(&ctx, &format!("s{i}"));
            for j in &batch {
                check_config(&sh, j, &mut r);
            }
            r
        }));
    }
    let n_shards = items.len();
    let mut r = run_isolated(items, &args.out, "C13");
    let _ = std::fs::remove_dir_all(&ctx.root);
    r.rule = "configuration family: single-factor variations of a base command (bin, args, env, cwd, each stdio mode per stream, uid, gid, pgroup, pre-exec closure), all 125 stdio triples of the base command, and the product args{3} x env{3} x cwd{2} x ids{2} x closure{2} x stdio triples (quick: 64 triples, fault-free; thorough: 125 triples). Every configuration is spawned through the real Command::spawn in a fresh caller process and the program's dump compared with the configuration; configurations marked for deviations are re-run once per (intercepted call of the parent or of the forked child, errno of that call's menu); thorough adds pairs of deviations for the base and the all-pipes command. Each (configuration, deviation list) is generated exactly once (duplicates removed by configuration text); every case really executes spawn (fork + exec of the dump program or the planned deviation applied, which is checked), so every case counts as non-trivial.".into();
    r.bound("tier", if args.thorough { "thorough" } else { "quick" });
    r.bound("tiny_std_start_feature", WITH_START);
    r.bound("configurations", n_cfg as u64);
    r.bound("configurations_with_fault_enumeration", n_fault_cfg as u64);
    r.bound("shards", n_shards as u64);
    r.bound("deviations", if args.thorough { "every single call of parent and child x full errno menu for the single-factor configurations and the 125 stdio triples, x 1-2 errnos for the product; pairs (second deviation after the first, full menu) for the base command and the all-pipes command" } else { "every single call of parent and child x 1-2 errnos, for every configuration" });
    r.bound("args", "0..2 arguments incl. empty string and non-UTF-8 bytes; count ladder (fault-free) n = 0..=70 (thorough 0..=300) + {127,128,129,255,256,257,1000} (thorough + 511..513, 1023..1025, 4096), argument i = \"a<i>\"; the same ladder for provided environment entries \"E<i>=v<i>\"");
    r.bound("read_failure_with_stdin_pipe", "a read of the exec-report pipe failing with EIO/EBADF is enumerated for every configuration with deviations, stdin = MakePipe included (watchdog 5 s there: a hang is C13:spawn:hang:parent-read)");
    r.bound("call_log_oracle", "in every run: each descriptor-creating call of the parent carries O_CLOEXEC itself (pipe2/openat/dup3/fcntl/socket); the child between fork and exec/exit makes only close, dup3, fcntl(F_DUPFD_CLOEXEC/F_SETFD), chdir, setuid, setgid, setpgid, execve, the 8-byte write to the report pipe, exit");
    r.bound("second_thread", "a second thread of the caller inside tiny_std::eprintln! (holding the stderr lock) while the command fails in the child (program missing, cwd missing, closure Err) or succeeds (with child-side deviations): spawn must return within 5 s");
    r.bound("rawfd_reuse", "Stdio::RawFd is borrowed: stdout and stderr on the same RawFd (x stdin Inherit/MakePipe/Null/RawFd, with deviations); the same Command spawned twice (7 stdio shapes), the second child judged");
    r.bound("closures", "pre-exec closure outcomes {Ok, Err(Os EXDEV), Err(Uncategorized), Err(Timeout), panic (unwinding)} as the only / first / second closure x 5 command shapes");
    r.bound("sigchld", "caller's SIGCHLD disposition {SIG_IGN, handler + SA_NOCLDWAIT} x 3 command shapes x {fault-free, every child-side call failing, program missing, cwd missing, closure Err(Os)/Err(Uncategorized)/panic}; Child::wait is not judged there");
    r.bound("program_paths", "absolute; relative (9 shapes: with a directory part, with ./, bare names) present under the caller's cwd only / the configured cwd only / both / neither, x cwd {unset, a directory != the caller's cwd}; which copy runs is read from /proc/self/exe of the program");
    r.bound("descriptor_aliasing", "caller closed every non-empty subset of {0,1,2} before spawn x each stream in {Inherit, Null, MakePipe, RawFd(fresh file)} (448); one stream RawFd(k), k in 0..=2, the others in {Inherit, MakePipe, Null} (81); each fault-free, with a nonexistent program (execve ENOENT), and with every child-side call (close, fcntl F_DUPFD_CLOEXEC / F_SETFD, dup3, execve) failing (thorough: every call of both sides, full menus); the program reports 0/1/2 as exec left them");
    r.bound("repeated_deviations", "every interruptible call site (read of the sync pipe, dup3, wait4 on the failure path) answers EINTR 1,2,3,5 times in a row, matched by (syscall, descriptor)");
    r.note("the harness runs under a global allocator that fills every fresh block and 16 bytes of slack behind it with 0xA5: an unterminated argv/envp vector reaches execve as a wild pointer instead of ending at an accidental zero word");
    r.bound("env", if WITH_START { "nothing given (Inherit) over an installed process environment of {none, 0, 1, 2 entries}, envs(0..2 entries) over it (thorough: entry without '=', empty value, non-UTF-8, duplicate key, empty entry)" } else { "nothing given (None), envs(0..2 entries) (thorough: entry without '=', empty value, non-UTF-8, duplicate key, empty entry)" });
    r.bound("wall_s", (t0.elapsed().as_millis() as u64) as f64 / 1000.0);
    r.note(if WITH_START {
        "built with tiny-std/start + verif-hooks: the default environment is Environment::Inherit, which reads the private static tiny_std::env::ENV.env_p; every ordinary configuration installs a process environment through hook H2 (verif_set_env) first; ONE scenario does not (the situation of every user of the std-compatible `library` feature): its child gets an empty environment, reported as C13:spawn:env-differs:inherit-with-uninitialised-ENV"
    } else {
        "built without tiny-std/start: Environment::Inherit does not exist; default environment is Environment::None"
    });
    r.note(format!("the spawned program is {}", ctx.helper_src));
    r.note("Child::wait returns the raw wait status (exit code << 8); the oracle accepts the raw status or the exit code");
    r.note("fork is a real fork (the seam does not reproduce vfork; process.rs uses fork on x86_64)");
    if !ctx.root_user {
        r.note("not running as root: uid/gid = nobody configurations left out");
    }
    r
}

// ---------------------------------------------------------------------------
// phase `waitseq`: "... and wait reports its exit status" over call sequences
//
// A child whose lifetime the harness controls: the dump program with stdin = MakePipe reads stdin
// to EOF before it ends, and the harness takes the parent's end out of `Child.stdin` and holds it
// (so that `Child::wait`, which drops `Child.stdin`, cannot release the child by itself).  Letters:
// TW = child.try_wait(), W = child.wait(), X = release.  Release mode "X": close the pipe end, then
// waitid(WEXITED|WNOWAIT) until the child HAS terminated and is still reapable ("exited" is a
// fact).  Release mode "R": close the pipe end only; the program lingers LINGER_MS after EOF, so a
// W that follows must block, and a W that returns at once is caught with the child still running.

const LINGER_MS: i32 = 60;

#[derive(Clone, Debug)]
struct WsCase {
    seq: Vec<String>,
    /// "exit7" | "exit0" | "kill9"
    status: String,
    /// "X" | "R"
    mode: String,
    /// the k-th wait4 call (over the whole sequence) answers EINTR
    fault_k: Option<usize>,
    /// how many consecutive wait4 calls, from the k-th on, answer EINTR
    times: usize,
    /// who holds the child's stdin: "held" (MakePipe, the harness holds the parent end; X releases),
    /// "inherit" (the caller's own stdin, /dev/null), "null", "pipe-kept" (MakePipe left inside `Child`),
    /// "pipe-dropped" (MakePipe, taken out and dropped by the caller), "pipe-written-kept" (written to, left inside)
    stdin: String,
    /// what the program does: "eof" (read stdin to EOF, then end), "now" (end at once), "spew-file" /
    /// "spew-pipe" (100 000 bytes to stdout = the caller's file / a pipe the caller drains), "sleep" (60 ms, then end)
    behaviour: String,
}
impl WsCase {
    fn to_json(&self) -> Value {
        json!({"op": "waitseq", "variant": if WITH_START { "start" } else { "nostart" }, "seq": self.seq, "status": self.status, "mode": self.mode, "fault_k": self.fault_k, "times": self.times, "stdin": self.stdin, "behaviour": self.behaviour})
    }
    fn from_json(v: &Value) -> WsCase {
        WsCase {
            seq: v["seq"].as_array().map(|a| a.iter().filter_map(|s| s.as_str().map(String::from)).collect()).unwrap_or_default(),
            status: v["status"].as_str().unwrap_or("exit7").into(),
            mode: v["mode"].as_str().unwrap_or("X").into(),
            fault_k: v["fault_k"].as_u64().map(|k| k as usize),
            times: v["times"].as_u64().unwrap_or(1) as usize,
            stdin: v["stdin"].as_str().unwrap_or("held").into(),
            behaviour: v["behaviour"].as_str().unwrap_or("eof").into(),
        }
    }
    /// values the API may report for the child's end: the raw wait status, or the exit-code convention
    fn accepted(&self) -> Vec<i64> {
        match self.status.as_str() {
            "exit7" => vec![7 << 8, 7],
            "exit0" => vec![0],
            _ => vec![libc::SIGKILL as i64, 128 + libc::SIGKILL as i64],
        }
    }
}

struct WaitPlan {
    fault_k: Option<usize>,
    times: usize,
    seen: usize,
    hit: bool,
    applied: usize,
}
impl sysx::Plan for WaitPlan {
    fn decide(&mut self, _idx: usize, nr: i64, _args: &[u64; 6]) -> sysx::Decision {
        if nr == libc::SYS_wait4 {
            let me = self.seen;
            self.seen += 1;
            if self.fault_k.map(|k| me >= k && me < k + self.times).unwrap_or(false) {
                self.hit = true;
                self.applied += 1;
                return sysx::Decision::Force(-(libc::EINTR as i64));
            }
        }
        sysx::Decision::Pass
    }
}

/// "running" | "zombie" (terminated, reapable) | "gone" (no such child: reaped)
unsafe fn child_state(pid: i32) -> &'static str {
    let mut info: libc::siginfo_t = std::mem::zeroed();
    loop {
        let r = libc::waitid(libc::P_PID, pid as libc::id_t, &mut info, libc::WEXITED | libc::WNOHANG | libc::WNOWAIT);
        if r < 0 {
            match *libc::__errno_location() {
                libc::EINTR => continue,
                libc::ECHILD => return "gone",
                _ => return "error",
            }
        }
        return if info.si_pid() == 0 { "running" } else { "zombie" };
    }
}

fn err_json(e: &tiny_std::Error) -> Value {
    match e {
        tiny_std::Error::Os { msg, code } => json!({"kind": "os", "code": code.raw(), "msg": msg}),
        tiny_std::Error::Uncategorized(m) => json!({"kind": "uncategorized", "msg": m}),
        tiny_std::Error::Timeout => json!({"kind": "timeout"}),
    }
}

/// Runs in P (never returns).
fn exec_waitseq(ctx: &Ctx, sdir: &str, shm: *mut Shm, case: &WsCase) -> ! {
    unsafe {
        libc::setpgid(0, 0);
        libc::alarm(CASE_ALARM);
        let f = |n: &str| format!("{sdir}/{n}");
        write_file(&f("in0"), PARENT_STDIN);
        write_file(&f("out1"), b"");
        write_file(&f("err2"), b"");
        write_file(&f("report"), b"");
        let ok = open_at_fd(&f("in0"), libc::O_RDONLY, 0)
            && open_at_fd(&f("out1"), libc::O_WRONLY, 1)
            && open_at_fd(&f("err2"), libc::O_WRONLY, 2)
            && open_at_fd(&f("report"), libc::O_WRONLY, REPORT_FD);
        if !ok {
            finish(shm, &json!({"machinery": "could not set up P's descriptors"}));
        }
        let bin_b = nul(ctx.helper.as_bytes());
        let status_arg = nul(match case.status.as_str() {
            "exit7" => b"--exit=7".as_slice(),
            "exit0" => b"--exit=0".as_slice(),
            _ => b"--kill=9".as_slice(),
        });
        let linger_arg = nul(format!("--linger={LINGER_MS}").as_bytes());
        let no_stdin_arg = nul(b"--no-stdin");
        let spew_arg = nul(b"--spew=100000");
        let mut cmd = Command::new(UnixStr::try_from_bytes(&bin_b).expect("bin")).expect("Command::new");
        cmd.arg(UnixStr::try_from_bytes(&status_arg).expect("arg"));
        if case.mode == "R" || case.behaviour == "sleep" {
            cmd.arg(UnixStr::try_from_bytes(&linger_arg).expect("arg"));
        }
        if case.behaviour != "eof" {
            cmd.arg(UnixStr::try_from_bytes(&no_stdin_arg).expect("arg"));
        }
        if case.behaviour.starts_with("spew") {
            cmd.arg(UnixStr::try_from_bytes(&spew_arg).expect("arg"));
        }
        if case.behaviour == "spew-pipe" {
            cmd.stdout(Stdio::MakePipe);
        }
        match case.stdin.as_str() {
            "inherit" => {
                if !open_at_fd("/dev/null", libc::O_RDONLY, 0) {
                    finish(shm, &json!({"machinery": "could not open /dev/null as the caller's stdin"}));
                }
            }
            "null" => {
                cmd.stdin(Stdio::Null);
            }
            _ => {
                cmd.stdin(Stdio::MakePipe);
            }
        }
        // the spawn itself is not the subject here: no seam
        let mut child = match catch(|| cmd.spawn()) {
            Ok(Ok(c)) => c,
            Ok(Err(e)) => finish(shm, &json!({"machinery": format!("spawn of the controlled child failed: {e}")})),
            Err(p) => finish(shm, &json!({"machinery": format!("spawn of the controlled child panicked: {p}")})),
        };
        let pid = child.get_pid();
        let mut hold = None;
        match case.stdin.as_str() {
            "held" => {
                // the harness, not `Child`, decides when the child's stdin reaches EOF
                hold = child.stdin.take();
                if hold.is_none() {
                    finish(shm, &json!({"machinery": "Child.stdin is None although stdin = MakePipe"}));
                }
            }
            "pipe-dropped" => drop(child.stdin.take()),
            "pipe-written-kept" => {
                if let Some(p) = &child.stdin {
                    let fd = p.borrow_fd().as_raw_fd().value();
                    libc::write(fd, PIPE_STDIN.as_ptr() as *const libc::c_void, PIPE_STDIN.len());
                }
            }
            _ => {}
        }
        if case.behaviour == "spew-pipe" {
            // a caller that drains the child's output before it waits
            if let Some(p) = child.stdout.take() {
                let (d, _) = read_fd_all(p.borrow_fd().as_raw_fd().value());
                if d.len() < 100_000 {
                    finish(shm, &json!({"machinery": format!("drained only {} bytes of the program's output", d.len())}));
                }
            }
        }
        let mut plan = WaitPlan { fault_k: case.fault_k, times: case.times, seen: 0, hit: false, applied: 0 };
        let mut recs: Vec<Value> = Vec::new();
        for (step_no, op) in case.seq.iter().enumerate() {
            (*shm).ws_progress.store(((step_no as u32 + 1) << 8) | op.as_bytes()[0] as u32, SeqCst);
            let seen_before = plan.seen;
            let applied_before = plan.applied;
            let mut rec = json!({"op": op});
            match op.as_str() {
                "X" => {
                    drop(hold.take());
                    if case.mode == "X" {
                        let mut info: libc::siginfo_t = std::mem::zeroed();
                        loop {
                            let r = libc::waitid(libc::P_PID, pid as libc::id_t, &mut info, libc::WEXITED | libc::WNOWAIT);
                            if r < 0 && *libc::__errno_location() == libc::EINTR {
                                continue;
                            }
                            rec["waitid"] = if r < 0 { json!({"errno": *libc::__errno_location()}) } else { json!({"code": info.si_code, "status": info.si_status()}) };
                            break;
                        }
                    }
                }
                "TW" => {
                    rec["result"] = match catch(|| sysx::run(&mut plan, || child.try_wait()).0) {
                        Ok(Ok(None)) => json!({"none": true}),
                        Ok(Ok(Some(s))) => json!({"status": s}),
                        Ok(Err(e)) => json!({"err": err_json(&e)}),
                        Err(p) => json!({"panic": p}),
                    };
                }
                _ => {
                    rec["result"] = match catch(|| sysx::run(&mut plan, || child.wait()).0) {
                        Ok(Ok(s)) => json!({"status": s}),
                        Ok(Err(e)) => json!({"err": err_json(&e)}),
                        Err(p) => json!({"panic": p}),
                    };
                }
            }
            rec["state_after"] = json!(child_state(pid));
            rec["wait4_calls"] = json!(plan.seen - seen_before);
            rec["fault_here"] = json!(plan.applied > applied_before);
            recs.push(rec);
        }
        (*shm).ws_progress.store(0, SeqCst);
        // clean up: release, let it end, reap whatever the API left
        let final_state = child_state(pid);
        drop(hold.take());
        drop(child.stdin.take());
        let mut st = 0;
        let reaped_by_harness = loop {
            let r = libc::waitpid(pid, &mut st, 0);
            if r < 0 && *libc::__errno_location() == libc::EINTR {
                continue;
            }
            break r == pid;
        };
        let dump = read_file(&f("report"));
        let obs = json!({
            "pid": pid, "recs": recs, "state_before_cleanup": final_state, "reaped_by_harness": reaped_by_harness, "real_status": if reaped_by_harness { json!(st) } else { Value::Null },
            "fault_hit": plan.hit, "wait4_total": plan.seen, "program_ran": !dump.is_empty(),
        });
        finish(shm, &obs);
    }
}

/// run one waitseq case; a hang is reported with the step it happened in ("hang@<step>:<letter>")
fn run_waitseq(sh: &Shard, case: &WsCase) -> Result<Value, String> {
    let res = sh.run_p(|| exec_waitseq(&sh.ctx, &sh.sdir, sh.shm, case));
    match res {
        Err(e) if e == "hang" => {
            let p = unsafe { (*sh.shm).ws_progress.load(SeqCst) };
            Err(if p == 0 { "hang@outside:-".to_string() } else { format!("hang@{}:{}", (p >> 8) - 1, (p & 0xff) as u8 as char) })
        }
        other => other,
    }
}

fn judge_waitseq(case: &WsCase, res: &Result<Value, String>, r: &mut Report) {
    let rp = case.to_json();
    let what = format!("[{}] on a child ({}, stdin {}) that ends with {} (release mode {}{})", case.seq.join(" "), case.behaviour, case.stdin, case.status, case.mode, case.fault_k.map(|k| format!(", wait4 #{k} answers EINTR {}x in a row", case.times)).unwrap_or_default());
    let obs = match res {
        Ok(o) => o,
        Err(e) if e.starts_with("hang") => {
            r.outcome("hang");
            // a wait that never reports: the step that hung is a W (the child's end was in nobody's way: every
            // enumerated case is one where the caller does not block the child itself)
            if e.ends_with(":W") {
                r.violation("C13:wait:never-returns", format!("{what}: wait did not return within {CASE_ALARM}s ({e})"), rp);
            } else {
                r.violation("C13:waitseq:hang", format!("{what}: no result within {CASE_ALARM}s ({e})"), rp);
            }
            return;
        }
        Err(e) if e == "skipped" => {
            if r.caps_hit.is_empty() {
                r.cap(format!("{MAX_HANGS} cases hung; the remaining cases of the run were skipped"));
            }
            r.outcome("skipped-after-hangs");
            return;
        }
        Err(e) => {
            r.cap(format!("{e} (case {rp})"));
            r.notes.push("machinery-failure".into());
            return;
        }
    };
    if case.fault_k.is_some() && obs["fault_hit"] != true {
        r.cap(format!("planned EINTR not applied in {rp}"));
        return;
    }
    let accepted = case.accepted();
    // only with stdin "held" the harness knows when the child ends; otherwise the child is free to end
    // whenever its behaviour lets it (try_wait may see it running or ended)
    let strict = case.mode == "X" && case.stdin == "held";
    let mut released = case.stdin != "held";
    let mut got: Option<i64> = None; // the status the API has reported so far
    let mut flagged: HashSet<&'static str> = HashSet::new();
    let mut viol = |r: &mut Report, key: &'static str, desc: String| {
        if flagged.insert(key) {
            r.violation(key, desc, rp.clone());
        }
    };
    for (i, rec) in obs["recs"].as_array().cloned().unwrap_or_default().iter().enumerate() {
        let op = rec["op"].as_str().unwrap_or("?");
        let state = rec["state_after"].as_str().unwrap_or("?");
        let at = format!("{what}: step {i} ({op})");
        if op == "X" {
            released = true;
            if strict {
                // cross-check of the set-up: the child ended the way it was told to
                let (code, st) = (rec["waitid"]["code"].as_i64(), rec["waitid"]["status"].as_i64());
                let fine = match case.status.as_str() {
                    "exit7" => code == Some(libc::CLD_EXITED as i64) && st == Some(7),
                    "exit0" => code == Some(libc::CLD_EXITED as i64) && st == Some(0),
                    _ => code == Some(libc::CLD_KILLED as i64) && st == Some(libc::SIGKILL as i64),
                };
                if !fine && got.is_none() {
                    r.cap(format!("{at}: the controlled child did not end as told: {}", rec["waitid"]));
                    r.notes.push("machinery-failure".into());
                    return;
                }
            }
            continue;
        }
        let res = &rec["result"];
        if !res["panic"].is_null() {
            r.outcome("panic");
            viol(r, "C13:waitseq:panic", format!("{at} panicked: {}", res["panic"]));
            return;
        }
        if !released && state != "running" && got.is_none() {
            r.cap(format!("{at}: the controlled child ended before it was released (state {state})"));
            r.notes.push("machinery-failure".into());
            return;
        }
        if !res["err"].is_null() {
            // an interrupted wait4 may be surfaced; nothing else may fail
            if rec["fault_here"] == true && res["err"]["code"].as_i64() == Some(libc::EINTR as i64) {
                r.outcome("eintr-surfaced");
            } else {
                viol(r, "C13:wait:wrong-status", format!("{at} returned {}", res["err"]));
            }
        } else if res["none"] == true {
            // only try_wait
            if let Some(g) = got {
                viol(r, "C13:wait:status-changes-between-calls", format!("{at} returned None after status {g} had been reported"));
            } else if released && strict {
                viol(r, "C13:try_wait:none-after-exit", format!("{at} returned None although the child had terminated (state after: {state})"));
            } else {
                r.outcome(if released { "try_wait-none-while-lingering" } else { "try_wait-none-while-running" });
            }
        } else if let Some(s) = res["status"].as_i64() {
            if !released {
                viol(r, "C13:try_wait:some-while-running", format!("{at} returned Some({s}) while the child was blocked on its stdin"));
            } else {
                if state == "running" {
                    let key = if op == "W" { "C13:wait:returned-before-exit" } else { "C13:try_wait:some-while-running" };
                    viol(r, key, format!("{at} returned {s} while the child was still running"));
                }
                if !accepted.contains(&s) {
                    viol(r, "C13:wait:wrong-status", format!("{at} returned {s}; the child's end is {} (accepted values {accepted:?})", case.status));
                }
            }
            match got {
                Some(g) if g != s => viol(r, "C13:wait:status-changes-between-calls", format!("{at} returned {s}, an earlier call returned {g}")),
                _ => {}
            }
            got = Some(s);
            r.outcome(match (op, accepted.first() == Some(&s)) {
                ("W", true) => "wait-raw-status",
                ("W", false) => "wait-other-value",
                (_, true) => "try_wait-some-raw-status",
                _ => "try_wait-some-other-value",
            });
        }
        // once a status has been reported the child must have been reaped
        if got.is_some() && state == "zombie" {
            viol(r, "C13:wait:child-not-reaped", format!("{at}: a status has been reported but the child is still an unreaped zombie"));
        }
    }
    // (a child still running at the end was never released: reporting a status for it is flagged above)
    if got.is_some() && obs["state_before_cleanup"] == "zombie" {
        viol(r, "C13:wait:child-not-reaped", format!("{what}: at the end the child is {} (waitpid by the harness reaped it: {})", obs["state_before_cleanup"], obs["reaped_by_harness"]));
    }
    r.outcome(match (got.is_some(), obs["state_before_cleanup"].as_str()) {
        (true, Some("gone")) => "end-reported-and-reaped",
        (true, _) => "end-reported-not-reaped",
        (false, _) => "end-never-reported",
    });
}

fn ws_sequences(max_len: usize) -> Vec<Vec<String>> {
    let mut out = Vec::new();
    for_each_seq(3, max_len, |ix| {
        if ix.is_empty() {
            return;
        }
        let s: Vec<&str> = ix.iter().map(|&i| ["TW", "W", "X"][i]).collect();
        // one release; a W before it would block for ever
        let xs = s.iter().filter(|&&o| o == "X").count();
        let first_x = s.iter().position(|&o| o == "X").unwrap_or(s.len());
        if xs > 1 || s[..first_x].contains(&"W") {
            return;
        }
        out.push(s.into_iter().map(String::from).collect());
    });
    out
}

fn waitseq(args: &Args) -> Report {
    let t0 = now();
    let ctx = make_ctx(args.thorough);
    let max_len = if args.thorough { 6 } else { 4 };
    let seqs = ws_sequences(max_len);
    let mut groups: Vec<WsCase> = Vec::new();
    for s in &seqs {
        for st in ["exit7", "exit0", "kill9"] {
            for mode in ["X", "R"] {
                if mode == "R" && !s.contains(&"X".to_string()) {
                    continue; // without a release both modes are the same case
                }
                groups.push(WsCase { seq: s.clone(), status: st.into(), mode: mode.into(), fault_k: None, times: 1, stdin: "held".into(), behaviour: "eof".into() });
            }
        }
    }
    // children that end by themselves (or when `wait` lets them): every sequence over {TW, W} x what the
    // program does x who holds its stdin.  No case here is one where the CALLER blocks the child: output
    // larger than a pipe goes to a file or is drained first, a stdin pipe left inside `Child` is `wait`'s to close.
    let mut free_seqs: Vec<Vec<String>> = Vec::new();
    for_each_seq(2, if args.thorough { 4 } else { 3 }, |ix| {
        if !ix.is_empty() {
            free_seqs.push(ix.iter().map(|&i| ["TW", "W"][i].to_string()).collect());
        }
    });
    let n_free_seqs = free_seqs.len();
    for s in &free_seqs {
        for (behaviour, statuses) in [("now", vec!["exit7"]), ("eof", vec!["exit7", "exit0", "kill9"]), ("spew-file", vec!["exit7"]), ("spew-pipe", vec!["exit7"]), ("sleep", vec!["exit7"])] {
            for st in statuses {
                for stdin in ["inherit", "null", "pipe-kept", "pipe-dropped", "pipe-written-kept"] {
                    groups.push(WsCase { seq: s.clone(), status: st.into(), mode: "X".into(), fault_k: None, times: 1, stdin: stdin.into(), behaviour: behaviour.into() });
                }
            }
        }
    }
    let n_groups = groups.len();
    let per = (n_groups / (3 * n_workers()).max(1)).max(4);
    let thorough = args.thorough;
    let mut items = Vec::new();
    for (i, chunk) in groups.chunks(per).enumerate() {
        let ctx = ctx.clone();
        let chunk = chunk.to_vec();
        items.push(isolated(format!("w{i}"), move || {
            let mut r = Report::new();
            let sh = Shard::new(&ctx, &format!("w{i}"));
            for template in &chunk {
                let mut case = template.clone();
                // fault-free first (it tells how many wait4 calls the sequence makes), then EINTR runs:
                // from the first wait4 call 1, 2, 3, 5 times in a row (thorough: from every call)
                let mut todo: Vec<(Option<usize>, usize)> = vec![(None, 1)];
                let mut i = 0;
                while i < todo.len() {
                    (case.fault_k, case.times) = todo[i];
                    i += 1;
                    set_case(&case.to_json().to_string());
                    r.eval();
                    let res = run_waitseq(&sh, &case);
                    if !skipped(&res) {
                        r.nontrivial_unique();
                    }
                    judge_waitseq(&case, &res, &mut r);
                    if case.fault_k.is_none() {
                        let n_wait4 = res.as_ref().ok().and_then(|o| o["wait4_total"].as_u64()).unwrap_or(0) as usize;
                        if r.samples.len() < 3 {
                            if let Ok(o) = &res {
                                r.sample(json!({"case": case.to_json(), "steps": o["recs"]}));
                            }
                        }
                        for k in 0..n_wait4.min(if thorough { usize::MAX } else { 1 }) {
                            for t in REPEATS {
                                // (free-running children: one interrupted wait4, thorough: two as well)
                                if case.stdin != "held" && t > if thorough { 2 } else { 1 } {
                                    continue;
                                }
                                todo.push((Some(k), t));
                            }
                        }
                    }
                }
            }
            clear_case();
            r
        }));
    }
    let mut r = run_isolated(items, &args.out, "C13");
    let _ = std::fs::remove_dir_all(&ctx.root);
    r.rule = "all sequences of 1..=L letters over {TW = try_wait, W = wait, X = release the child} with one release at most and no W before it, on a child that reads its stdin pipe (whose parent end the harness holds) to EOF and then ends as told; x the child's end {exit 7, exit 0, SIGKILL} x release mode {X: close + waitid(WNOWAIT) until terminated, R: close only, the program lingers} x {no fault, EINTR on the k-th wait4 call}. Reference: before the release try_wait = None and nothing is reaped; after it the first W/TW reports the child's real status and reaps, every later call repeats it. Second family: children that end by themselves or when wait closes their stdin (see bounds.free_running_children): wait must return the real status within the watchdog, try_wait may see the child running or ended, then the same repeat/reap rules. Each case is generated once and really executes the sequence (non-trivial).".into();
    r.bound("tier", if args.thorough { "thorough" } else { "quick" });
    r.bound("tiny_std_start_feature", WITH_START);
    r.bound("max_sequence_length", max_len as u64);
    r.bound("sequences", seqs.len() as u64);
    r.bound("sequence_x_status_x_mode", n_groups as u64);
    r.bound("free_running_children", format!("{n_free_seqs} sequences over {{TW, W}} (length <= {}) x program {{ends at once, reads stdin to EOF then exit 7 / exit 0 / SIGKILL, 100000 bytes to stdout (the caller's file / a pipe drained first), sleeps 60 ms}} x stdin {{Inherit(/dev/null), Null, MakePipe left in Child, MakePipe dropped by the caller, MakePipe written to and left in Child}}", if args.thorough { 4 } else { 3 }));
    r.bound("wait4_faults", if args.thorough { "EINTR 1,2,3,5 times in a row starting at each wait4 call of the sequence" } else { "EINTR 1,2,3,5 times in a row starting at the first wait4 call" });
    r.bound("linger_ms", LINGER_MS as u64);
    r.bound("wall_s", (t0.elapsed().as_millis() as u64) as f64 / 1000.0);
    r.note("Process::wait / try_wait have no cfg(feature = \"start\") difference: one build decides this phase");
    r.note("a W that returns early in release mode R is only caught while the program still lingers (60 ms): a miss is possible under extreme load, a false alarm is not");
    r
}

fn replay_waitseq(v: &Value) -> Report {
    let ctx = make_ctx(true);
    let case = WsCase::from_json(v);
    let sh = Shard::new(&ctx, "replay");
    let mut r = Report::new();
    let res = run_waitseq(&sh, &case);
    judge_waitseq(&case, &res, &mut r);
    let _ = std::fs::remove_dir_all(&ctx.root);
    match &res {
        Ok(o) => println!("observation: {}", serde_json::to_string_pretty(o).unwrap()),
        Err(e) => println!("no observation: {e}"),
    }
    r
}

fn replay(v: &Value) -> Report {
    if v["op"] == "waitseq" {
        return replay_waitseq(v);
    }
    let ctx = make_ctx(true);
    let cfg = Config::from_json(&v["cfg"]);
    let faults: Vec<Fault> = v["faults"].as_array().map(|a| a.iter().map(Fault::from_json).collect()).unwrap_or_default();
    if let Some(var) = v["variant"].as_str() {
        if (var == "start") != WITH_START {
            eprintln!("note: the case was recorded with variant {var}; this binary is {}", if WITH_START { "start" } else { "nostart" });
        }
    }
    let sh = Shard::new(&ctx, "replay");
    let mut r = Report::new();
    let res = sh.run(&cfg, &faults);
    if faults.len() >= 2 {
        judge_pair(&ctx, &cfg, &faults, &res, &mut r);
    } else {
        judge(&ctx, &cfg, &faults, &res, &mut r);
    }
    let _ = std::fs::remove_dir_all(&ctx.root);
    match &res {
        Ok(o) => {
            let mut o2 = o.clone();
            let tr = short_trace(o);
            o2["trace"] = json!(tr);
            println!("observation: {}", serde_json::to_string_pretty(&o2).unwrap());
        }
        Err(e) => println!("no observation: {e}"),
    }
    r
}

pub fn main() {
    // exec'd under the helper's name (a copy of this executable): behave as the dump program
    if helper::is_helper_exe() {
        helper::helper_main();
    }
    let args = parse_args();
    install_panic_hook();
    if let Some(p) = &args.replay {
        let v = read_replay(p);
        let r = replay(&v);
        println!("{}", serde_json::to_string_pretty(&r.to_json()).unwrap());
        std::process::exit(if r.violations.is_empty() { 0 } else { 1 });
    }
    let phase = args.phase.clone().unwrap_or_else(|| if WITH_START { "c13-start".into() } else { "c13".into() });
    let r = match (phase.as_str(), WITH_START) {
        ("c13", false) | ("c13-start", true) => c13(&args),
        ("waitseq", _) => waitseq(&args),
        ("c13", true) | ("c13-start", false) => {
            let mut r = Report::new();
            r.cap(format!("phase {phase} needs the {} build of h-spawn (this binary: with-start = {WITH_START})", if WITH_START { "plain" } else { "--features with-start (bin h-spawn-start)" }));
            r.notes.push("machinery-failure".into());
            r
        }
        _ => panic!("unknown phase {phase}"),
    };
    r.write(&args.out);
}
