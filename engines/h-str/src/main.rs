//! C10 (NUL discipline of every UnixStr/UnixString) and C11 (search / path
//! operations vs. their byte-string definitions): bounded-exhaustive enumeration
//! (engine E4) over all strings / all pairs up to a length bound, operands placed
//! against guard pages so that an out-of-argument read faults.

use common::*;
use rusl::string::unix_str::{UnixStr, UnixString};
use rusl::unix_lit;
use serde_json::json;

const SIGMA10: &[u8] = &[0, b'/', b'a', 0xff];
const SIGMA11: &[u8] = &[b'a', b'b', b'/', b'.'];

fn main() {
    let args = parse_args();
    install_panic_hook();
    if let Some(p) = &args.replay {
        let v = read_replay(p);
        let mut r = Report::new();
        replay(&v, &mut r);
        println!("{}", serde_json::to_string_pretty(&r.to_json()).unwrap());
        std::process::exit(if r.violations.is_empty() { 0 } else { 1 });
    }
    let phase = args.phase.clone().unwrap_or_else(|| "c10".into());
    let r = match phase.as_str() {
        "c10" => c10(&args),
        "c11" => c11(&args),
        _ => panic!("unknown phase"),
    };
    r.write(&args.out);
}

// ---------------------------------------------------------------------------
// C10

/// The oracle on the raw slice.  `exactly_one`: the value came from a NUL-free input
/// (or from a constructor that must reject interior NULs), so the only NUL is the last byte.
fn wf(raw: &[u8], exactly_one: bool, intended: Option<&[u8]>) -> Result<(), &'static str> {
    match raw.last() {
        Some(0) => {}
        _ => return Err("last-byte-not-nul"),
    }
    if exactly_one && raw[..raw.len() - 1].contains(&0) {
        return Err("interior-nul");
    }
    if let Some(want) = intended {
        if &raw[..raw.len() - 1] != want {
            return Err("content-differs-from-input");
        }
    }
    Ok(())
}

fn strip_nul(s: &[u8]) -> &[u8] {
    match s.last() {
        Some(0) => &s[..s.len() - 1],
        _ => s,
    }
}
fn interior_nul(s: &[u8]) -> bool {
    strip_nul(s).contains(&0)
}

fn c10_unary(op: &str, s: &[u8], r: &mut Report) {
    r.eval();
    let case = json!({"op": op, "a": show_bytes(s)});
    set_case(&case.to_string());
    let bad_input = interior_nul(s);
    let intended = strip_nul(s).to_vec();
    let utf8 = std::str::from_utf8(s).ok();
    // (result raw slice or None for Err) ; None for "not applicable"
    let res: Option<Result<Option<Vec<u8>>, String>> = match op {
        "UnixStr::try_from_bytes" => Some(catch(|| UnixStr::try_from_bytes(s).ok().map(|u| u.as_slice().to_vec()))),
        "UnixStr::try_from_str" => utf8.map(|t| catch(|| UnixStr::try_from_str(t).ok().map(|u| u.as_slice().to_vec()))),
        "UnixString::try_from_bytes" => Some(catch(|| UnixString::try_from_bytes(s).ok().map(|u| u.as_slice().to_vec()))),
        "UnixString::try_from_vec" => Some(catch(|| UnixString::try_from_vec(s.to_vec()).ok().map(|u| u.as_slice().to_vec()))),
        "UnixString::try_from_str" => utf8.map(|t| catch(|| UnixString::try_from_str(t).ok().map(|u| u.as_slice().to_vec()))),
        "UnixString::try_from_string" => {
            utf8.map(|t| catch(|| UnixString::try_from_string(t.to_string()).ok().map(|u| u.as_slice().to_vec())))
        }
        "UnixString::from_str" => {
            utf8.map(|t| catch(|| <UnixString as std::str::FromStr>::from_str(t).ok().map(|u| u.as_slice().to_vec())))
        }
        _ => unreachable!(),
    };
    clear_case();
    let Some(res) = res else { return };
    r.nontrivial_unique();
    match res {
        Err(p) => {
            r.outcome("panic");
            r.violation(&format!("C10:{op}:panic"), format!("{op}({}) panicked: {p}", show_bytes(s)), case);
        }
        Ok(None) => {
            r.outcome(if bad_input { "err-interior-nul" } else { "err-other" });
        }
        Ok(Some(raw)) => {
            if bad_input {
                r.outcome("accepted-bad");
                r.violation(
                    &format!("C10:{op}:accepted-interior-nul"),
                    format!("{op}({}) = Ok({}) although the input has a NUL before its end", show_bytes(s), show_bytes(&raw)),
                    case,
                );
                return;
            }
            r.outcome("ok");
            if let Err(why) = wf(&raw, true, Some(&intended)) {
                r.violation(
                    &format!("C10:{op}:{why}"),
                    format!("{op}({}) = raw {}", show_bytes(s), show_bytes(&raw)),
                    case,
                );
            }
        }
    }
}

fn c10_format(s: &str, variant: usize, r: &mut Report) {
    r.eval();
    r.nontrivial_unique();
    let op = ["from_format{}", "from_format{}{}", "from_format-lit-nul"][variant];
    let case = json!({"op": op, "a": show_bytes(s.as_bytes())});
    set_case(&case.to_string());
    let (res, intended): (Result<Vec<u8>, String>, Vec<u8>) = match variant {
        0 => (catch(|| UnixString::from_format(format_args!("{s}")).as_slice().to_vec()), strip_nul(s.as_bytes()).to_vec()),
        1 => {
            // two fragments: split in the middle (char boundary)
            let mut mid = s.len() / 2;
            while !s.is_char_boundary(mid) {
                mid -= 1;
            }
            let (x, y) = s.split_at(mid);
            (catch(|| UnixString::from_format(format_args!("{x}{y}")).as_slice().to_vec()), strip_nul(s.as_bytes()).to_vec())
        }
        _ => (catch(|| UnixString::from_format(format_args!("{s}\0")).as_slice().to_vec()), s.as_bytes().to_vec()),
    };
    clear_case();
    match res {
        Err(p) => r.violation(&format!("C10:{op}:panic"), format!("{op}({}) panicked: {p}", show_bytes(s.as_bytes())), case),
        Ok(raw) => {
            let nul_free = !s.as_bytes().contains(&0);
            r.outcome(if nul_free { "format-nulfree" } else { "format-with-nul" });
            // inputs with NULs: only the terminator is required
            let chk = wf(&raw, nul_free, if nul_free { Some(&intended) } else { None });
            if let Err(why) = chk {
                r.violation(&format!("C10:{op}:{why}"), format!("{op}({}) = raw {}", show_bytes(s.as_bytes()), show_bytes(&raw)), case);
            }
        }
    }
}

fn c10_checked(s: &str, r: &mut Report) {
    r.eval();
    r.nontrivial_unique();
    let case = json!({"op": "from_str_checked", "a": show_bytes(s.as_bytes())});
    set_case(&case.to_string());
    let res = catch(|| UnixStr::from_str_checked(s).as_slice().to_vec());
    clear_case();
    match res {
        Err(_) => r.outcome("checked-panic(documented)"),
        Ok(raw) => {
            r.outcome("checked-ok");
            if let Err(why) = wf(&raw, true, None) {
                r.violation(
                    &format!("C10:from_str_checked:{why}"),
                    format!("from_str_checked({}) accepted; raw {}", show_bytes(s.as_bytes()), show_bytes(&raw)),
                    case,
                );
            }
        }
    }
}

/// unary operations on a valid value
fn c10_on_valid(v: &[u8], r: &mut Report) {
    // v is the raw form: content + NUL, content NUL-free
    let u = unsafe { UnixStr::from_bytes_unchecked(v) };
    for op in ["parent_path", "path_file_name", "UnixString::from", "from_ptr", "as_ref"] {
        r.eval();
        r.nontrivial_unique();
        let case = json!({"op": op, "a": show_bytes(v)});
        set_case(&case.to_string());
        let res: Result<Option<Vec<u8>>, String> = match op {
            "parent_path" => catch(|| u.parent_path().map(|p| p.as_slice().to_vec())),
            "path_file_name" => catch(|| u.path_file_name().map(|p| p.as_slice().to_vec())),
            "UnixString::from" => catch(|| Some(UnixString::from(u).as_slice().to_vec())),
            "from_ptr" => catch(|| Some(unsafe { UnixStr::from_ptr(v.as_ptr()) }.as_slice().to_vec())),
            _ => catch(|| {
                let us = UnixString::from(u);
                let rf: &UnixStr = us.as_ref();
                Some(rf.as_slice().to_vec())
            }),
        };
        clear_case();
        match res {
            Err(p) => r.violation(&format!("C10:{op}:panic"), format!("{op}({}) panicked: {p}", show_bytes(v)), case),
            Ok(None) => r.outcome(&format!("{op}:none")),
            Ok(Some(raw)) => {
                r.outcome(&format!("{op}:some"));
                if let Err(why) = wf(&raw, true, None) {
                    r.violation(&format!("C10:{op}:{why}"), format!("{op}({}) = raw {}", show_bytes(v), show_bytes(&raw)), case);
                }
            }
        }
    }
}

fn c10_pair(a: &[u8], b: &[u8], r: &mut Report) {
    let ua = unsafe { UnixStr::from_bytes_unchecked(a) };
    let ub = unsafe { UnixStr::from_bytes_unchecked(b) };
    for op in ["path_join", "path_join_fmt", "path_join_fmt-lit-nul"] {
        let bs = std::str::from_utf8(&b[..b.len() - 1]);
        if op != "path_join" && bs.is_err() {
            continue;
        }
        r.eval();
        r.nontrivial_unique();
        let case = json!({"op": op, "a": show_bytes(a), "b": show_bytes(b)});
        set_case(&case.to_string());
        let res = match op {
            "path_join" => catch(|| ua.path_join(ub).as_slice().to_vec()),
            "path_join_fmt" => {
                let t = bs.unwrap();
                catch(|| ua.path_join_fmt(format_args!("{t}")).as_slice().to_vec())
            }
            _ => {
                let t = bs.unwrap();
                catch(|| ua.path_join_fmt(format_args!("{t}\0")).as_slice().to_vec())
            }
        };
        clear_case();
        match res {
            Err(p) => r.violation(&format!("C10:{op}:panic"), format!("{op}({}, {}) panicked: {p}", show_bytes(a), show_bytes(b)), case),
            Ok(raw) => {
                if let Err(why) = wf(&raw, true, None) {
                    r.violation(
                        &format!("C10:{op}:{why}"),
                        format!("{op}({}, {}) = raw {}", show_bytes(a), show_bytes(b), show_bytes(&raw)),
                        case,
                    );
                }
            }
        }
    }
}

fn c10_literals(r: &mut Report) {
    let lits: [(&str, &UnixStr); 8] = [
        ("", unix_lit!("")),
        ("a", unix_lit!("a")),
        ("/", unix_lit!("/")),
        ("/a/b", unix_lit!("/a/b")),
        ("é", unix_lit!("é")),
        ("a b", unix_lit!("a b")),
        ("//", unix_lit!("//")),
        ("0123456789012345678901234567890123456789", unix_lit!("0123456789012345678901234567890123456789")),
    ];
    for (src, u) in lits {
        r.eval();
        r.nontrivial_unique();
        if let Err(why) = wf(u.as_slice(), true, Some(src.as_bytes())) {
            r.violation(&format!("C10:unix_lit:{why}"), format!("unix_lit!({src:?}) raw {}", show_bytes(u.as_slice())), json!({"op":"unix_lit","a":src}));
        }
    }
    r.eval();
    if let Err(why) = wf(UnixStr::EMPTY.as_slice(), true, Some(b"")) {
        r.violation(&format!("C10:EMPTY:{why}"), "UnixStr::EMPTY", json!({"op":"EMPTY"}));
    }
}

const UNARY10: &[&str] = &[
    "UnixStr::try_from_bytes",
    "UnixStr::try_from_str",
    "UnixString::try_from_bytes",
    "UnixString::try_from_vec",
    "UnixString::try_from_str",
    "UnixString::try_from_string",
    "UnixString::from_str",
];

fn c10(args: &Args) -> Report {
    let l1 = if args.thorough { 7 } else { 5 };
    let l2 = if args.thorough { 5 } else { 4 };
    let all = all_strings(SIGMA10, l1);
    let valid: Vec<Vec<u8>> = all_strings(&SIGMA10[1..], l2.max(l1 - 1))
        .into_iter()
        .map(|mut s| {
            s.push(0);
            s
        })
        .collect();
    let valid_pairs: Vec<Vec<u8>> = valid.iter().filter(|s| s.len() <= l2 + 1).cloned().collect();
    let mut items = Vec::new();
    {
        let all = all.clone();
        items.push(isolated("constructors", move || {
            let mut r = Report::new();
            for s in &all {
                for op in UNARY10 {
                    c10_unary(op, s, &mut r);
                }
                if let Ok(t) = std::str::from_utf8(s) {
                    for v in 0..3 {
                        c10_format(t, v, &mut r);
                    }
                    c10_checked(t, &mut r);
                }
            }
            c10_literals(&mut r);
            let lefts: Vec<Vec<u8>> = all_strings(&SIGMA10[1..], 3);
            literal_sweep("C10", &lefts, &mut r);
            r.sample(json!({"op":"UnixString::try_from_vec","a": show_bytes(&all[all.len()/2])}));
            r
        }));
    }
    {
        let valid = valid.clone();
        items.push(isolated("unary-on-valid", move || {
            let mut r = Report::new();
            for v in &valid {
                c10_on_valid(v, &mut r);
            }
            r.sample(json!({"op":"parent_path","a": show_bytes(&valid[valid.len()/3])}));
            r
        }));
    }
    let nsh = 16usize;
    for sh in 0..nsh {
        let vp = valid_pairs.clone();
        items.push(isolated(format!("pairs-{sh}"), move || {
            let mut r = Report::new();
            for (i, a) in vp.iter().enumerate() {
                if i % nsh != sh {
                    continue;
                }
                for b in &vp {
                    c10_pair(a, b, &mut r);
                }
            }
            if sh == 0 {
                r.sample(json!({"op":"path_join","a": show_bytes(&vp[vp.len()/2]), "b": show_bytes(&vp[vp.len()/3])}));
            }
            r
        }));
    }
    {
        // length ladder: every length up to the bound, NUL-free / one NUL at every position / trailing NUL,
        // through every constructor, unary op and as either operand of the joins (word-at-a-time scans and
        // size thresholds are straddled at every length)
        let lmax = if args.thorough { 1100 } else { 260 };
        items.push(isolated("length-ladder", move || {
            let mut r = Report::new();
            let pat = b"a/\xffb.a//c";
            let short: Vec<Vec<u8>> = vec![b"\0".to_vec(), b"a\0".to_vec(), b"/\0".to_vec(), b"/a\0".to_vec(), b"a/\0".to_vec()];
            // lengths inside the exhaustive window are skipped: every case is generated once overall
            for len in 8..=lmax {
                let base: Vec<u8> = (0..len).map(|i| pat[i % pat.len()]).collect();
                let mut inputs: Vec<Vec<u8>> = vec![base.clone()];
                let mut t = base.clone();
                t.push(0);
                inputs.push(t.clone());
                let nul_positions: Vec<usize> = if len <= 70 { (0..len).collect() } else { vec![0, 1, 7, 8, 15, 16, len / 2, len - 17, len - 16, len - 9, len - 8, len - 2, len - 1] };
                for p in nul_positions {
                    let mut v = base.clone();
                    v[p] = 0;
                    inputs.push(v.clone());
                    v.push(0);
                    inputs.push(v);
                }
                for s in &inputs {
                    for op in UNARY10 {
                        c10_unary(op, s, &mut r);
                    }
                    if let Ok(st) = std::str::from_utf8(s) {
                        for v in 0..3 {
                            c10_format(st, v, &mut r);
                        }
                        c10_checked(st, &mut r);
                    }
                }
                // the valid value of this length through the unary ops and the joins
                c10_on_valid(&t, &mut r);
                for o in &short {
                    c10_pair(&t, o, &mut r);
                    c10_pair(o, &t, &mut r);
                }
                c10_pair(&t, &t, &mut r);
            }
            r
        }));
    }
    let mut r = run_isolated(items, &args.out, "C10");
    r.rule = format!(
        "every byte string of length <= {l1} over {{NUL,'/','a',0xFF}} into every constructor/conversion ({} ops + 3 from_format shapes + from_str_checked), \
         every valid value of content length <= {} into parent_path/path_file_name/From/from_ptr/as_ref, every pair of valid values of content length <= {l2} \
         into path_join/path_join_fmt; a length ladder (every length up to 260, thorough 1100: NUL-free, trailing NUL, one NUL at each position [a fixed position set above 70]) \
         through every constructor, unary operation and as either join operand; each (operation, operand tuple) is generated exactly once; a case is non-trivial when the operation applies to the operand \
         (str-typed operations only see UTF-8 operands)",
        UNARY10.len(),
        l2.max(l1 - 1)
    );
    r.bound("max_len_unary", l1);
    r.bound("max_len_pairs", l2);
    r.bound("alphabet", "NUL / a 0xFF");
    r
}

// ---------------------------------------------------------------------------
// C11 — references are naive byte-slice definitions

fn ref_find(h: &[u8], n: &[u8]) -> Option<usize> {
    if n.is_empty() {
        return Some(0);
    }
    if n.len() > h.len() {
        return None;
    }
    (0..=h.len() - n.len()).find(|&i| &h[i..i + n.len()] == n)
}
fn ref_prefix(a: &[u8], b: &[u8]) -> usize {
    a.iter().zip(b.iter()).take_while(|(x, y)| x == y).count()
}
fn ref_join(a: &[u8], b: &[u8]) -> Vec<u8> {
    if a.is_empty() {
        return b.to_vec();
    }
    if b.is_empty() {
        return a.to_vec();
    }
    let mut v = a.to_vec();
    match (a.last() == Some(&b'/'), b.first() == Some(&b'/')) {
        (true, true) => v.extend_from_slice(&b[1..]),
        (false, false) => {
            v.push(b'/');
            v.extend_from_slice(b);
        }
        _ => v.extend_from_slice(b),
    }
    v
}
/// split at the last separator; a doubled separator there, or no separator, means "no parent"
fn ref_parent(c: &[u8]) -> Option<Vec<u8>> {
    if c.len() < 2 {
        return None;
    }
    let i = c.iter().rposition(|&x| x == b'/')?;
    if i > 0 && c[i - 1] == b'/' {
        return None;
    }
    if i == 0 {
        return Some(b"/".to_vec());
    }
    Some(c[..i].to_vec())
}
fn ref_file_name(c: &[u8]) -> Option<Vec<u8>> {
    let i = c.iter().rposition(|&x| x == b'/')?;
    if i + 1 < c.len() {
        Some(c[i + 1..].to_vec())
    } else {
        None
    }
}


// ---------------------------------------------------------------------------
// literal templates: `format_args!("literal")` has `Arguments::as_str() == Some(..)`, which code may
// special-case; runtime `{}` arguments never reach such a path, so a fixed family of compile-time
// literals is swept against every left operand as well.  (A template consisting of a lone NUL — "empty extension,
// pre-terminated" — is left out: what the join of an empty pre-terminated template should be is not fixed by the property.)

macro_rules! literal_templates {
    ($visit:expr; $($l:literal),* $(,)?) => {{
        $( $visit($l, &|ua: &UnixStr| ua.path_join_fmt(format_args!($l)), &|| UnixString::from_format(format_args!($l))); )*
    }};
}

fn for_each_literal(mut visit: impl FnMut(&'static str, &dyn Fn(&UnixStr) -> UnixString, &dyn Fn() -> UnixString)) {
    literal_templates!(visit;
        "", "a", "b", "/", ".", "aa", "a/", "/a", "//", "a.", "./", "/.", "..", "ab", "a/b", "/a/", "//a", "a//",
        "/there", "there/", "a\0", "/a\0", "/\0", "a/b/c/d/e/f/g/h/i/j/k/l/m/n/o/p/q/r/s/t/u/v/w/x/y/z",
        "/0123456789012345678901234567890123456789012345678901234567890123456789");
}

fn literal_sweep(prop: &str, lefts: &[Vec<u8>], r: &mut Report) {
    for_each_literal(|lit, join, fmt| {
        let lit_content = strip_nul(lit.as_bytes()).to_vec();
        if prop == "C10" {
            r.eval();
            r.nontrivial_unique();
            let case = json!({"op": "from_format-literal", "a": show_bytes(lit.as_bytes())});
            set_case(&case.to_string());
            let res = catch(|| fmt().as_slice().to_vec());
            clear_case();
            match res {
                Err(p) => r.violation("C10:from_format-literal:panic", format!("from_format(format_args!({lit:?})) panicked: {p}"), case),
                Ok(raw) => {
                    if let Err(why) = wf(&raw, !lit_content.contains(&0), Some(&lit_content)) {
                        r.violation(&format!("C10:from_format-literal:{why}"), format!("from_format(format_args!({lit:?})) = raw {}", show_bytes(&raw)), case);
                    }
                }
            }
        }
        for a in lefts {
            r.eval();
            r.nontrivial_unique();
            let an = with_nul(a);
            let ua = unsafe { UnixStr::from_bytes_unchecked(&an) };
            let case = json!({"op": "path_join_fmt-literal", "a": show_bytes(a), "b": show_bytes(lit.as_bytes())});
            set_case(&case.to_string());
            let res = catch(|| join(ua).as_slice().to_vec());
            clear_case();
            match res {
                Err(p) => r.violation(&format!("{prop}:path_join_fmt-literal:panic"), format!("path_join_fmt({:?}, format_args!({lit:?})) panicked: {p}", show_bytes(a)), case),
                Ok(raw) => {
                    if prop == "C10" {
                        if let Err(why) = wf(&raw, true, None) {
                            r.violation(&format!("C10:path_join_fmt-literal:{why}"), format!("path_join_fmt({:?}, format_args!({lit:?})) = raw {}", show_bytes(a), show_bytes(&raw)), case);
                        }
                    } else {
                        let want = ref_join(a, &lit_content);
                        if content(&raw) != want.as_slice() {
                            r.violation(
                                "C11:path_join_fmt-literal:wrong-answer",
                                format!("path_join_fmt({:?}, format_args!({lit:?})) = {:?}, definition gives {:?}", show_bytes(a), show_bytes(content(&raw)), show_bytes(&want)),
                                case,
                            );
                        }
                    }
                }
            }
        }
    });
}

/// C11 length ladder: one structured operand family per length 0..=max (equal operands, one byte changed at the
/// start / middle / end, one byte shorter, one byte longer, empty), both orders, both guard placements; and every
/// position of a single separator for the unary operations.  Word-at-a-time fast paths and length thresholds
/// well above the exhaustive window are straddled at every length.
fn c11_ladder(max: usize, r: &mut Report) {
    let mut pl = Placed { a: GuardArena::new(2), b: GuardArena::new(2) };
    let pat = b"ab.a/b.ba/";
    // lengths inside the exhaustive windows (pairs <= 5, singles <= 9) are skipped: each case is generated once overall
    for len in 10..=max {
        let a: Vec<u8> = (0..len).map(|i| pat[i % pat.len()]).collect();
        let mut variants: Vec<Vec<u8>> = vec![a.clone(), Vec::new()];
        for pos in [0usize, len / 2, len.saturating_sub(1)] {
            if len > 0 {
                let mut v = a.clone();
                v[pos] = if v[pos] == b'b' { b'a' } else { b'b' };
                variants.push(v);
            }
        }
        if len > 0 {
            variants.push(a[..len - 1].to_vec());
            variants.push(a[1..].to_vec());
        }
        let mut longer = a.clone();
        longer.push(b'b');
        variants.push(longer);
        for b in &variants {
            for at_end in [true, false] {
                c11_pair(&mut pl, &a, b, at_end, r);
                c11_pair(&mut pl, b, &a, at_end, r);
            }
        }
        if len <= 140 {
            for p in 0..len {
                let mut s = vec![b'a'; len];
                s[p] = b'/';
                c11_single(&mut pl, &s, true, r);
                c11_single(&mut pl, &s, false, r);
            }
        }
    }
}

struct Placed {
    a: GuardArena,
    b: GuardArena,
}

fn with_nul(s: &[u8]) -> Vec<u8> {
    let mut v = s.to_vec();
    v.push(0);
    v
}

fn content(raw: &[u8]) -> &[u8] {
    // what the kernel would read through the pointer (up to the first NUL), or the
    // whole slice minus its last byte when there is none — the `as_str()` view
    match raw.iter().position(|&x| x == 0) {
        Some(i) => &raw[..i],
        None => &raw[..raw.len().saturating_sub(1)],
    }
}

fn c11_pair(pl: &mut Placed, a: &[u8], b: &[u8], at_end: bool, r: &mut Report) {
    let an = with_nul(a);
    let bn = with_nul(b);
    macro_rules! place {
        ($arena:expr, $bytes:expr) => {{
            let s: &[u8] = if at_end { $arena.place_end($bytes) } else { $arena.place_start($bytes) };
            // detach lifetime from the arena borrow
            unsafe { std::slice::from_raw_parts(s.as_ptr(), s.len()) }
        }};
    }
    let ops = ["find", "find_buf", "match_up_to", "match_up_to_str", "ends_with", "path_join", "path_join_fmt"];
    for op in ops {
        r.eval();
        r.nontrivial_unique();
        let ua = unsafe { UnixStr::from_bytes_unchecked(place!(pl.a, &an)) };
        let case = json!({"op": op, "a": show_bytes(a), "b": show_bytes(b), "placement": if at_end {"end"} else {"start"}});
        set_case(&case.to_string());
        let (got, want): (Result<String, String>, String) = match op {
            "find" => {
                let ub = unsafe { UnixStr::from_bytes_unchecked(place!(pl.b, &bn)) };
                (catch(|| format!("{:?}", ua.find(ub))), format!("{:?}", ref_find(a, b)))
            }
            "find_buf" => {
                let bb = place!(pl.b, b);
                (catch(|| format!("{:?}", ua.find_buf(bb))), format!("{:?}", ref_find(a, b)))
            }
            "match_up_to" => {
                let ub = unsafe { UnixStr::from_bytes_unchecked(place!(pl.b, &bn)) };
                (catch(|| format!("{}", ua.match_up_to(ub))), format!("{}", ref_prefix(a, b)))
            }
            "match_up_to_str" => {
                let bb = place!(pl.b, b);
                let bs = unsafe { std::str::from_utf8_unchecked(bb) };
                (catch(|| format!("{}", ua.match_up_to_str(bs))), format!("{}", ref_prefix(a, b)))
            }
            "ends_with" => {
                let ub = unsafe { UnixStr::from_bytes_unchecked(place!(pl.b, &bn)) };
                (catch(|| format!("{}", ua.ends_with(ub))), format!("{}", a.ends_with(b)))
            }
            "path_join" => {
                let ub = unsafe { UnixStr::from_bytes_unchecked(place!(pl.b, &bn)) };
                (catch(|| show_bytes(content(ua.path_join(ub).as_slice()))), show_bytes(&ref_join(a, b)))
            }
            _ => {
                let bb = place!(pl.b, b);
                let bs = unsafe { std::str::from_utf8_unchecked(bb) };
                (catch(|| show_bytes(content(ua.path_join_fmt(format_args!("{bs}")).as_slice()))), show_bytes(&ref_join(a, b)))
            }
        };
        clear_case();
        match got {
            Err(p) => {
                r.outcome(&format!("{op}:panic"));
                r.violation(&format!("C11:{op}:panic"), format!("{op}({:?}, {:?}) panicked: {p}", show_bytes(a), show_bytes(b)), case)
            }
            Ok(g) => {
                if matches!(op, "find" | "ends_with") {
                    r.outcome(&format!("{op}:{}", if g == "None" || g == "false" { "no" } else { "yes" }));
                }
                if g != want {
                    r.violation(
                        &format!("C11:{op}:wrong-answer"),
                        format!("{op}({:?}, {:?}) = {g}, definition gives {want}", show_bytes(a), show_bytes(b)),
                        case,
                    );
                }
            }
        }
    }
}

/// Second operands that are raw `&[u8]` / `&str` may legally contain NUL bytes (a `UnixStr` cannot).
/// `find_buf` searches the receiver's buffer as it is, terminator included (that is what lets
/// `find_buf(b".rs\0")` anchor a match at the end); `match_up_to_str` compares the receiver's content
/// with the bytes of `other`, so the receiver's terminator ends the common prefix whatever `other` holds there.
fn c11_raw_second(pl: &mut Placed, a: &[u8], b: &[u8], at_end: bool, r: &mut Report) {
    let an = with_nul(a);
    for op in ["find_buf", "match_up_to_str"] {
        r.eval();
        r.nontrivial_unique();
        let sa: &[u8] = if at_end { pl.a.place_end(&an) } else { pl.a.place_start(&an) };
        let sa = unsafe { std::slice::from_raw_parts(sa.as_ptr(), sa.len()) };
        let sb: &[u8] = if at_end { pl.b.place_end(b) } else { pl.b.place_start(b) };
        let sb = unsafe { std::slice::from_raw_parts(sb.as_ptr(), sb.len()) };
        let ua = unsafe { UnixStr::from_bytes_unchecked(sa) };
        let case = json!({"op": op, "a": show_bytes(a), "b": show_bytes(b), "placement": if at_end {"end"} else {"start"}, "raw_second": true});
        set_case(&case.to_string());
        let (got, want) = match op {
            "find_buf" => (catch(|| format!("{:?}", ua.find_buf(sb))), format!("{:?}", ref_find(&an, b))),
            _ => {
                let bs = unsafe { std::str::from_utf8_unchecked(sb) };
                (catch(|| format!("{}", ua.match_up_to_str(bs))), format!("{}", ref_prefix(a, b)))
            }
        };
        clear_case();
        match got {
            Err(p) => r.violation(&format!("C11:{op}:panic"), format!("{op}({:?}, raw {:?}) panicked: {p}", show_bytes(a), show_bytes(b)), case),
            Ok(g) => {
                r.outcome(&format!("{op}-raw-operand-with-nul:{}", if g == "None" { "none" } else if op == "find_buf" { "some" } else { "len" }));
                if g != want {
                    r.violation(
                        &format!("C11:{op}:wrong-answer"),
                        format!("{op}({:?}, raw {:?}) = {g}, definition gives {want}", show_bytes(a), show_bytes(b)),
                        case,
                    );
                }
            }
        }
    }
}

/// Operands that share storage: both are views into ONE block (`ra`, `rb` are byte ranges of it, each ending with its
/// NUL) -- the second operand a tail of the receiver's own buffer (what `path_file_name` and a `from_ptr` into the same
/// C string hand out), the receiver a tail of the second, or two strings stored back to back (`a\0b\0`, the layout of
/// argv / envp).  The definitions are about bytes, not addresses: the answers must be those for separately stored copies.
fn c11_views(pl: &mut Placed, block: &[u8], ra: (usize, usize), rb: (usize, usize), r: &mut Report) {
    let a: Vec<u8> = block[ra.0..ra.1 - 1].to_vec();
    let b: Vec<u8> = block[rb.0..rb.1 - 1].to_vec();
    for op in ["find", "find_buf", "match_up_to", "match_up_to_str", "ends_with", "path_join", "path_join_fmt"] {
        r.eval();
        r.nontrivial_unique();
        let blk: &[u8] = pl.a.place_end(block);
        let blk = unsafe { std::slice::from_raw_parts(blk.as_ptr(), blk.len()) };
        let ua = unsafe { UnixStr::from_bytes_unchecked(&blk[ra.0..ra.1]) };
        let ub = unsafe { UnixStr::from_bytes_unchecked(&blk[rb.0..rb.1]) };
        let bb = &blk[rb.0..rb.1 - 1];
        let case = json!({"op": op, "block": show_bytes(block), "ra": [ra.0, ra.1], "rb": [rb.0, rb.1], "shared_storage": true});
        set_case(&case.to_string());
        let (got, want): (Result<String, String>, String) = match op {
            "find" => (catch(|| format!("{:?}", ua.find(ub))), format!("{:?}", ref_find(&a, &b))),
            "find_buf" => (catch(|| format!("{:?}", ua.find_buf(bb))), format!("{:?}", ref_find(&a, &b))),
            "match_up_to" => (catch(|| format!("{}", ua.match_up_to(ub))), format!("{}", ref_prefix(&a, &b))),
            "match_up_to_str" => {
                let bs = unsafe { std::str::from_utf8_unchecked(bb) };
                (catch(|| format!("{}", ua.match_up_to_str(bs))), format!("{}", ref_prefix(&a, &b)))
            }
            "ends_with" => (catch(|| format!("{}", ua.ends_with(ub))), format!("{}", a.ends_with(&b))),
            "path_join" => (catch(|| show_bytes(content(ua.path_join(ub).as_slice()))), show_bytes(&ref_join(&a, &b))),
            _ => {
                let bs = unsafe { std::str::from_utf8_unchecked(bb) };
                (catch(|| show_bytes(content(ua.path_join_fmt(format_args!("{bs}")).as_slice()))), show_bytes(&ref_join(&a, &b)))
            }
        };
        clear_case();
        let rel = if rb.0 >= ra.1 { "second-stored-right-behind-the-receiver" } else if ra.0 >= rb.1 { "receiver-stored-right-behind-the-second" } else if rb.0 >= ra.0 { "second-is-a-tail-of-the-receiver" } else { "receiver-is-a-tail-of-the-second" };
        match got {
            Err(p) => r.violation(&format!("C11:{op}:panic"), format!("{op}({:?}, {:?}) [{rel}] panicked: {p}", show_bytes(&a), show_bytes(&b)), case),
            Ok(g) => {
                r.outcome(&format!("shared-storage:{rel}:{op}:{}", if g == "None" || g == "false" { "no" } else { "answer" }));
                if g != want {
                    r.violation(
                        &format!("C11:{op}:wrong-answer"),
                        format!("{op}({:?}, {:?}) = {g} when the operands share storage ({rel}), definition gives {want} (and so do separately stored copies)", show_bytes(&a), show_bytes(&b)),
                        case,
                    );
                }
            }
        }
    }
}

fn c11_single(pl: &mut Placed, a: &[u8], at_end: bool, r: &mut Report) {
    let an = with_nul(a);
    for op in ["parent_path", "path_file_name"] {
        r.eval();
        r.nontrivial_unique();
        let s: &[u8] = if at_end { pl.a.place_end(&an) } else { pl.a.place_start(&an) };
        let s = unsafe { std::slice::from_raw_parts(s.as_ptr(), s.len()) };
        let ua = unsafe { UnixStr::from_bytes_unchecked(s) };
        let case = json!({"op": op, "a": show_bytes(a), "placement": if at_end {"end"} else {"start"}});
        set_case(&case.to_string());
        let (got, want) = match op {
            "parent_path" => (
                catch(|| ua.parent_path().map(|p| show_bytes(content(p.as_slice())))),
                ref_parent(a).map(|p| show_bytes(&p)),
            ),
            _ => (
                catch(|| ua.path_file_name().map(|p| show_bytes(content(p.as_slice())))),
                ref_file_name(a).map(|p| show_bytes(&p)),
            ),
        };
        clear_case();
        match got {
            Err(p) => r.violation(&format!("C11:{op}:panic"), format!("{op}({:?}) panicked: {p}", show_bytes(a)), case),
            Ok(g) => {
                r.outcome(&format!("{op}:{}", if g.is_some() { "some" } else { "none" }));
                if g != want {
                    r.violation(
                        &format!("C11:{op}:wrong-answer"),
                        format!("{op}({:?}) = {g:?}, definition gives {want:?}", show_bytes(a)),
                        case,
                    );
                }
            }
        }
    }
}

fn c11(args: &Args) -> Report {
    let lp = if args.thorough { 5 } else { 4 };
    let ls = if args.thorough { 9 } else { 7 };
    let strs = all_strings(SIGMA11, lp);
    let singles = all_strings(SIGMA11, ls);
    // a few long operands (deterministic, labelled ladder): repeated patterns with the match at the very end
    let mut long: Vec<(Vec<u8>, Vec<u8>)> = Vec::new();
    for n in [63usize, 64, 65, 511, 512, 513, 4000] {
        let mut h = vec![b'a'; n];
        h.push(b'b');
        long.push((h.clone(), b"ab".to_vec()));
        long.push((h.clone(), b"aab".to_vec()));
        long.push((h.clone(), b"b".to_vec()));
        long.push((h.clone(), b"ba".to_vec()));
        long.push((h.clone(), h.clone()));
        let mut h2 = h.clone();
        h2.push(b'/');
        long.push((h2, h.clone()));
    }
    let nsh = 16usize;
    let mut items = Vec::new();
    for sh in 0..nsh {
        let strs = strs.clone();
        let singles = singles.clone();
        let long = long.clone();
        items.push(isolated(format!("shard-{sh}"), move || {
            let mut r = Report::new();
            let mut pl = Placed { a: GuardArena::new(2), b: GuardArena::new(2) };
            for (i, a) in strs.iter().enumerate() {
                if i % nsh != sh {
                    continue;
                }
                for b in &strs {
                    c11_pair(&mut pl, a, b, true, &mut r);
                    c11_pair(&mut pl, a, b, false, &mut r);
                }
            }
            for (i, a) in singles.iter().enumerate() {
                if i % nsh != sh {
                    continue;
                }
                c11_single(&mut pl, a, true, &mut r);
                c11_single(&mut pl, a, false, &mut r);
            }
            if sh == 0 {
                for (a, b) in &long {
                    c11_pair(&mut pl, a, b, true, &mut r);
                    c11_pair(&mut pl, b, a, true, &mut r);
                    c11_single(&mut pl, a, true, &mut r);
                }
                r.sample(json!({"op":"find","a":"ab/.a","b":"/.a"}));
                r.sample(json!({"op":"path_join","a":"a/","b":"/b"}));
                r.sample(json!({"op":"parent_path","a":"a/b/.b"}));
            }
            r
        }));
    }
    {
        let lefts = all_strings(SIGMA11, lp);
        items.push(isolated("literal-templates", move || {
            let mut r = Report::new();
            literal_sweep("C11", &lefts, &mut r);
            r.sample(json!({"op":"path_join_fmt-literal","a":"a/","b":"/there"}));
            r
        }));
        let (la, lb) = if args.thorough { (5, 5) } else { (4, 4) };
        items.push(isolated("raw-second-operand-with-nul", move || {
            let mut r = Report::new();
            let mut pl = Placed { a: GuardArena::new(2), b: GuardArena::new(2) };
            let lefts = all_strings(&[b'a', b'.'], la);
            // every raw operand over {a, '.', NUL} that holds at least one NUL (the NUL-free ones are the pairs above)
            let rights: Vec<Vec<u8>> = all_strings(&[b'a', b'.', 0], lb).into_iter().filter(|b| b.contains(&0)).collect();
            for a in &lefts {
                for b in &rights {
                    c11_raw_second(&mut pl, a, b, true, &mut r);
                    c11_raw_second(&mut pl, a, b, false, &mut r);
                }
                // the receiver's own buffer (content + terminator) and its tails as the raw operand
                let an = with_nul(a);
                for k in 0..an.len() {
                    if !rights.contains(&an[k..].to_vec()) {
                        c11_raw_second(&mut pl, a, &an[k..], true, &mut r);
                    }
                }
            }
            r.sample(json!({"op":"find_buf","a":"a.a","b":".a\\0","raw_second":true}));
            r
        }));
        let (lt, lb2) = if args.thorough { (8, 4) } else { (6, 3) };
        items.push(isolated("operands-sharing-storage", move || {
            let mut r = Report::new();
            let mut pl = Placed { a: GuardArena::new(2), b: GuardArena::new(2) };
            // (1) every string <= lt, every tail of it (incl. the whole and the empty tail) as the other operand, both roles
            for a in all_strings(SIGMA11, lt) {
                let an = with_nul(&a);
                for k in 0..an.len() {
                    c11_views(&mut pl, &an, (0, an.len()), (k, an.len()), &mut r);
                    if k > 0 {
                        c11_views(&mut pl, &an, (k, an.len()), (0, an.len()), &mut r);
                    }
                }
            }
            // (2) every pair <= lb2 stored back to back in one block, both roles
            let ss = all_strings(SIGMA11, lb2);
            for a in &ss {
                for b in &ss {
                    let mut blk = with_nul(a);
                    blk.extend_from_slice(&with_nul(b));
                    let la = a.len() + 1;
                    c11_views(&mut pl, &blk, (0, la), (la, blk.len()), &mut r);
                    c11_views(&mut pl, &blk, (la, blk.len()), (0, la), &mut r);
                }
            }
            r.sample(json!({"op":"find","block":"/a/a\\0","ra":[0,5],"rb":[3,5],"shared_storage":true}));
            r
        }));
        let np = if args.thorough { 4 } else { 3 };
        items.push(isolated("multi-byte-characters", move || {
            // operands built from characters that share lead bytes (é/è: c3 a9 / c3 a8, €/₭: e2 82 ac / e2 82 ad) so that two
            // operands can part ways INSIDE a character; receivers also cut at every byte (a path need not be UTF-8), the
            // `&str` operand is always whole characters
            let mut r = Report::new();
            let mut pl = Placed { a: GuardArena::new(2), b: GuardArena::new(2) };
            let pieces: [&[u8]; 5] = [b"a", "é".as_bytes(), "è".as_bytes(), "€".as_bytes(), "₭".as_bytes()];
            let mut words: Vec<Vec<u8>> = vec![Vec::new()];
            let mut frontier: Vec<Vec<u8>> = vec![Vec::new()];
            for _ in 0..np {
                let mut next = Vec::new();
                for w in &frontier {
                    for p in pieces {
                        let mut v = w.clone();
                        v.extend_from_slice(p);
                        next.push(v);
                    }
                }
                words.extend(next.iter().cloned());
                frontier = next;
            }
            let mut receivers: Vec<Vec<u8>> = Vec::new();
            for w in &words {
                for cut in 0..=w.len() {
                    receivers.push(w[..cut].to_vec());
                }
            }
            receivers.sort();
            receivers.dedup();
            for a in &receivers {
                for b in &words {
                    // only pairs with a non-ASCII byte somewhere (the ASCII ones are the exhaustive pairs above)
                    if a.iter().chain(b.iter()).all(|x| x.is_ascii()) {
                        continue;
                    }
                    c11_raw_second(&mut pl, a, b, true, &mut r);
                }
            }
            r.sample(json!({"op":"match_up_to_str","a":"caf\\xc3\\xa9","b":"caf\\xc3\\xa8","raw_second":true}));
            r
        }));
        let lmax = if args.thorough { 1100 } else { 200 };
        items.push(isolated("length-ladder", move || {
            let mut r = Report::new();
            c11_ladder(lmax, &mut r);
            r
        }));
    }
    let mut r = run_isolated(items, &args.out, "C11");
    r.rule = format!(
        "every ordered pair of strings of length <= {lp} over {{a,b,'/','.'}} (empty included) into find/find_buf/match_up_to/match_up_to_str/ends_with/path_join/path_join_fmt, \
         every string of length <= {ls} into parent_path/path_file_name, each under two guard-page placements (operand ends at / starts after an inaccessible page); \
         plus a fixed ladder of long operands (labelled, not exhaustive); a family of compile-time literal templates for path_join_fmt x every left operand; \
         raw second operands holding NUL bytes for find_buf / match_up_to_str: every receiver <= 4 (5) over {{a,'.'}} x every raw operand <= 4 (5) over {{a,'.',NUL}} with at least one NUL; \
         operands sharing storage: every string <= 6 (8) with each of its tails as the other operand (both roles) and every pair <= 3 (4) stored back to back in one block (both roles); \
         a length ladder: for EVERY length up to 200 (thorough 1100) equal / one-byte-changed / shorter / longer operands in both orders and placements, and every \
         position of one separator. Each (op, operands, placement) generated once."
    );
    r.bound("max_len_pairs", lp);
    r.bound("max_len_single", ls);
    r
}

// ---------------------------------------------------------------------------

fn replay(v: &serde_json::Value, r: &mut Report) {
    let op = v["op"].as_str().unwrap_or("");
    let a = parse_shown(v["a"].as_str().unwrap_or(""));
    let b = parse_shown(v["b"].as_str().unwrap_or(""));
    let at_end = v["placement"].as_str() != Some("start");
    println!("replaying op={op} a={} b={}", show_bytes(&a), show_bytes(&b));
    if v.get("shared_storage").is_some() {
        let mut pl = Placed { a: GuardArena::new(2), b: GuardArena::new(2) };
        let block = parse_shown(v["block"].as_str().unwrap_or(""));
        let g = |k: &str, i: usize| v[k][i].as_u64().unwrap() as usize;
        c11_views(&mut pl, &block, (g("ra", 0), g("ra", 1)), (g("rb", 0), g("rb", 1)), r);
        r.violations.retain(|k, _| k.split(':').nth(1) == Some(op));
    } else if v.get("placement").is_some() {
        let mut pl = Placed { a: GuardArena::new(2), b: GuardArena::new(2) };
        if v.get("raw_second").is_some() {
            c11_raw_second(&mut pl, &a, &b, at_end, r);
        } else if v.get("b").is_some() {
            c11_pair(&mut pl, &a, &b, at_end, r);
        } else {
            c11_single(&mut pl, &a, at_end, r);
        }
        r.violations.retain(|k, _| k.split(':').nth(1) == Some(op));
    } else if UNARY10.contains(&op) {
        c10_unary(op, &a, r);
    } else if op.starts_with("from_format") {
        let t = String::from_utf8(a).unwrap();
        for i in 0..3 {
            c10_format(&t, i, r);
        }
    } else if op == "from_str_checked" {
        c10_checked(&String::from_utf8(a).unwrap(), r);
    } else if v.get("b").is_some() {
        c10_pair(&a, &b, r);
    } else {
        c10_on_valid(&a, r);
        r.violations.retain(|k, _| k.split(':').nth(1) == Some(op));
    }
    for v in r.violations.values() {
        println!("VIOLATED {}: {}", v.key, v.desc);
    }
}
