//! The repository's `tiny-start/src/symbols/mem.rs`, compiled verbatim into a private
//! shared object.  `h-mem` loads it with `dlopen(RTLD_LOCAL)` and takes the five
//! functions with `dlsym` on that handle, so the harness process keeps libc's
//! `memcpy` & co. and a broken function under test cannot corrupt the checker.
//!
//! Same crate attributes as `tiny-start/src/lib.rs`: `no_std` + `no_builtins`
//! (without `no_builtins` LLVM would turn the byte loops back into calls of
//! `memcpy`/`memset`, i.e. of libc, and the test would test libc).
#![no_std]
#![no_builtins]
// mem.rs is written for tiny-start's lint configuration; its lints are not this crate's business
#![allow(warnings, clippy::all, clippy::pedantic)]

// `#[path = "/repo/tiny-start/src/symbols/mem.rs"] pub mod mem;` (the path is chosen by
// build.rs, by default the repository file).  rustc lists the file in the dep-info, so an
// edit of the repository file triggers a rebuild of this object.
include!(concat!(env!("OUT_DIR"), "/mem_mod.rs"));

// Only for the panic runtime: a stable `no_std` cdylib cannot be linked with the unwinding
// `core` ("unwinding panics are not supported without std").  The crate itself stays
// `no_std`/`no_builtins`; nothing of std is called by the code under test.  A failed debug
// assertion / UB precondition check inside mem.rs (the harness profile keeps them on) ends in
// std's abort -> SIGABRT, which the harness's crash handler attributes to the running case.
extern crate std;

/// Marker by which the harness recognises the object and learns which source it contains.
#[no_mangle]
pub static VT_MEMSYMS_SRC: [u8; env!("MEMSYMS_SRC_PATH").len() + 1] = {
    let s = env!("MEMSYMS_SRC_PATH").as_bytes();
    let mut a = [0u8; env!("MEMSYMS_SRC_PATH").len() + 1];
    let mut i = 0;
    while i < s.len() {
        a[i] = s[i];
        i += 1;
    }
    a
};

