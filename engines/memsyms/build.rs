//! Chooses the mem.rs that is compiled into the cdylib.  Default: the repository
//! file.  `MEMSYMS_SRC=/abs/path/mem.rs` substitutes a scratch copy (used only
//! to demonstrate that injected defects are detected).
fn main() {
    println!("cargo:rerun-if-env-changed=MEMSYMS_SRC");
    let src = std::env::var("MEMSYMS_SRC").unwrap_or_else(|_| "/repo/tiny-start/src/symbols/mem.rs".into());
    assert!(std::path::Path::new(&src).is_file(), "mem.rs not found at {src}");
    println!("cargo:rerun-if-changed={src}");
    println!("cargo:rerun-if-changed=build.rs");
    println!("cargo:rustc-env=MEMSYMS_SRC_PATH={src}");
    // References from inside the object to its own exported symbols (`bcmp` calls `memcmp`;
    // `#[inline(always)]` is ignored on `#[no_mangle]` functions) must bind to the object's own
    // definitions, not to whatever `memcmp` comes first in the process (libc's).
    println!("cargo:rustc-cdylib-link-arg=-Wl,-Bsymbolic");
    // `#[path]` wants a literal, so the one-line module declaration is generated.
    let out = std::env::var("OUT_DIR").unwrap();
    std::fs::write(format!("{out}/mem_mod.rs"), format!("#[path = {src:?}]\npub mod mem;\n")).unwrap();
}
