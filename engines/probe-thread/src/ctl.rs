//! Gate controller (hook H3): replays a gate schedule on the real threads.
//!
//! The schedule is a list of entries (thread ordinal, gate id, kind).  A thread that
//! arrives at gate `id` for join block `b` waits until the next unconsumed entry is
//! (ordinal(b), id) *and* the previous entry's step is over, then proceeds.  A step is
//! over when
//!   kind n: its thread arrives at its next gate (or main reaches `finish`);
//!   kind b: immediately - the handle owner goes to sleep on the exit word; the next
//!           taker first waits until that thread is really asleep (state S);
//!   kind x: the thread leaves for good (frees its TLS, unmaps its stack, exits); over
//!           when the kernel no longer knows its tid, which is after the clear-tid write.
//! So exactly one thread runs between two gates and a run either follows the schedule or
//! stops at a gate that is never reached (watchdog -> "stuck" line, exit status 3).
//!
//! Nothing here allocates: gates run right after `clone` and inside the panic handler.
use crate::{galloc, out, sys};
use core::sync::atomic::{AtomicU32, AtomicU64, AtomicUsize, Ordering::SeqCst};

pub const MAXT: usize = 256;
const MAXS: usize = 8192;
const MAXG: usize = 16384;

static BLOCKS: [AtomicUsize; MAXT] = [const { AtomicUsize::new(0) }; MAXT];
static NBLOCKS: AtomicUsize = AtomicUsize::new(0);
static TIDS: [AtomicU32; MAXT] = [const { AtomicU32::new(0) }; MAXT];
static T_LAST: [AtomicU32; MAXT] = [const { AtomicU32::new(0) }; MAXT];
/// ord << 8 | gate of the last gate passed by the main thread
static H_LAST: AtomicU32 = AtomicU32::new(0xff00);
pub static MAIN_TID: AtomicU32 = AtomicU32::new(0);
pub static PID: AtomicU32 = AtomicU32::new(0);

/// 0: gates only record; 1: gates follow the schedule; 2: gate-aligned race (see `race_gate`)
static MODE: AtomicU32 = AtomicU32::new(0);
// ---- race mode: park the handle owner at gate GH and the thread at gate GT, release both
// at once, the later party spins SKEW pauses first (SAMPLED: what happens inside the
// ungated window after the two gates is up to the hardware) ----
static RACE_GH: AtomicU32 = AtomicU32::new(0);
static RACE_GT: AtomicU32 = AtomicU32::new(0);
/// handle owner waits at this gate until the thread is parked (0: no such rule)
static RACE_HOLD_H: AtomicU32 = AtomicU32::new(0);
static RACE_ARRIVED: AtomicU32 = AtomicU32::new(0);
static RACE_T_PARKED: AtomicU32 = AtomicU32::new(0);
/// > 0: the handle owner is delayed by that many pauses, < 0: the thread
static RACE_SKEW: core::sync::atomic::AtomicI32 = core::sync::atomic::AtomicI32::new(0);
pub static RACE_ALIGNED: AtomicU32 = AtomicU32::new(0);
pub static RACE_UNALIGNED: AtomicU32 = AtomicU32::new(0);
static mut SCHED: [u32; MAXS] = [0; MAXS];
static SCHED_LEN: AtomicUsize = AtomicUsize::new(0);
/// pos << 2 | busy   (busy 0 free, 1 a thread runs until its next arrival, 2 a thread is exiting)
static STATE: AtomicUsize = AtomicUsize::new(0);
static HOLDER: AtomicU32 = AtomicU32::new(u32::MAX);
const H_ACTOR: u32 = 0xFFFF_FFFE;
static EXIT_ORD: AtomicU32 = AtomicU32::new(0);
static SETTLE_TID: AtomicU32 = AtomicU32::new(0);
static PREV_KIND: AtomicU32 = AtomicU32::new(0);
static EPOCH: AtomicU32 = AtomicU32::new(0);
pub static TIMEOUT_US: AtomicU64 = AtomicU64::new(3_000_000);
pub static DELAY_US: AtomicU64 = AtomicU64::new(0);
pub static SETTLE_TIMEOUTS: AtomicU32 = AtomicU32::new(0);
/// the controller itself makes no futex calls (polls instead): used when futex calls of the
/// code under test are counted / failed by strace injection
pub static NOFUTEX: AtomicU32 = AtomicU32::new(0);
/// arrivals at JOIN_BEFORE_READ_RESULT / DROP_BEFORE_FREE_BLOCK while the exit word was not 0:
/// the wait on the exit word returned although the kernel has not reported the thread's exit
const MAXEARLY: usize = 64;
static mut EARLY: [u32; MAXEARLY * 3] = [0; MAXEARLY * 3];
static EARLY_N: AtomicUsize = AtomicUsize::new(0);
pub static EARLY_TOTAL: AtomicU32 = AtomicU32::new(0);

static mut GT: [u32; MAXG] = [0; MAXG];
static mut GT_TID: [u32; MAXG] = [0; MAXG];
static GT_N: AtomicUsize = AtomicUsize::new(0);

pub fn init() {
    MAIN_TID.store(sys::gettid(), SeqCst);
    PID.store(sys::getpid(), SeqCst);
}

pub fn set_race(gh: u32, gt: u32, hold_h: u32) {
    RACE_GH.store(gh, SeqCst);
    RACE_GT.store(gt, SeqCst);
    RACE_HOLD_H.store(hold_h, SeqCst);
    MODE.store(2, SeqCst);
}

/// Before each spawn of a race round
pub fn race_round(skew: i32) {
    RACE_ARRIVED.store(0, SeqCst);
    RACE_T_PARKED.store(0, SeqCst);
    RACE_SKEW.store(skew, SeqCst);
}

/// Forget all threads (all of them are gone): ordinals start at 0 again
pub fn reset() {
    NBLOCKS.store(0, SeqCst);
    GT_N.store(0, SeqCst);
    H_LAST.store(0xff00, SeqCst);
}

/// Spin (pause; a yield every 4096 rounds) until `cond` or the watchdog time is over
fn spin_until(cond: impl Fn() -> bool) -> bool {
    let t0 = sys::now_us();
    let mut n = 0u32;
    loop {
        if cond() {
            return true;
        }
        core::hint::spin_loop();
        n = n.wrapping_add(1);
        if n % 4096 == 0 {
            if sys::now_us() - t0 > TIMEOUT_US.load(SeqCst) {
                return false;
            }
            sys::sched_yield();
        }
    }
}

fn race_gate(id: u32, is_t: bool) {
    let hold = RACE_HOLD_H.load(SeqCst);
    if !is_t && hold != 0 && id == hold {
        let _ = spin_until(|| RACE_T_PARKED.load(SeqCst) != 0);
    }
    let mine = if is_t { RACE_GT.load(SeqCst) } else { RACE_GH.load(SeqCst) };
    if id != mine {
        return;
    }
    if is_t {
        RACE_T_PARKED.store(1, SeqCst);
    }
    RACE_ARRIVED.fetch_add(1, SeqCst);
    let ok = spin_until(|| RACE_ARRIVED.load(SeqCst) >= 2);
    if !is_t {
        if ok {
            RACE_ALIGNED.fetch_add(1, SeqCst);
        } else {
            RACE_UNALIGNED.fetch_add(1, SeqCst);
        }
    }
    let skew = RACE_SKEW.load(SeqCst);
    let delay = if is_t { -skew } else { skew };
    let mut i = 0;
    while i < delay {
        core::hint::spin_loop();
        i += 1;
    }
}

pub fn n_threads() -> usize {
    NBLOCKS.load(SeqCst)
}

pub fn tid_of(ord: usize) -> u32 {
    TIDS[ord].load(SeqCst)
}

pub fn block_of(ord: usize) -> usize {
    BLOCKS[ord].load(SeqCst)
}

/// Parse `ord.gate.kind,ord.gate.kind,...` (kind n|b|x) and switch to schedule mode.
pub fn set_schedule(s: &str) -> bool {
    let mut n = 0usize;
    for ent in s.split(',') {
        if ent.is_empty() {
            continue;
        }
        let mut it = ent.split('.');
        let (Some(o), Some(g), Some(k)) = (it.next(), it.next(), it.next()) else {
            return false;
        };
        let (Some(o), Some(g)) = (parse_u(o), parse_u(g)) else {
            return false;
        };
        let k = match k {
            "n" => 0u32,
            "b" => 1,
            "x" => 2,
            _ => return false,
        };
        if n >= MAXS || o as usize >= MAXT || g > 255 {
            return false;
        }
        unsafe {
            (*core::ptr::addr_of_mut!(SCHED))[n] = (o as u32) << 16 | k << 8 | g as u32;
        }
        n += 1;
    }
    SCHED_LEN.store(n, SeqCst);
    MODE.store(1, SeqCst);
    true
}

pub fn parse_u(s: &str) -> Option<u64> {
    if s.is_empty() {
        return None;
    }
    let mut v = 0u64;
    for c in s.bytes() {
        if !c.is_ascii_digit() {
            return None;
        }
        v = v.checked_mul(10)?.checked_add((c - b'0') as u64)?;
    }
    Some(v)
}

fn sched_at(i: usize) -> u32 {
    unsafe { (*core::ptr::addr_of!(SCHED))[i] }
}

fn lookup_addr(block: usize) -> Option<usize> {
    let mut i = NBLOCKS.load(SeqCst);
    while i > 0 {
        i -= 1;
        if BLOCKS[i].load(SeqCst) == block {
            return Some(i);
        }
    }
    None
}

fn lookup_tid(tid: u32) -> Option<usize> {
    let mut i = NBLOCKS.load(SeqCst);
    while i > 0 {
        i -= 1;
        if TIDS[i].load(SeqCst) == tid {
            return Some(i);
        }
    }
    None
}

/// (ordinal, last gate passed) of the thread `tid`, for tagging allocator log entries.
pub fn ctx_of(tid: u32) -> (u32, u32) {
    if tid == MAIN_TID.load(SeqCst) {
        let h = H_LAST.load(SeqCst);
        return (h >> 8, h & 0xff);
    }
    match lookup_tid(tid) {
        Some(o) => {
            let v = T_LAST[o].load(SeqCst);
            if v == 0 {
                (o as u32, 0)
            } else {
                (v >> 8, v & 0xff)
            }
        }
        None => (0xff, 0),
    }
}

fn bump() {
    EPOCH.fetch_add(1, SeqCst);
    if NOFUTEX.load(SeqCst) == 0 {
        sys::futex_wake_all(&EPOCH);
    }
}

fn wait_epoch(ep: u32) {
    if NOFUTEX.load(SeqCst) == 0 {
        sys::futex_wait_timeout(&EPOCH, ep, 2000);
    } else {
        sys::sleep_us(100);
    }
}

/// The gate function installed with `tiny_std::verif::set_gate_fn`.
pub fn gate(id: u32, block: usize) {
    let tid = sys::gettid();
    let is_t = id >= 30;
    let ord = if id == 1 {
        let o = NBLOCKS.load(SeqCst);
        if o >= MAXT {
            fail("too-many-threads", 0xff, id);
        }
        BLOCKS[o].store(block, SeqCst);
        TIDS[o].store(0, SeqCst);
        T_LAST[o].store(0, SeqCst);
        NBLOCKS.store(o + 1, SeqCst);
        galloc::note_block(block, o);
        o
    } else if is_t {
        if id == 30 {
            match lookup_addr(block) {
                Some(o) => {
                    TIDS[o].store(tid, SeqCst);
                    o
                }
                None => fail("gate-with-unknown-block", 0xff, id),
            }
        } else {
            match lookup_tid(tid) {
                Some(o) => o,
                None => fail("gate-from-unknown-thread", 0xff, id),
            }
        }
    } else {
        match lookup_addr(block) {
            Some(o) => o,
            None => fail("gate-with-unknown-block", 0xff, id),
        }
    };
    if id == 11 || id == 22 {
        // post-condition of the wait on the exit word (the block is still allocated here:
        // only the caller frees it, after this gate)
        let word = unsafe { ((block + 4) as *const u32).read_volatile() };
        if word != 0 {
            EARLY_TOTAL.fetch_add(1, SeqCst);
            let k = EARLY_N.fetch_add(1, SeqCst);
            if k < MAXEARLY {
                unsafe {
                    let e = core::ptr::addr_of_mut!(EARLY) as *mut u32;
                    e.add(k * 3).write(ord as u32);
                    e.add(k * 3 + 1).write(id);
                    e.add(k * 3 + 2).write(word);
                }
            }
        }
    }
    // the handle owner is one actor (the main thread) whatever block it works on
    let me = if is_t { (ord as u32) << 1 | 1 } else { H_ACTOR };
    match MODE.load(SeqCst) {
        1 => {
            arrive(me);
            wait_turn(ord as u32, id, me, tid);
        }
        2 => race_gate(id, is_t),
        _ => {}
    }
    let slot = GT_N.fetch_add(1, SeqCst);
    if slot < MAXG {
        unsafe {
            (*core::ptr::addr_of_mut!(GT))[slot] = (ord as u32) << 16 | id;
            (*core::ptr::addr_of_mut!(GT_TID))[slot] = tid;
        }
    }
    // protocol position of the calling thread (for tagging its allocations): (thread the gate
    // is about, gate).  A spawned thread can itself be the handle owner of another thread.
    if is_t {
        T_LAST[ord].store((ord as u32) << 8 | id, SeqCst);
    } else if tid == MAIN_TID.load(SeqCst) {
        H_LAST.store((ord as u32) << 8 | id, SeqCst);
    } else if let Some(actor) = lookup_tid(tid) {
        T_LAST[actor].store((ord as u32) << 8 | id, SeqCst);
    }
}

/// The running thread reached its next gate (or main reached `finish`): its step is over.
fn arrive(me: u32) {
    let st = STATE.load(SeqCst);
    if st & 3 == 1 && HOLDER.load(SeqCst) == me {
        HOLDER.store(u32::MAX, SeqCst);
        STATE.store(st & !3, SeqCst);
        bump();
    }
}

/// If a thread is on its way out and the kernel has forgotten it, its step is over.
fn poll_exit(st: usize) -> bool {
    let eo = EXIT_ORD.load(SeqCst) as usize;
    let t = TIDS[eo].load(SeqCst);
    if t != 0 && sys::thread_gone(PID.load(SeqCst), t) {
        if STATE.compare_exchange(st, st & !3, SeqCst, SeqCst).is_ok() {
            bump();
        }
        return true;
    }
    false
}

fn settle_previous() {
    let st = SETTLE_TID.swap(0, SeqCst);
    if st != 0 {
        // the previous step sent `st` to sleep on the exit word: wait until it is asleep
        let t0 = sys::now_us();
        loop {
            if sys::thread_state(st) == b'S' {
                break;
            }
            if sys::now_us() - t0 > 300_000 {
                SETTLE_TIMEOUTS.fetch_add(1, SeqCst);
                break;
            }
            sys::sched_yield();
        }
    }
    let d = DELAY_US.load(SeqCst);
    if d > 0 && PREV_KIND.load(SeqCst) != 0 {
        sys::sleep_us(d);
    }
}

fn wait_turn(ord: u32, id: u32, me: u32, tid: u32) {
    let t0 = sys::now_us();
    let len = SCHED_LEN.load(SeqCst);
    loop {
        let ep = EPOCH.load(SeqCst);
        let st = STATE.load(SeqCst);
        let busy = st & 3;
        let pos = st >> 2;
        if busy == 2 {
            if poll_exit(st) {
                continue;
            }
        } else if busy == 0 && pos < len {
            let e = sched_at(pos);
            if e >> 16 == ord && e & 0xff == id {
                settle_previous();
                let kind = (e >> 8) & 0xff;
                let nb = match kind {
                    0 => {
                        HOLDER.store(me, SeqCst);
                        1
                    }
                    1 => {
                        SETTLE_TID.store(tid, SeqCst);
                        0
                    }
                    _ => {
                        EXIT_ORD.store(ord, SeqCst);
                        2
                    }
                };
                PREV_KIND.store(kind, SeqCst);
                // only this thread matches entry `pos`, nobody else can move STATE now
                STATE.store((pos + 1) << 2 | nb, SeqCst);
                bump();
                return;
            }
        }
        if sys::now_us() - t0 > TIMEOUT_US.load(SeqCst) {
            fail("gate-not-reached", ord, id);
        }
        if busy == 2 {
            sys::sleep_us(30);
        } else {
            wait_epoch(ep);
        }
    }
}

/// Main thread, after the scenario body: the schedule must run out and every spawned
/// thread must leave.  Returns the number of threads still alive at the deadline.
pub fn finish() -> usize {
    let t0 = sys::now_us();
    let tmo = TIMEOUT_US.load(SeqCst);
    if MODE.load(SeqCst) == 1 {
        // main's last step ends here
        let st = STATE.load(SeqCst);
        if st & 3 == 1 && HOLDER.load(SeqCst) == H_ACTOR {
            HOLDER.store(u32::MAX, SeqCst);
            STATE.store(st & !3, SeqCst);
            bump();
        }
        let len = SCHED_LEN.load(SeqCst);
        loop {
            let ep = EPOCH.load(SeqCst);
            let st = STATE.load(SeqCst);
            if st & 3 == 2 {
                if poll_exit(st) {
                    continue;
                }
            } else if st & 3 == 0 && st >> 2 >= len {
                break;
            }
            if sys::now_us() - t0 > tmo {
                fail("gate-not-reached", 0xff, 0);
            }
            if st & 3 == 2 {
                sys::sleep_us(30);
            } else {
                wait_epoch(ep);
            }
        }
    }
    wait_all_gone(tmo)
}

/// Wait until every thread that announced itself at THREAD_BEFORE_BODY is gone.
pub fn wait_all_gone(tmo: u64) -> usize {
    let t0 = sys::now_us();
    let pid = PID.load(SeqCst);
    loop {
        let mut alive = 0;
        for o in 0..NBLOCKS.load(SeqCst) {
            let t = TIDS[o].load(SeqCst);
            if t != 0 && !sys::thread_gone(pid, t) {
                alive += 1;
            }
        }
        if alive == 0 || sys::now_us() - t0 > tmo {
            return alive;
        }
        sys::sleep_us(50);
    }
}

pub fn dump_early() {
    let n = core::cmp::min(EARLY_N.swap(0, SeqCst), MAXEARLY);
    for k in 0..n {
        let (o, g, w) = unsafe {
            let e = core::ptr::addr_of!(EARLY) as *const u32;
            (e.add(k * 3).read(), e.add(k * 3 + 1).read(), e.add(k * 3 + 2).read())
        };
        out::s("early ");
        out::u(o as u64);
        out::sp();
        out::u(g as u64);
        out::sp();
        out::x(w as u64);
        out::nl();
    }
    out::line("early_total", &[EARLY_TOTAL.load(SeqCst) as u64]);
}

pub fn dump_ids() {
    dump_early();
    for o in 0..NBLOCKS.load(SeqCst) {
        out::s("block ");
        out::u(o as u64);
        out::sp();
        out::x(BLOCKS[o].load(SeqCst) as u64);
        out::nl();
        out::line("tid", &[o as u64, TIDS[o].load(SeqCst) as u64]);
    }
}

pub fn dump() {
    dump_ids();
    let n = core::cmp::min(GT_N.load(SeqCst), MAXG);
    for i in 0..n {
        let (g, t) = unsafe {
            (
                (*core::ptr::addr_of!(GT))[i],
                (*core::ptr::addr_of!(GT_TID))[i],
            )
        };
        out::line("gt", &[(g >> 16) as u64, (g & 0xffff) as u64, t as u64]);
    }
    out::line(
        "settle_timeouts",
        &[SETTLE_TIMEOUTS.load(SeqCst) as u64],
    );
}

/// Conformance failure: the run cannot follow the schedule.  Report and leave.
pub fn fail(why: &str, ord: u32, id: u32) -> ! {
    out::lock();
    let st = STATE.load(SeqCst);
    let pos = st >> 2;
    let len = SCHED_LEN.load(SeqCst);
    out::s("stuck ");
    out::s(why);
    out::s(" waiter ");
    out::u(ord as u64);
    out::sp();
    out::u(id as u64);
    out::s(" pos ");
    out::u(pos as u64);
    out::s(" busy ");
    out::u((st & 3) as u64);
    out::s(" want ");
    // the first schedule entry that was not reached: when a step is still "running"
    // the thread never arrived at the gate after it; otherwise entry `pos` itself
    if pos < len {
        let e = sched_at(pos);
        out::u((e >> 16) as u64);
        out::sp();
        out::u((e & 0xff) as u64);
    } else {
        out::s("end 0");
    }
    out::nl();
    dump();
    galloc::dump(true);
    out::s("aborted\n");
    out::flush();
    sys::exit_group(3)
}
