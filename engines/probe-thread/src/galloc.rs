//! The probe's `#[global_allocator]`: the repository's `Dlmalloc` behind a spin lock
//! (same shape as tiny-std's `global-allocator` feature) with COUNTING, a LOG and
//! QUARANTINE.
//!
//! * every alloc/dealloc is appended to a fixed-size static log (address, size, align,
//!   tid, and the protocol position = last gate passed by that thread);
//! * a table of live allocations makes a dealloc of a non-live address (double or
//!   foreign free) visible; such a free is recorded and NOT forwarded;
//! * with quarantine on, freed blocks are not returned to Dlmalloc but filled with a
//!   poison byte and kept; `dump` re-verifies the poison, so a write into freed memory
//!   (e.g. the kernel's clear-tid store into a freed join block) is detected.
use crate::{ctl, out, sys};
use core::alloc::{GlobalAlloc, Layout};
use core::cell::UnsafeCell;
use core::sync::atomic::{AtomicBool, Ordering};
use tiny_std::allocator::dlmalloc::Dlmalloc;

pub const POISON: u8 = 0xA5;
/// RED ZONES: every block handed out sits between a front zone of max(align, 16) bytes and a rear
/// zone of max(align, 64) bytes, both filled with CANARY; they are verified when the block is freed, when it
/// leaves the quarantine and at every dump, so a write before / past a block is seen even if it
/// hits nothing else.
pub const CANARY: u8 = 0xC7;
/// rear zone: 64 bytes, or the alignment if that is larger (an over-aligned value put at a wrong
/// offset can overshoot by almost its alignment)
fn rear_of(align: usize) -> usize {
    if align > 64 {
        align
    } else {
        64
    }
}

fn front_of(align: usize) -> usize {
    if align > 16 {
        align
    } else {
        16
    }
}
const MAXLIVE: usize = 4096;
const MAXLOG: usize = 16384;
const MAXQ: usize = 4096;

#[derive(Copy, Clone)]
struct Live {
    addr: usize,
    size: usize,
    align: usize,
}

#[derive(Copy, Clone)]
struct LogEnt {
    op: u8, // b'a' alloc, b'f' free, b'D' double free (address in quarantine), b'F' foreign free, b'N' alloc returned null
    ctx_ord: u8,
    ctx_gate: u8,
    tid: u32,
    addr: usize,
    size: usize,
    align: usize,
}

struct Inner {
    dl: Dlmalloc,
    live: [Live; MAXLIVE],
    nlive: usize,
    live_bytes: usize,
    live_hash: u64,
    log: [LogEnt; MAXLOG],
    nlog: usize,
    log_lost: usize,
    quar: [Live; MAXQ], // ring: oldest at qhead
    qhead: usize,
    nquar: usize,
    evict_bad: u64,
    evict_first: [usize; 4], // addr, size, offset, byte of the first spoiled evicted block
    canary_bad: u64,
    canary_rec: [[usize; 5]; 8], // addr, size, 0 front / 1 rear, offset inside the zone, byte
    ncanary_rec: usize,
    quar_lost: usize,
    live_lost: usize,
    allocs: u64,
    frees: u64,
    bad_frees: u64,
    log_on: bool,
    quar_on: bool,
}

pub struct Counting {
    lock: AtomicBool,
    inner: UnsafeCell<Inner>,
}

unsafe impl Sync for Counting {}

const L0: Live = Live {
    addr: 0,
    size: 0,
    align: 0,
};
const E0: LogEnt = LogEnt {
    op: 0,
    ctx_ord: 0,
    ctx_gate: 0,
    tid: 0,
    addr: 0,
    size: 0,
    align: 0,
};

#[global_allocator]
pub static GA: Counting = Counting {
    lock: AtomicBool::new(false),
    inner: UnsafeCell::new(Inner {
        dl: Dlmalloc::new(),
        live: [L0; MAXLIVE],
        nlive: 0,
        live_bytes: 0,
        live_hash: 0,
        log: [E0; MAXLOG],
        nlog: 0,
        log_lost: 0,
        quar: [L0; MAXQ],
        qhead: 0,
        nquar: 0,
        evict_bad: 0,
        evict_first: [0; 4],
        canary_bad: 0,
        canary_rec: [[0; 5]; 8],
        ncanary_rec: 0,
        quar_lost: 0,
        live_lost: 0,
        allocs: 0,
        frees: 0,
        bad_frees: 0,
        log_on: false,
        quar_on: false,
    }),
};

fn mix(size: usize, align: usize) -> u64 {
    let mut h = (size as u64).wrapping_mul(0x9E37_79B9_7F4A_7C15) ^ (align as u64).wrapping_mul(0xC2B2_AE3D_27D4_EB4F);
    h ^= h >> 29;
    h = h.wrapping_mul(0xBF58_476D_1CE4_E5B9);
    h ^= h >> 32;
    h
}

impl Counting {
    fn with<R>(&self, f: impl FnOnce(&mut Inner) -> R) -> R {
        while self.lock.swap(true, Ordering::Acquire) {
            sys::sched_yield();
        }
        let r = f(unsafe { &mut *self.inner.get() });
        self.lock.store(false, Ordering::Release);
        r
    }
}

impl Inner {
    /// verify both red zones of a block; spoiled bytes are counted and the first few recorded
    unsafe fn check_zones(&mut self, b: Live) {
        let front = front_of(b.align);
        let base = (b.addr - front) as *const u8;
        for (which, start, len) in [(0usize, 0usize, front), (1, front + b.size, rear_of(b.align))] {
            let mut first = true;
            for off in 0..len {
                let v = base.add(start + off).read_volatile();
                if v != CANARY {
                    self.canary_bad += 1;
                    if first && self.ncanary_rec < 8 {
                        self.canary_rec[self.ncanary_rec] = [b.addr, b.size, which, off, v as usize];
                        self.ncanary_rec += 1;
                    }
                    first = false;
                    // heal, so that the same damage is reported once
                    (base.add(start + off) as *mut u8).write_volatile(CANARY);
                }
            }
        }
    }

    unsafe fn real_free(&mut self, b: Live) {
        self.dl.free((b.addr - front_of(b.align)) as *mut u8);
    }

    fn push_log(&mut self, op: u8, addr: usize, size: usize, align: usize) {
        if !self.log_on {
            return;
        }
        if self.nlog >= MAXLOG {
            self.log_lost += 1;
            return;
        }
        let tid = sys::gettid();
        let (o, g) = ctl::ctx_of(tid);
        self.log[self.nlog] = LogEnt {
            op,
            ctx_ord: o as u8,
            ctx_gate: g as u8,
            tid,
            addr,
            size,
            align,
        };
        self.nlog += 1;
    }
}

unsafe impl GlobalAlloc for Counting {
    unsafe fn alloc(&self, l: Layout) -> *mut u8 {
        self.with(|s| {
            let front = front_of(l.align());
            let rear = rear_of(l.align());
            let base = s.dl.malloc(front + l.size() + rear, l.align());
            if base.is_null() {
                s.push_log(b'N', 0, l.size(), l.align());
                return base;
            }
            core::ptr::write_bytes(base, CANARY, front);
            core::ptr::write_bytes(base.add(front + l.size()), CANARY, rear);
            let p = base.add(front);
            s.allocs += 1;
            if s.nlive < MAXLIVE {
                s.live[s.nlive] = Live {
                    addr: p as usize,
                    size: l.size(),
                    align: l.align(),
                };
                s.nlive += 1;
            } else {
                s.live_lost += 1;
            }
            s.live_bytes += l.size();
            s.live_hash = s.live_hash.wrapping_add(mix(l.size(), l.align()));
            s.push_log(b'a', p as usize, l.size(), l.align());
            p
        })
    }

    unsafe fn dealloc(&self, p: *mut u8, l: Layout) {
        self.with(|s| {
            let a = p as usize;
            let mut found = usize::MAX;
            for i in 0..s.nlive {
                if s.live[i].addr == a {
                    found = i;
                    break;
                }
            }
            if found == usize::MAX {
                let mut inq = false;
                for i in 0..s.nquar {
                    if s.quar[(s.qhead + i) % MAXQ].addr == a {
                        inq = true;
                        break;
                    }
                }
                s.bad_frees += 1;
                s.push_log(if inq { b'D' } else { b'F' }, a, l.size(), l.align());
                return; // never forwarded: the real allocator stays intact
            }
            let ent = s.live[found];
            s.nlive -= 1;
            s.live[found] = s.live[s.nlive];
            s.live_bytes -= ent.size;
            s.live_hash = s.live_hash.wrapping_sub(mix(ent.size, ent.align));
            s.frees += 1;
            s.check_zones(ent);
            // log the layout the caller passed (a mismatch with the allocation's is visible)
            s.push_log(b'f', a, l.size(), l.align());
            if s.quar_on {
                if s.nquar == MAXQ {
                    // ring full: the oldest block leaves - its poison is verified first
                    let old = s.quar[s.qhead];
                    s.qhead = (s.qhead + 1) % MAXQ;
                    s.nquar -= 1;
                    s.quar_lost += 1;
                    let op = old.addr as *const u8;
                    for off in 0..old.size {
                        let b = op.add(off).read_volatile();
                        if b != POISON {
                            if s.evict_bad == 0 {
                                s.evict_first = [old.addr, old.size, off, b as usize];
                            }
                            s.evict_bad += 1;
                        }
                    }
                    s.check_zones(old);
                    s.real_free(old);
                }
                core::ptr::write_bytes(p, POISON, ent.size);
                let at = (s.qhead + s.nquar) % MAXQ;
                s.quar[at] = ent;
                s.nquar += 1;
            } else {
                s.real_free(ent);
            }
        });
    }

    unsafe fn alloc_zeroed(&self, l: Layout) -> *mut u8 {
        let p = self.alloc(l);
        if !p.is_null() {
            core::ptr::write_bytes(p, 0, l.size());
        }
        p
    }

    unsafe fn realloc(&self, p: *mut u8, l: Layout, new_size: usize) -> *mut u8 {
        let nl = Layout::from_size_align_unchecked(new_size, l.align());
        let np = self.alloc(nl);
        if !np.is_null() {
            core::ptr::copy_nonoverlapping(p, np, core::cmp::min(l.size(), new_size));
            self.dealloc(p, l);
        }
        np
    }
}

/// Gate 1 announces the join block of thread `ord`: a marker entry in the log
pub fn note_block(addr: usize, ord: usize) {
    GA.with(|s| {
        if s.log_on && s.nlog < MAXLOG {
            s.log[s.nlog] = LogEnt {
                op: b'b',
                ctx_ord: ord as u8,
                ctx_gate: 1,
                tid: 0,
                addr,
                size: 0,
                align: 0,
            };
            s.nlog += 1;
        }
    });
}

/// Start a new log section (race batches): entries so far have been printed
pub fn reset_log() {
    GA.with(|s| {
        s.nlog = 0;
    });
}

pub fn configure(log_on: bool, quar_on: bool) {
    GA.with(|s| {
        s.log_on = log_on;
        s.quar_on = quar_on;
    });
}

/// (live count, live bytes, order-independent hash of the live (size, align) multiset)
pub fn fingerprint() -> (u64, u64, u64) {
    GA.with(|s| (s.nlive as u64, s.live_bytes as u64, s.live_hash))
}

/// Print the log, the poison verdict and the counters.  `locked`: the caller already
/// holds the output lock (failure path).
pub fn dump(_locked: bool) {
    // Copy nothing: read under the allocator lock, printing does not allocate.
    GA.with(|s| {
        for i in 0..s.nlog {
            let e = s.log[i];
            out::s("a ");
            out::bytes(&[e.op]);
            out::sp();
            out::x(e.addr as u64);
            out::sp();
            out::u(e.size as u64);
            out::sp();
            out::u(e.align as u64);
            out::sp();
            out::u(e.tid as u64);
            out::sp();
            out::u(e.ctx_ord as u64);
            out::sp();
            out::u(e.ctx_gate as u64);
            out::nl();
        }
        let mut bad = s.evict_bad;
        if s.evict_bad > 0 {
            out::s("poisonbad ");
            out::x(s.evict_first[0] as u64);
            out::sp();
            out::u(s.evict_first[1] as u64);
            out::sp();
            out::u(s.evict_first[2] as u64);
            out::sp();
            out::u(s.evict_first[3] as u64);
            out::nl();
        }
        for i in 0..s.nquar {
            let q = s.quar[(s.qhead + i) % MAXQ];
            let p = q.addr as *const u8;
            for off in 0..q.size {
                let b = unsafe { p.add(off).read_volatile() };
                if b != POISON {
                    bad += 1;
                    if bad <= 16 {
                        out::s("poisonbad ");
                        out::x(q.addr as u64);
                        out::sp();
                        out::u(q.size as u64);
                        out::sp();
                        out::u(off as u64);
                        out::sp();
                        out::u(b as u64);
                        out::nl();
                    }
                }
            }
        }
        out::line("poison", &[s.nquar as u64, bad]);
        // red zones of everything still allocated or quarantined
        for i in 0..s.nquar {
            let q = s.quar[(s.qhead + i) % MAXQ];
            unsafe { s.check_zones(q) };
        }
        for i in 0..s.nlive {
            let l = s.live[i];
            unsafe { s.check_zones(l) };
        }
        for i in 0..s.ncanary_rec {
            let r = s.canary_rec[i];
            out::s("canarybad ");
            out::x(r[0] as u64);
            out::sp();
            out::u(r[1] as u64);
            out::sp();
            out::u(r[2] as u64);
            out::sp();
            out::u(r[3] as u64);
            out::sp();
            out::u(r[4] as u64);
            out::nl();
        }
        s.ncanary_rec = 0;
        out::line("canary", &[(s.nquar + s.nlive) as u64, s.canary_bad]);
        for i in 0..(if s.log_on { s.nlive } else { 0 }) {
            let l = s.live[i];
            out::s("live ");
            out::x(l.addr as u64);
            out::sp();
            out::u(l.size as u64);
            out::sp();
            out::u(l.align as u64);
            out::nl();
        }
        out::line(
            "counters",
            &[
                s.allocs,
                s.frees,
                s.bad_frees,
                s.log_lost as u64,
                s.quar_lost as u64,
                s.live_lost as u64,
            ],
        );
    });
}
