//! probe-thread: no-libc probe for C05 (spawn/join) and C06 (thread resources).
//!
//!   probe-thread gated <timeout_ms> <delay_us> <order f|r> <specs> <schedule>
//!   probe-thread free  <timeout_ms> <order f|r> <specs>
//!   probe-thread hist  <timeout_ms> <reps> <log 0|1> <specs>
//!   probe-thread fault <n>
//!   probe-thread nest  <timeout_ms> <ty u64|box> <pad> <levels kind.op,...>   (nested spawning)
//!   probe-thread race  <timeout_ms> <rounds> <batch> <gh> <gt> <hold_h> <maxskew> <spec>
//!                      (SAMPLED gate-aligned race sweep, see ctl::race_gate)
//!
//! specs    = `type:outcome:op` joined by `,`
//!            type    unit|u8|u64|a3|al64|big|box|str
//!            outcome r (closure returns) | p (closure panics)
//!                    | e / o (panics inside an argument of tiny_std::eprintln! / println!, i.e. while
//!                      the macro holds the print lock) | m / w (panics while holding a tiny_std Mutex
//!                      guard / RwLock write guard made in the closure)
//!                    | E / P (prints a line with eprintln! / println!, then returns)
//!            op      j join | d drop   (hist only: J join after the thread is gone,
//!                    w join while the thread sleeps 1.5 ms, s ... 300 ms, e drop while the thread is held back,
//!                    l drop after the thread is gone, x drop at once, unsynchronised)
//! schedule = `ord.gate.kind` joined by `,` (see ctl.rs)
//!
//! The report is line oriented on stdout (see `steps_thread.py` for the reader).
#![no_std]
#![no_main]
extern crate alloc;

mod ctl;
mod galloc;
mod out;
mod sys;

use alloc::boxed::Box;
use alloc::string::String;
use core::sync::atomic::{AtomicU32, AtomicU64, Ordering::SeqCst};
use tiny_std::thread::{spawn, JoinHandle};

const MAXN: usize = ctl::MAXT;

static RUNS: [AtomicU32; MAXN] = [const { AtomicU32::new(0) }; MAXN];
/// plain (non-atomic) memory written by the closures: the "memory effects" of C05
static mut EFFECT: [u64; MAXN] = [0; MAXN];
static CL_TID: [AtomicU32; MAXN] = [const { AtomicU32::new(0) }; MAXN];
static STARTED: AtomicU32 = AtomicU32::new(0);
static GO: [AtomicU32; MAXN] = [const { AtomicU32::new(0) }; MAXN];

#[derive(Copy, Clone, PartialEq)]
enum Ty {
    Unit,
    U8,
    U64,
    A3,
    Al64,
    Big,
    Bx,
    Str,
    A16,
    A32,
    A64x,
    A4k,
    Pd,
    Pdb,
    Tok,
    VecT,
    Lease,
    En,
}

// ---- results whose `Option::None` is NOT the all-zero pattern (niche in a field) ----

/// counts its destructor runs per id; id 0 is never made
struct Token {
    live: bool,
    id: u32,
}
static TOK_MADE: [AtomicU32; MAXN] = [const { AtomicU32::new(0) }; MAXN];
static TOK_DROPS: [AtomicU32; MAXN] = [const { AtomicU32::new(0) }; MAXN];
/// [made, dropped, dropped with id 0 (a value nobody made), dropped with live == false]
static TOK_TOTAL: [AtomicU32; 4] = [const { AtomicU32::new(0) }; 4];
impl Drop for Token {
    fn drop(&mut self) {
        if self.id == 0 {
            TOK_TOTAL[2].fetch_add(1, SeqCst);
        } else if !self.live {
            TOK_TOTAL[3].fetch_add(1, SeqCst);
        } else {
            TOK_TOTAL[1].fetch_add(1, SeqCst);
            TOK_DROPS[(self.id as usize - 1) % MAXN].fetch_add(1, SeqCst);
        }
    }
}
fn mk_tok(t: u64) -> Token {
    TOK_TOTAL[0].fetch_add(1, SeqCst);
    TOK_MADE[t as usize % MAXN].fetch_add(1, SeqCst);
    Token {
        live: true,
        id: (t % 0xffff_fff0) as u32 + 1,
    }
}
fn mk_vec(t: u64) -> alloc::vec::Vec<u8> {
    let mut v = alloc::vec::Vec::with_capacity(16);
    for i in 0..12u64 {
        v.push((t * 3 + i * 5 + 2) as u8);
    }
    v
}
struct Lease {
    b: Box<u64>,
    armed: bool,
}
fn mk_lease(t: u64) -> Lease {
    Lease {
        b: Box::new(v64(t).wrapping_add(11)),
        armed: true,
    }
}
#[derive(Copy, Clone)]
enum Color {
    Red,
    Green,
    Blue,
}
fn mk_en(t: u64) -> Color {
    match t % 3 {
        0 => Color::Red,
        1 => Color::Green,
        _ => Color::Blue,
    }
}

fn tok_report(n: usize) {
    for o in 0..n {
        let slot = o % MAXN;
        let (m, d) = (TOK_MADE[slot].load(SeqCst), TOK_DROPS[slot].load(SeqCst));
        if m != 0 || d != 0 {
            out::line("tok", &[o as u64, m as u64, d as u64]);
        }
    }
    out::line(
        "toktotal",
        &[
            TOK_TOTAL[0].load(SeqCst) as u64,
            TOK_TOTAL[1].load(SeqCst) as u64,
            TOK_TOTAL[2].load(SeqCst) as u64,
            TOK_TOTAL[3].load(SeqCst) as u64,
        ],
    );
}

/// over-aligned results whose LAST bytes are significant
#[repr(align(32))]
#[derive(Copy, Clone)]
struct A32([u8; 40]);
#[repr(align(64))]
#[derive(Copy, Clone)]
struct A64x([u8; 65]);
#[repr(align(4096))]
#[derive(Copy, Clone)]
struct A4k([u8; 100]);

/// results whose destructor panics (not heap-owning / heap-owning)
struct PanicOnDrop(u64);
impl Drop for PanicOnDrop {
    fn drop(&mut self) {
        panic!("probe: the result's destructor panics ({})", self.0);
    }
}
impl PanicOnDrop {
    /// take the value apart without running the destructor (what a careful caller does)
    fn disarm(self) -> u64 {
        let v = self.0;
        core::mem::forget(self);
        v
    }
}
struct PanicOnDropBox(Box<u64>);
impl Drop for PanicOnDropBox {
    fn drop(&mut self) {
        panic!("probe: the heap-owning result's destructor panics ({})", *self.0);
    }
}
impl PanicOnDropBox {
    fn disarm(self) -> u64 {
        let b = unsafe { core::ptr::read(&self.0) };
        core::mem::forget(self);
        *b
    }
}

fn pattern<const N: usize>(t: u64) -> [u8; N] {
    let mut b = [0u8; N];
    for (i, x) in b.iter_mut().enumerate() {
        *x = (t as usize * 7 + i * 13 + 1) as u8;
    }
    b
}
fn mk_a16(t: u64) -> u128 {
    ((v64(t) as u128) << 64) | (v64(t + 1) as u128)
}
fn mk_a32(t: u64) -> A32 {
    A32(pattern(t))
}
fn mk_a64x(t: u64) -> A64x {
    A64x(pattern(t))
}
fn mk_a4k(t: u64) -> A4k {
    A4k(pattern(t))
}
fn mk_pd(t: u64) -> PanicOnDrop {
    PanicOnDrop(v64(t))
}
fn mk_pdb(t: u64) -> PanicOnDropBox {
    PanicOnDropBox(Box::new(v64(t).wrapping_add(7)))
}

#[repr(align(64))]
#[derive(Copy, Clone)]
struct Al64 {
    a: u64,
    b: [u8; 56],
}

enum Hd {
    Unit(JoinHandle<()>),
    U8(JoinHandle<u8>),
    U64(JoinHandle<u64>),
    A3(JoinHandle<[u8; 3]>),
    Al64(JoinHandle<Al64>),
    Big(JoinHandle<[u64; 512]>),
    Bx(JoinHandle<Box<u64>>),
    Str(JoinHandle<String>),
    A16(JoinHandle<u128>),
    A32(JoinHandle<A32>),
    A64x(JoinHandle<A64x>),
    A4k(JoinHandle<A4k>),
    Pd(JoinHandle<PanicOnDrop>),
    Pdb(JoinHandle<PanicOnDropBox>),
    Tok(JoinHandle<Token>),
    VecT(JoinHandle<alloc::vec::Vec<u8>>),
    Lease(JoinHandle<Lease>),
    En(JoinHandle<Color>),
}

#[derive(Copy, Clone)]
struct Spec {
    ty: Ty,
    panics: bool,
    kind: u8,
    op: u8,
}

/// Its Display impl panics: `eprintln!("{}", PanicsInDisplay(..))` panics while the macro holds its lock
struct PanicsInDisplay(u64);

impl core::fmt::Display for PanicsInDisplay {
    fn fmt(&self, _f: &mut core::fmt::Formatter<'_>) -> core::fmt::Result {
        panic!("probe: panic inside a print macro argument (thread tag {})", self.0);
    }
}

// ---- result values: a function of the thread's tag, mirrored in steps_thread.py ----

fn v64(t: u64) -> u64 {
    t.wrapping_mul(0x9E37_79B9_7F4A_7C15).wrapping_add(1)
}
fn mk_unit(_t: u64) {}
fn mk_u8(t: u64) -> u8 {
    (t.wrapping_mul(37).wrapping_add(11)) as u8
}
fn mk_u64(t: u64) -> u64 {
    v64(t)
}
fn mk_a3(t: u64) -> [u8; 3] {
    [t as u8, (t + 1) as u8, (t + 2) as u8]
}
fn mk_al64(t: u64) -> Al64 {
    let mut b = [0u8; 56];
    for (i, x) in b.iter_mut().enumerate() {
        *x = (t as usize + i) as u8;
    }
    Al64 { a: v64(t), b }
}
fn mk_big(t: u64) -> [u64; 512] {
    let mut v = [0u64; 512];
    for (i, x) in v.iter_mut().enumerate() {
        *x = v64(t) ^ i as u64;
    }
    v
}
fn mk_box(t: u64) -> Box<u64> {
    Box::new(v64(t).wrapping_add(7))
}
fn mk_str(t: u64) -> String {
    let mut s = String::with_capacity(24);
    s.push_str("thread-");
    let mut tmp = [0u8; 20];
    let mut n = 0;
    let mut v = t;
    if v == 0 {
        tmp[0] = b'0';
        n = 1;
    }
    while v > 0 {
        tmp[n] = b'0' + (v % 10) as u8;
        v /= 10;
        n += 1;
    }
    while n > 0 {
        n -= 1;
        s.push(tmp[n] as char);
    }
    s.push_str("-result");
    s
}

fn fnv(bytes: &[u8], mut h: u64) -> u64 {
    for b in bytes {
        h ^= *b as u64;
        h = h.wrapping_mul(0x0000_0100_0000_01B3);
    }
    h
}
const FNV0: u64 = 0xcbf2_9ce4_8422_2325;

fn effect_val(tag: u64) -> u64 {
    v64(tag) ^ 0x5555_5555_5555_5555
}

// ---- the closures ----

/// hold: 0 run at once; 1 wait until main sets GO[slot]; 2 sleep 1.5 ms first
fn body<T>(slot: usize, tag: u64, kind: u8, hold: u8, mk: fn(u64) -> T) -> T {
    CL_TID[slot].store(sys::gettid(), SeqCst);
    STARTED.fetch_add(1, SeqCst);
    if hold == 1 {
        while GO[slot].load(SeqCst) == 0 {
            sys::futex_wait_timeout(&GO[slot], 0, 1000);
        }
    } else if hold == 2 {
        sys::sleep_us(1500);
    } else if hold == 3 {
        sys::sleep_us(300_000);
    }
    RUNS[slot].fetch_add(1, SeqCst);
    unsafe {
        let p = (core::ptr::addr_of_mut!(EFFECT) as *mut u64).add(slot);
        p.write(effect_val(tag));
    }
    match kind {
        b'p' => panic!("probe: this closure panics"),
        b'e' => {
            // no literal text before the argument: nothing may reach the stream
            tiny_std::eprintln!("{}", PanicsInDisplay(tag));
            panic!("probe: unreachable");
        }
        b'o' => {
            tiny_std::println!("{}", PanicsInDisplay(tag));
            panic!("probe: unreachable");
        }
        b'm' => {
            let mx = tiny_std::sync::Mutex::new(tag);
            let g = mx.lock();
            if *g == tag {
                panic!("probe: panic while holding a mutex guard");
            }
        }
        b'w' => {
            let rw = tiny_std::sync::RwLock::new(tag);
            let g = rw.write();
            if *g == tag {
                panic!("probe: panic while holding a write guard");
            }
        }
        b'E' => tiny_std::eprintln!("# probe thread {} prints to stderr", tag),
        b'P' => tiny_std::println!("# probe thread {} prints to stdout", tag),
        _ => {}
    }
    mk(tag)
}

fn spawn_one(slot: usize, tag: u64, sp: Spec, hold: u8) -> tiny_std::Result<Hd> {
    let p = sp.kind;
    RUNS[slot].store(0, SeqCst);
    CL_TID[slot].store(0, SeqCst);
    GO[slot].store(0, SeqCst);
    TOK_MADE[slot].store(0, SeqCst);
    TOK_DROPS[slot].store(0, SeqCst);
    unsafe {
        (core::ptr::addr_of_mut!(EFFECT) as *mut u64).add(slot).write(0);
    }
    Ok(match sp.ty {
        Ty::Unit => Hd::Unit(spawn(move || body(slot, tag, p, hold, mk_unit))?),
        Ty::U8 => Hd::U8(spawn(move || body(slot, tag, p, hold, mk_u8))?),
        Ty::U64 => Hd::U64(spawn(move || body(slot, tag, p, hold, mk_u64))?),
        Ty::A3 => Hd::A3(spawn(move || body(slot, tag, p, hold, mk_a3))?),
        Ty::Al64 => Hd::Al64(spawn(move || body(slot, tag, p, hold, mk_al64))?),
        Ty::Big => Hd::Big(spawn(move || body(slot, tag, p, hold, mk_big))?),
        Ty::Bx => Hd::Bx(spawn(move || body(slot, tag, p, hold, mk_box))?),
        Ty::Str => Hd::Str(spawn(move || body(slot, tag, p, hold, mk_str))?),
        Ty::A16 => Hd::A16(spawn(move || body(slot, tag, p, hold, mk_a16))?),
        Ty::A32 => Hd::A32(spawn(move || body(slot, tag, p, hold, mk_a32))?),
        Ty::A64x => Hd::A64x(spawn(move || body(slot, tag, p, hold, mk_a64x))?),
        Ty::A4k => Hd::A4k(spawn(move || body(slot, tag, p, hold, mk_a4k))?),
        Ty::Pd => Hd::Pd(spawn(move || body(slot, tag, p, hold, mk_pd))?),
        Ty::Pdb => Hd::Pdb(spawn(move || body(slot, tag, p, hold, mk_pdb))?),
        Ty::Tok => Hd::Tok(spawn(move || body(slot, tag, p, hold, mk_tok))?),
        Ty::VecT => Hd::VecT(spawn(move || body(slot, tag, p, hold, mk_vec))?),
        Ty::Lease => Hd::Lease(spawn(move || body(slot, tag, p, hold, mk_lease))?),
        Ty::En => Hd::En(spawn(move || body(slot, tag, p, hold, mk_en))?),
    })
}

/// Joins; returns Some(digest of the value) or None.  The value is dropped here, on the
/// joining thread.
fn join_digest(h: Hd) -> Option<u64> {
    match h {
        Hd::Unit(h) => h.join().map(|()| FNV0),
        Hd::U8(h) => h.join().map(|v| fnv(&[v], FNV0)),
        Hd::U64(h) => h.join().map(|v| fnv(&v.to_le_bytes(), FNV0)),
        Hd::A3(h) => h.join().map(|v| fnv(&v, FNV0)),
        Hd::Al64(h) => h.join().map(|v| {
            let misaligned = (core::ptr::addr_of!(v) as usize) % 64 != 0;
            let d = fnv(&v.b, fnv(&v.a.to_le_bytes(), FNV0));
            if misaligned {
                !d
            } else {
                d
            }
        }),
        Hd::Big(h) => h.join().map(|v| {
            let mut d = FNV0;
            for x in v.iter() {
                d = fnv(&x.to_le_bytes(), d);
            }
            d
        }),
        Hd::Bx(h) => h.join().map(|v| fnv(&(*v).to_le_bytes(), FNV0)),
        Hd::Str(h) => h.join().map(|v| fnv(v.as_bytes(), FNV0)),
        Hd::A16(h) => h.join().map(|v| fnv(&v.to_le_bytes(), FNV0)),
        Hd::A32(h) => h.join().map(|v| fnv(&v.0, FNV0)),
        Hd::A64x(h) => h.join().map(|v| fnv(&v.0, FNV0)),
        Hd::A4k(h) => h.join().map(|v| fnv(&v.0, FNV0)),
        // the joiner owns the value now; running its panicking destructor is the caller's business
        Hd::Pd(h) => h.join().map(|v| fnv(&v.disarm().to_le_bytes(), FNV0)),
        Hd::Pdb(h) => h.join().map(|v| fnv(&v.disarm().to_le_bytes(), FNV0)),
        Hd::Tok(h) => h.join().map(|v| fnv(&[u8::from(v.live)], fnv(&v.id.to_le_bytes(), FNV0))),
        Hd::VecT(h) => h.join().map(|v| fnv(&v, FNV0)),
        Hd::Lease(h) => h.join().map(|v| fnv(&[u8::from(v.armed)], fnv(&(*v.b).to_le_bytes(), FNV0))),
        Hd::En(h) => h.join().map(|v| fnv(&[v as u8], FNV0)),
    }
}

fn effect_of(slot: usize) -> u64 {
    unsafe {
        (core::ptr::addr_of!(EFFECT) as *const u64)
            .add(slot)
            .read_volatile()
    }
}

/// join (with strace markers around it) and report
fn do_join(ord: usize, slot: usize, h: Hd) {
    sys::marker(0x1000 + ord * 16 + 1);
    let r = join_digest(h);
    sys::marker(0x1000 + ord * 16 + 2);
    // what this thread sees right after join returned: the closure's plain write
    let eff = effect_of(slot);
    let runs = RUNS[slot].load(SeqCst);
    out::s("join ");
    out::u(ord as u64);
    match r {
        Some(d) => {
            out::s(" some ");
            out::x(d);
        }
        None => out::s(" none 0"),
    }
    out::s(" effect ");
    out::x(eff);
    out::s(" runs ");
    out::u(runs as u64);
    out::nl();
}

fn do_drop(ord: usize, h: Hd) {
    sys::marker(0x1000 + ord * 16 + 3);
    drop(h);
    sys::marker(0x1000 + ord * 16 + 4);
    out::line("drop", &[ord as u64]);
}

// ---- argument parsing ----

fn parse_spec(s: &str) -> Option<Spec> {
    let mut it = s.split(':');
    let ty = match it.next()? {
        "unit" => Ty::Unit,
        "u8" => Ty::U8,
        "u64" => Ty::U64,
        "a3" => Ty::A3,
        "al64" => Ty::Al64,
        "big" => Ty::Big,
        "box" => Ty::Bx,
        "str" => Ty::Str,
        "a16" => Ty::A16,
        "a32" => Ty::A32,
        "a64x" => Ty::A64x,
        "a4k" => Ty::A4k,
        "pd" => Ty::Pd,
        "pdb" => Ty::Pdb,
        "tok" => Ty::Tok,
        "vec" => Ty::VecT,
        "lease" => Ty::Lease,
        "en" => Ty::En,
        _ => return None,
    };
    let kind = it.next()?.as_bytes();
    if kind.len() != 1 || !b"rpeomwEP".contains(&kind[0]) {
        return None;
    }
    let kind = kind[0];
    let panics = b"peomw".contains(&kind);
    let op = it.next()?.as_bytes();
    if op.len() != 1 || !b"jdJwselxT".contains(&op[0]) {
        return None;
    }
    Some(Spec {
        ty,
        panics,
        kind,
        op: op[0],
    })
}

const MAXSPEC: usize = 64;

fn parse_specs(s: &str, specs: &mut [Option<Spec>; MAXSPEC]) -> Option<usize> {
    let mut n = 0;
    for part in s.split(',') {
        if part.is_empty() {
            continue;
        }
        if n >= MAXSPEC {
            return None;
        }
        specs[n] = Some(parse_spec(part)?);
        n += 1;
    }
    Some(n)
}

// ---- process-level observations ----

static mut FILEBUF: [u8; 1 << 18] = [0; 1 << 18];

fn filebuf() -> &'static mut [u8] {
    unsafe { &mut *core::ptr::addr_of_mut!(FILEBUF) }
}

/// (number of lines of /proc/self/maps, VmSize in pages)
fn maps_and_vm(dump_as: Option<&str>) -> (u64, u64) {
    let buf = filebuf();
    let n = sys::read_file(b"/proc/self/maps\0", buf);
    let mut lines = 0u64;
    let mut start = 0usize;
    for i in 0..n {
        if buf[i] == b'\n' {
            lines += 1;
            if let Some(k) = dump_as {
                out::s(k);
                out::sp();
                out::bytes(&buf[start..i]);
                out::nl();
            }
            start = i + 1;
        }
    }
    let mut sbuf = [0u8; 128];
    let m = sys::read_file(b"/proc/self/statm\0", &mut sbuf);
    let mut vm = 0u64;
    for b in &sbuf[..m] {
        if b.is_ascii_digit() {
            vm = vm * 10 + (*b - b'0') as u64;
        } else {
            break;
        }
    }
    (lines, vm)
}

fn snapshot(key: &str, dump_maps: Option<&str>) {
    let (lines, vm) = maps_and_vm(dump_maps);
    let tasks = sys::count_tasks() as u64;
    let (ln, lb, lh) = galloc::fingerprint();
    out::s(key);
    out::s(" maps ");
    out::u(lines);
    out::s(" vm ");
    out::u(vm);
    out::s(" tasks ");
    out::u(tasks);
    out::s(" live ");
    out::u(ln);
    out::sp();
    out::u(lb);
    out::sp();
    out::x(lh);
    out::nl();
}

fn wait_started_and_gone(slot: usize, tmo_us: u64) -> bool {
    let t0 = sys::now_us();
    let pid = ctl::PID.load(SeqCst);
    loop {
        let t = CL_TID[slot].load(SeqCst);
        if t != 0 && sys::thread_gone(pid, t) {
            return true;
        }
        if sys::now_us() - t0 > tmo_us {
            return false;
        }
        sys::sched_yield();
    }
}

fn usage() -> i32 {
    out::s("usage-error\n");
    out::flush();
    2
}

fn final_report(alive: usize) {
    for o in 0..ctl::n_threads() {
        let slot = o % MAXN;
        out::s("runs ");
        out::u(o as u64);
        out::sp();
        out::u(RUNS[slot].load(SeqCst) as u64);
        out::s(" effect ");
        out::x(effect_of(slot));
        out::nl();
    }
    out::line("alive", &[alive as u64]);
    tok_report(ctl::n_threads());
    ctl::dump();
    snapshot("end", Some("maps1"));
    galloc::dump(false);
    out::s("done\n");
    out::flush();
}

// ---- modes ----

fn mode_gated(args: &[&str]) -> i32 {
    if args.len() != 5 {
        return usage();
    }
    let (Some(tmo), Some(delay)) = (ctl::parse_u(args[0]), ctl::parse_u(args[1])) else {
        return usage();
    };
    let rev = args[2].starts_with('r');
    if args[2].ends_with('n') {
        // the controller polls instead of using futex calls of its own
        ctl::NOFUTEX.store(1, SeqCst);
    }
    let mut specs = [None; MAXSPEC];
    let Some(n) = parse_specs(args[3], &mut specs) else {
        return usage();
    };
    ctl::TIMEOUT_US.store(tmo * 1000, SeqCst);
    ctl::DELAY_US.store(delay, SeqCst);
    sys::alarm(3 * tmo / 1000 + 5);
    out::s("mode gated\n");
    out::line("main_tid", &[ctl::MAIN_TID.load(SeqCst) as u64]);
    snapshot("base", Some("maps0"));
    galloc::configure(true, true);
    if !ctl::set_schedule(args[4]) {
        return usage();
    }
    tiny_std::verif::set_gate_fn(Some(ctl::gate));
    let mut hs: [Option<Hd>; MAXSPEC] = [const { None }; MAXSPEC];
    for i in 0..n {
        match spawn_one(i, i as u64, specs[i].unwrap(), 0) {
            Ok(h) => {
                hs[i] = Some(h);
                out::line("spawn", &[i as u64, 1]);
            }
            Err(_) => out::line("spawn", &[i as u64, 0]),
        }
    }
    for k in 0..n {
        let i = if rev { n - 1 - k } else { k };
        if let Some(h) = hs[i].take() {
            if specs[i].unwrap().op == b'j' {
                do_join(i, i, h);
            } else {
                do_drop(i, h);
            }
        }
    }
    let alive = ctl::finish();
    tiny_std::verif::set_gate_fn(None);
    final_report(alive);
    0
}

fn mode_free(args: &[&str]) -> i32 {
    if args.len() != 3 {
        return usage();
    }
    let Some(tmo) = ctl::parse_u(args[0]) else {
        return usage();
    };
    let rev = args[1] == "r";
    let mut specs = [None; MAXSPEC];
    let Some(n) = parse_specs(args[2], &mut specs) else {
        return usage();
    };
    ctl::TIMEOUT_US.store(tmo * 1000, SeqCst);
    // a handle operation that never returns ends the probe with SIGALRM
    sys::alarm(3 * tmo / 1000 + 5);
    out::UNBUFFERED.store(true, SeqCst);
    out::s("mode free\n");
    out::line("main_tid", &[ctl::MAIN_TID.load(SeqCst) as u64]);
    snapshot("base", Some("maps0"));
    galloc::configure(true, true);
    tiny_std::verif::set_gate_fn(Some(ctl::gate)); // record-only
    let mut hs: [Option<Hd>; MAXSPEC] = [const { None }; MAXSPEC];
    for i in 0..n {
        match spawn_one(i, i as u64, specs[i].unwrap(), 1) {
            Ok(h) => {
                hs[i] = Some(h);
                out::line("spawn", &[i as u64, 1]);
            }
            Err(_) => out::line("spawn", &[i as u64, 0]),
        }
    }
    // all n threads are alive at the same time: each waits for its GO
    let t0 = sys::now_us();
    while (STARTED.load(SeqCst) as usize) < n && sys::now_us() - t0 < tmo * 1000 {
        sys::sched_yield();
    }
    out::line(
        "concurrent",
        &[STARTED.load(SeqCst) as u64, sys::count_tasks() as u64],
    );
    for i in 0..n {
        GO[i].store(1, SeqCst);
        sys::futex_wake_all(&GO[i]);
    }
    for k in 0..n {
        let i = if rev { n - 1 - k } else { k };
        if let Some(h) = hs[i].take() {
            if specs[i].unwrap().op == b'j' {
                do_join(i, i, h);
            } else {
                do_drop(i, h);
            }
        }
    }
    let alive = ctl::wait_all_gone(tmo * 1000);
    tiny_std::verif::set_gate_fn(None);
    final_report(alive);
    0
}

fn mode_hist(args: &[&str]) -> i32 {
    if args.len() != 4 {
        return usage();
    }
    let (Some(tmo), Some(reps), Some(log)) = (
        ctl::parse_u(args[0]),
        ctl::parse_u(args[1]),
        ctl::parse_u(args[2]),
    ) else {
        return usage();
    };
    let log = log != 0;
    let mut specs = [None; MAXSPEC];
    let Some(n) = parse_specs(args[3], &mut specs) else {
        return usage();
    };
    let tmo_us = tmo * 1000;
    ctl::TIMEOUT_US.store(tmo_us, SeqCst);
    // a handle operation that never returns ends the probe with SIGALRM
    sys::alarm(2 * tmo / 1000 + 2 + reps * n as u64 / 200);
    out::UNBUFFERED.store(log, SeqCst);
    out::s("mode hist\n");
    out::line("main_tid", &[ctl::MAIN_TID.load(SeqCst) as u64]);
    snapshot("base", if log { Some("maps0") } else { None });
    // quarantine would keep freed memory and defeat the heap baseline: off here
    galloc::configure(log, false);
    if log {
        tiny_std::verif::set_gate_fn(Some(ctl::gate)); // record-only
    }
    let mut ordinal = 0usize;
    let mut bad_runs = 0u64;
    let mut bad_join = 0u64;
    let mut hangs = 0u64;
    for rep in 0..reps {
        for k in 0..n {
            let sp = specs[k].unwrap();
            let slot = ordinal % MAXN;
            let tag = ordinal as u64;
            let hold = match sp.op {
                b'e' => 1,
                b'w' => 2,
                b's' => 3,
                _ => 0,
            };
            let h = match spawn_one(slot, tag, sp, hold) {
                Ok(h) => h,
                Err(_) => {
                    out::line("spawn", &[ordinal as u64, 0]);
                    ordinal += 1;
                    continue;
                }
            };
            match sp.op {
                b'j' | b'w' | b's' => {
                    if log {
                        do_join(ordinal, slot, h);
                    } else {
                        let r = join_digest(h);
                        if r.is_some() == sp.panics || effect_of(slot) != effect_val(tag) {
                            bad_join += 1;
                        }
                    }
                }
                b'T' => {
                    // observation only: does this thread finish at all (within 0.5 s)?
                    if wait_started_and_gone(slot, 500_000) {
                        do_join(ordinal, slot, h);
                    } else {
                        out::line("stillrunning", &[ordinal as u64]);
                        core::mem::forget(h);
                        out::s("done\n");
                        out::flush();
                        sys::exit_group(0);
                    }
                }
                b'J' => {
                    if !wait_started_and_gone(slot, tmo_us) {
                        hangs += 1;
                    }
                    if log {
                        do_join(ordinal, slot, h);
                    } else {
                        let r = join_digest(h);
                        if r.is_some() == sp.panics || effect_of(slot) != effect_val(tag) {
                            bad_join += 1;
                        }
                    }
                }
                b'e' => {
                    // the thread is held back before its body: the handle goes first
                    let t0 = sys::now_us();
                    while CL_TID[slot].load(SeqCst) == 0 && sys::now_us() - t0 < tmo_us {
                        sys::sched_yield();
                    }
                    if log {
                        do_drop(ordinal, h);
                    } else {
                        drop(h);
                    }
                    GO[slot].store(1, SeqCst);
                    sys::futex_wake_all(&GO[slot]);
                }
                b'l' => {
                    if !wait_started_and_gone(slot, tmo_us) {
                        hangs += 1;
                    }
                    if log {
                        do_drop(ordinal, h);
                    } else {
                        drop(h);
                    }
                }
                _ => {
                    if log {
                        do_drop(ordinal, h);
                    } else {
                        drop(h);
                    }
                }
            }
            // quiesce: the thread must be gone before the next one starts
            if !wait_started_and_gone(slot, tmo_us) {
                hangs += 1;
            }
            if RUNS[slot].load(SeqCst) != 1 {
                bad_runs += 1;
            }
            if log {
                out::s("runs ");
                out::u(ordinal as u64);
                out::sp();
                out::u(RUNS[slot].load(SeqCst) as u64);
                out::s(" effect ");
                out::x(effect_of(slot));
                out::nl();
            }
            ordinal += 1;
        }
        let (lines, vm) = maps_and_vm(None);
        let (ln, lb, lh) = galloc::fingerprint();
        out::s("fp ");
        out::u(rep);
        out::sp();
        out::u(ln);
        out::sp();
        out::u(lb);
        out::sp();
        out::x(lh);
        out::sp();
        out::u(lines);
        out::sp();
        out::u(vm);
        out::sp();
        out::u(sys::count_tasks() as u64);
        out::nl();
    }
    out::line("hist", &[ordinal as u64, bad_runs, bad_join, hangs]);
    tok_report(if log { core::cmp::min(ordinal, MAXN) } else { 0 });
    tiny_std::verif::set_gate_fn(None);
    if log {
        out::line("alive", &[0]);
        ctl::dump();
    }
    snapshot("end", if log { Some("maps1") } else { None });
    galloc::dump(false);
    out::s("done\n");
    out::flush();
    0
}

/// Spawn loop for system-call fault injection: every line is flushed at once so that the
/// parent sees where a hang happens.
fn mode_fault(args: &[&str]) -> i32 {
    if args.len() != 1 {
        return usage();
    }
    let Some(n) = ctl::parse_u(args[0]) else {
        return usage();
    };
    let n = core::cmp::min(n as usize, MAXSPEC);
    out::UNBUFFERED.store(true, SeqCst);
    out::s("mode fault\n");
    out::line("main_tid", &[ctl::MAIN_TID.load(SeqCst) as u64]);
    galloc::configure(true, false);
    tiny_std::verif::set_gate_fn(Some(ctl::gate)); // record-only
    let sp = Spec {
        ty: Ty::U64,
        panics: false,
        kind: b'r',
        op: b'j',
    };
    let mut hs: [Option<Hd>; MAXSPEC] = [const { None }; MAXSPEC];
    for i in 0..n {
        match spawn_one(i, i as u64, sp, 0) {
            Ok(h) => {
                hs[i] = Some(h);
                out::line("spawn", &[i as u64, 1]);
            }
            Err(e) => {
                let code = match e {
                    tiny_std::Error::Os { code, .. } => code.raw() as u64,
                    _ => 0,
                };
                out::line("spawn", &[i as u64, 0, code]);
            }
        }
    }
    let (ln, lb, _) = galloc::fingerprint();
    out::line("prejoin_live", &[ln, lb]);
    for i in 0..n {
        if let Some(h) = hs[i].take() {
            out::line("joining", &[i as u64]);
            do_join(i, i, h);
        }
    }
    let alive = ctl::wait_all_gone(2_000_000);
    tiny_std::verif::set_gate_fn(None);
    final_report(alive);
    0
}

/// Gate-aligned race sweep: `rounds` threads one after the other; in each round the handle
/// owner is parked at gate gh and the thread at gate gt, both are released at once and the
/// later party first spins `skew` pauses, skew swept over -maxskew..=maxskew.  Reported in
/// batches (ordinals restart per batch) in the same format as a logged history.
fn mode_race(args: &[&str]) -> i32 {
    if args.len() != 8 {
        return usage();
    }
    let mut nums = [0u64; 7];
    for i in 0..7 {
        let Some(v) = ctl::parse_u(args[i]) else {
            return usage();
        };
        nums[i] = v;
    }
    let [tmo, rounds, batch, gh, gt, hold_h, maxskew] = nums;
    let Some(sp) = parse_spec(args[7]) else {
        return usage();
    };
    if batch == 0 || batch as usize > MAXN - 1 {
        return usage();
    }
    let tmo_us = tmo * 1000;
    ctl::TIMEOUT_US.store(tmo_us, SeqCst);
    sys::alarm(4 * tmo / 1000 + 5 + rounds / 100);
    out::s("mode race\n");
    out::line("main_tid", &[ctl::MAIN_TID.load(SeqCst) as u64]);
    snapshot("base", Some("maps0"));
    galloc::configure(true, true);
    ctl::set_race(gh as u32, gt as u32, hold_h as u32);
    tiny_std::verif::set_gate_fn(Some(ctl::gate));
    let span = 2 * maxskew as i64 + 1;
    let mut done_rounds = 0u64;
    let mut hangs = 0u64;
    while done_rounds < rounds {
        let nb = core::cmp::min(batch, rounds - done_rounds);
        out::line("batch", &[done_rounds, nb]);
        for k in 0..nb as usize {
            let round = done_rounds + k as u64;
            let skew = (round as i64 % span) - maxskew as i64;
            ctl::race_round(skew as i32);
            let h = match spawn_one(k, round, sp, 0) {
                Ok(h) => h,
                Err(_) => {
                    out::line("spawn", &[k as u64, 0]);
                    continue;
                }
            };
            if sp.op == b'j' {
                do_join(k, k, h);
            } else {
                do_drop(k, h);
            }
            if !wait_started_and_gone(k, tmo_us) {
                hangs += 1;
            }
            out::s("runs ");
            out::u(k as u64);
            out::sp();
            out::u(RUNS[k].load(SeqCst) as u64);
            out::s(" effect ");
            out::x(effect_of(k));
            out::nl();
        }
        out::line("alive", &[hangs]);
        tok_report(nb as usize);
        ctl::dump_ids();
        snapshot("end", None);
        galloc::dump(false);
        out::line(
            "race",
            &[
                ctl::RACE_ALIGNED.load(SeqCst) as u64,
                ctl::RACE_UNALIGNED.load(SeqCst) as u64,
            ],
        );
        out::s("endbatch\n");
        ctl::reset();
        galloc::reset_log();
        done_rounds += nb;
    }
    tiny_std::verif::set_gate_fn(None);
    snapshot("end", Some("maps1"));
    out::s("done\n");
    out::flush();
    0
}


// ---- nested spawning: a spawned thread is itself the handle owner of another thread ----

#[derive(Copy, Clone)]
struct Lv {
    kind: u8, // r | p : what this level's closure does after reaping its child
    op: u8,   // what the PARENT does with this level's handle: j join | l drop after it is gone |
              // e drop while it is held back | x drop at once | f the spawn is expected to fail (injection)
}

static mut NEST: [Lv; 8] = [Lv { kind: b'r', op: b'j' }; 8];
static NEST_DEPTH: AtomicU32 = AtomicU32::new(0);
static NEST_PAD: AtomicU32 = AtomicU32::new(0);
static NEST_TMO_US: AtomicU64 = AtomicU64::new(3_000_000);
static NEXT_SLOT: AtomicU32 = AtomicU32::new(0);
/// guard mode (second run after a hang): before joining / dropping a finished child, look whether the
/// kernel cleared its exit word; if the thread is gone and the word still reads 1 the operation would
/// wait for ever - it is skipped (handle forgotten) and reported, so that the rest can be accounted
static NEST_GUARD: AtomicU32 = AtomicU32::new(0);
static N_NOTCLEARED: [AtomicU32; MAXN] = [const { AtomicU32::new(0) }; MAXN];
/// 0 not spawned, 1 Ok, 2 Err (errno in N_ERRNO)
static N_SPAWN: [AtomicU32; MAXN] = [const { AtomicU32::new(0) }; MAXN];
static N_ERRNO: [AtomicU32; MAXN] = [const { AtomicU32::new(0) }; MAXN];
/// 0 nothing, 1 joined Some, 2 joined None, 3 dropped
static N_JOIN: [AtomicU32; MAXN] = [const { AtomicU32::new(0) }; MAXN];
static N_DIGEST: [AtomicU64; MAXN] = [const { AtomicU64::new(0) }; MAXN];
static N_EFFECT: [AtomicU64; MAXN] = [const { AtomicU64::new(0) }; MAXN];
static N_RUNS: [AtomicU32; MAXN] = [const { AtomicU32::new(0) }; MAXN];

trait NV: Send + Sized + 'static {
    fn mk(t: u64) -> Self;
    fn digest(&self) -> u64;
    /// what the joiner does with the value it got
    fn finish(self) {}
}
impl NV for u64 {
    fn mk(t: u64) -> Self {
        mk_u64(t)
    }
    fn digest(&self) -> u64 {
        fnv(&self.to_le_bytes(), FNV0)
    }
}
impl NV for PanicOnDrop {
    fn mk(t: u64) -> Self {
        mk_pd(t)
    }
    fn digest(&self) -> u64 {
        fnv(&self.0.to_le_bytes(), FNV0)
    }
    fn finish(self) {
        let _ = self.disarm();
    }
}
impl NV for PanicOnDropBox {
    fn mk(t: u64) -> Self {
        mk_pdb(t)
    }
    fn digest(&self) -> u64 {
        fnv(&(*self.0).to_le_bytes(), FNV0)
    }
    fn finish(self) {
        let _ = self.disarm();
    }
}
impl NV for Box<u64> {
    fn mk(t: u64) -> Self {
        mk_box(t)
    }
    fn digest(&self) -> u64 {
        fnv(&(**self).to_le_bytes(), FNV0)
    }
}

fn nest_level(level: usize) -> Lv {
    unsafe { (*core::ptr::addr_of!(NEST))[level] }
}

fn reset_slot(slot: usize) {
    RUNS[slot].store(0, SeqCst);
    CL_TID[slot].store(0, SeqCst);
    GO[slot].store(0, SeqCst);
    unsafe {
        (core::ptr::addr_of_mut!(EFFECT) as *mut u64).add(slot).write(0);
    }
}

fn record_join<T: NV>(slot: usize, r: Option<T>) {
    // what the joining thread sees right after join returned
    N_EFFECT[slot].store(effect_of(slot), SeqCst);
    N_RUNS[slot].store(RUNS[slot].load(SeqCst), SeqCst);
    match r {
        Some(v) => {
            N_DIGEST[slot].store(v.digest(), SeqCst);
            N_JOIN[slot].store(1, SeqCst);
            v.finish();
        }
        None => N_JOIN[slot].store(2, SeqCst),
    }
}

/// Spawn the thread of `level` and do to its handle what its level says.  Runs on main
/// (level 0) or on the thread of level - 1.
fn nest_spawn<T: NV>(level: usize) {
    let lv = nest_level(level);
    let tmo = NEST_TMO_US.load(SeqCst);
    if lv.op == b'f' {
        // make the calls that will be failed unmistakable by their per-thread position:
        // a few mmaps and a few successful spawns of this thread's own first
        let pad = NEST_PAD.load(SeqCst);
        for _ in 0..pad {
            sys::dummy_map();
        }
        for _ in 0..pad {
            let slot = NEXT_SLOT.fetch_add(1, SeqCst) as usize;
            reset_slot(slot);
            match spawn(move || body(slot, slot as u64, b'r', 0, mk_u64)) {
                Ok(h) => {
                    N_SPAWN[slot].store(1, SeqCst);
                    sys::marker(0x1000 + slot * 16 + 1);
                    let r = h.join();
                    sys::marker(0x1000 + slot * 16 + 2);
                    record_join(slot, r);
                }
                Err(_) => N_SPAWN[slot].store(2, SeqCst),
            }
        }
    }
    let slot = NEXT_SLOT.fetch_add(1, SeqCst) as usize;
    reset_slot(slot);
    let hold = u8::from(lv.op == b'e');
    let h = match spawn(move || nest_body::<T>(slot, level, hold)) {
        Ok(h) => h,
        Err(e) => {
            let code = match e {
                tiny_std::Error::Os { code, .. } => code.raw() as u32,
                _ => 0,
            };
            N_ERRNO[slot].store(code, SeqCst);
            N_SPAWN[slot].store(2, SeqCst);
            return;
        }
    };
    N_SPAWN[slot].store(1, SeqCst);
    if NEST_GUARD.load(SeqCst) != 0 && (lv.op == b'j' || lv.op == b'l' || lv.op == b'f') {
        let gone = wait_started_and_gone(slot, tmo);
        let block = ctl::block_of(slot);
        let word = if block != 0 {
            unsafe { ((block + 4) as *const u32).read_volatile() }
        } else {
            0
        };
        if !gone || word != 0 {
            N_NOTCLEARED[slot].store(if gone { 1 } else { 2 }, SeqCst);
            core::mem::forget(h);
            return;
        }
    }
    match lv.op {
        b'l' => {
            let _ = wait_started_and_gone(slot, tmo);
            sys::marker(0x1000 + slot * 16 + 3);
            drop(h);
            sys::marker(0x1000 + slot * 16 + 4);
            N_JOIN[slot].store(3, SeqCst);
        }
        b'e' => {
            let t0 = sys::now_us();
            while CL_TID[slot].load(SeqCst) == 0 && sys::now_us() - t0 < tmo {
                sys::sched_yield();
            }
            drop(h);
            N_JOIN[slot].store(3, SeqCst);
            GO[slot].store(1, SeqCst);
            sys::futex_wake_all(&GO[slot]);
        }
        b'x' => {
            drop(h);
            N_JOIN[slot].store(3, SeqCst);
        }
        _ => {
            // j, and f when the spawn was not failed after all (fault-free reference run)
            sys::marker(0x1000 + slot * 16 + 1);
            let r = h.join();
            sys::marker(0x1000 + slot * 16 + 2);
            record_join(slot, r);
        }
    }
}

fn nest_body<T: NV>(slot: usize, level: usize, hold: u8) -> T {
    CL_TID[slot].store(sys::gettid(), SeqCst);
    STARTED.fetch_add(1, SeqCst);
    if hold == 1 {
        while GO[slot].load(SeqCst) == 0 {
            sys::futex_wait_timeout(&GO[slot], 0, 1000);
        }
    }
    RUNS[slot].fetch_add(1, SeqCst);
    unsafe {
        let p = (core::ptr::addr_of_mut!(EFFECT) as *mut u64).add(slot);
        p.write(effect_val(slot as u64));
    }
    if level + 1 < NEST_DEPTH.load(SeqCst) as usize {
        nest_spawn::<T>(level + 1);
    }
    if nest_level(level).kind == b'p' {
        panic!("probe: nested closure panics after reaping its child");
    }
    T::mk(slot as u64)
}

/// probe-thread nest <timeout_ms> <ty u64|box> <pad> <levels> [guard]   levels = `kind.op` joined by `,`
fn mode_nest(args: &[&str]) -> i32 {
    if args.len() != 4 && args.len() != 5 {
        return usage();
    }
    if args.len() == 5 {
        NEST_GUARD.store(1, SeqCst);
    }
    let (Some(tmo), Some(pad)) = (ctl::parse_u(args[0]), ctl::parse_u(args[2])) else {
        return usage();
    };
    let mut depth = 0usize;
    for part in args[3].split(',') {
        let b = part.as_bytes();
        if b.len() != 3 || b[1] != b'.' || depth >= 8 || !b"rp".contains(&b[0]) || !b"jlexf".contains(&b[2]) {
            return usage();
        }
        unsafe {
            (*core::ptr::addr_of_mut!(NEST))[depth] = Lv { kind: b[0], op: b[2] };
        }
        depth += 1;
    }
    if depth == 0 {
        return usage();
    }
    NEST_DEPTH.store(depth as u32, SeqCst);
    NEST_PAD.store(pad as u32, SeqCst);
    NEST_TMO_US.store(tmo * 1000, SeqCst);
    ctl::TIMEOUT_US.store(tmo * 1000, SeqCst);
    // a handle operation that never returns ends the probe with SIGALRM
    sys::alarm(2 * tmo / 1000 + 3);
    out::UNBUFFERED.store(true, SeqCst);
    out::s("mode nest\n");
    out::line("main_tid", &[ctl::MAIN_TID.load(SeqCst) as u64]);
    snapshot("base", Some("maps0"));
    galloc::configure(true, true);
    tiny_std::verif::set_gate_fn(Some(ctl::gate)); // record-only
    match args[1] {
        "u64" => nest_spawn::<u64>(0),
        "box" => nest_spawn::<Box<u64>>(0),
        "pd" => nest_spawn::<PanicOnDrop>(0),
        "pdb" => nest_spawn::<PanicOnDropBox>(0),
        _ => return usage(),
    }
    // every thread that was created must have started and gone (a child dropped at once may start late)
    let mut k = 0;
    while k < NEXT_SLOT.load(SeqCst) as usize {
        if N_SPAWN[k].load(SeqCst) == 1 {
            let _ = wait_started_and_gone(k, tmo * 1000);
        }
        k += 1;
    }
    let alive = ctl::wait_all_gone(tmo * 1000);
    tiny_std::verif::set_gate_fn(None);
    let n = NEXT_SLOT.load(SeqCst) as usize;
    for slot in 0..n {
        match N_SPAWN[slot].load(SeqCst) {
            1 => out::line("spawn", &[slot as u64, 1]),
            2 => out::line("spawn", &[slot as u64, 0, N_ERRNO[slot].load(SeqCst) as u64]),
            _ => {}
        }
        match N_NOTCLEARED[slot].load(SeqCst) {
            1 => out::line("notcleared", &[slot as u64]),
            2 => out::line("notgone", &[slot as u64]),
            _ => {}
        }
        match N_JOIN[slot].load(SeqCst) {
            k @ (1 | 2) => {
                out::s("join ");
                out::u(slot as u64);
                if k == 1 {
                    out::s(" some ");
                    out::x(N_DIGEST[slot].load(SeqCst));
                } else {
                    out::s(" none 0");
                }
                out::s(" effect ");
                out::x(N_EFFECT[slot].load(SeqCst));
                out::s(" runs ");
                out::u(N_RUNS[slot].load(SeqCst) as u64);
                out::nl();
            }
            3 => out::line("drop", &[slot as u64]),
            _ => {}
        }
    }
    final_report(alive);
    0
}

#[no_mangle]
pub fn main() -> i32 {
    ctl::init();
    let mut argv: [&str; 12] = [""; 12];
    let mut n = 0;
    for a in tiny_std::env::args().skip(1) {
        if n < 12 {
            argv[n] = a.unwrap_or("");
            n += 1;
        }
    }
    if n == 0 {
        return usage();
    }
    let rc = match argv[0] {
        "gated" => mode_gated(&argv[1..n]),
        "free" => mode_free(&argv[1..n]),
        "hist" => mode_hist(&argv[1..n]),
        "fault" => mode_fault(&argv[1..n]),
        "race" => mode_race(&argv[1..n]),
        "nest" => mode_nest(&argv[1..n]),
        _ => usage(),
    };
    // leave with exit_group: never hang on a stray thread
    sys::exit_group(rc)
}
