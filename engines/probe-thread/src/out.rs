//! Report writer: a static buffer and a hand-rolled formatter (no allocation, usable
//! from any thread including the watchdog path inside a gate).
use crate::sys;
use core::sync::atomic::{AtomicBool, AtomicUsize, Ordering};

const CAP: usize = 6 << 20;
static mut BUF: [u8; CAP] = [0; CAP];
static LEN: AtomicUsize = AtomicUsize::new(0);
static LOCK: AtomicBool = AtomicBool::new(false);
/// flush after every line (fault-injection mode: the parent must see how far we got)
pub static UNBUFFERED: AtomicBool = AtomicBool::new(false);

pub fn lock() {
    while LOCK.swap(true, Ordering::Acquire) {
        sys::sched_yield();
    }
}

pub fn unlock() {
    LOCK.store(false, Ordering::Release);
}

pub fn s(b: &str) {
    bytes(b.as_bytes());
}

pub fn bytes(b: &[u8]) {
    let at = LEN.load(Ordering::Relaxed);
    let n = core::cmp::min(b.len(), CAP - at);
    unsafe {
        let p = core::ptr::addr_of_mut!(BUF) as *mut u8;
        core::ptr::copy_nonoverlapping(b.as_ptr(), p.add(at), n);
    }
    LEN.store(at + n, Ordering::Relaxed);
}

pub fn u(mut v: u64) {
    let mut tmp = [0u8; 20];
    let mut n = 0;
    if v == 0 {
        tmp[0] = b'0';
        n = 1;
    }
    while v > 0 {
        tmp[n] = b'0' + (v % 10) as u8;
        v /= 10;
        n += 1;
    }
    let mut outb = [0u8; 20];
    for i in 0..n {
        outb[i] = tmp[n - 1 - i];
    }
    bytes(&outb[..n]);
}

pub fn x(mut v: u64) {
    let mut tmp = [0u8; 16];
    let mut n = 0;
    if v == 0 {
        tmp[0] = b'0';
        n = 1;
    }
    while v > 0 {
        let d = (v & 15) as u8;
        tmp[n] = if d < 10 { b'0' + d } else { b'a' + d - 10 };
        v >>= 4;
        n += 1;
    }
    let mut outb = [0u8; 16];
    for i in 0..n {
        outb[i] = tmp[n - 1 - i];
    }
    bytes(&outb[..n]);
}

pub fn sp() {
    bytes(b" ");
}

pub fn nl() {
    bytes(b"\n");
    if UNBUFFERED.load(Ordering::Relaxed) {
        flush();
    }
}

pub fn flush() {
    let n = LEN.load(Ordering::Relaxed);
    unsafe {
        let p = core::ptr::addr_of!(BUF) as *const u8;
        sys::write_all(1, core::slice::from_raw_parts(p, n));
    }
    LEN.store(0, Ordering::Relaxed);
}

/// `key v1 v2 ...\n` with decimal values
pub fn line(key: &str, vals: &[u64]) {
    s(key);
    for v in vals {
        sp();
        u(*v);
    }
    nl();
}
