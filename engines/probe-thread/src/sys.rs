//! Raw system calls used by the probe's own machinery (never by the code under test).
//! No allocation anywhere in this file: it is called from the gate function, which
//! runs right after `clone` and inside the panic handler.
use core::sync::atomic::AtomicU32;
use sc::syscall;

pub fn gettid() -> u32 {
    unsafe { syscall!(GETTID) as u32 }
}

pub fn getpid() -> u32 {
    unsafe { syscall!(GETPID) as u32 }
}

/// true when the thread `tid` of this process no longer exists (fully released by the
/// kernel, which is later than its clear-tid write and wake).
pub fn thread_gone(pid: u32, tid: u32) -> bool {
    let r = unsafe { syscall!(TGKILL, pid as usize, tid as usize, 0usize) } as isize;
    r == -3 // ESRCH
}

/// Probe-side watchdog: SIGALRM (default action: the process dies) after `secs` seconds.
pub fn alarm(secs: u64) {
    unsafe {
        syscall!(ALARM, secs as usize);
    }
}

pub fn exit_group(code: i32) -> ! {
    unsafe {
        syscall!(EXIT_GROUP, code as usize);
    }
    loop {}
}

pub fn write_all(fd: usize, mut buf: &[u8]) {
    while !buf.is_empty() {
        let r = unsafe { syscall!(WRITE, fd, buf.as_ptr() as usize, buf.len()) } as isize;
        if r == -4 {
            continue;
        }
        if r <= 0 {
            return;
        }
        buf = &buf[r as usize..];
    }
}

#[repr(C)]
struct Ts {
    sec: i64,
    nsec: i64,
}

/// Monotonic clock in microseconds
pub fn now_us() -> u64 {
    let mut ts = Ts { sec: 0, nsec: 0 };
    unsafe {
        syscall!(CLOCK_GETTIME, 1usize, &mut ts as *mut Ts as usize);
    }
    ts.sec as u64 * 1_000_000 + ts.nsec as u64 / 1000
}

pub fn sleep_us(us: u64) {
    let mut ts = Ts {
        sec: (us / 1_000_000) as i64,
        nsec: ((us % 1_000_000) * 1000) as i64,
    };
    unsafe {
        syscall!(NANOSLEEP, &mut ts as *mut Ts as usize, 0usize);
    }
}

pub fn sched_yield() {
    unsafe {
        syscall!(SCHED_YIELD);
    }
}

/// futex wait (shared key, the same kind the runtime uses) with a timeout
pub fn futex_wait_timeout(word: &AtomicU32, expect: u32, us: u64) {
    let ts = Ts {
        sec: (us / 1_000_000) as i64,
        nsec: ((us % 1_000_000) * 1000) as i64,
    };
    unsafe {
        syscall!(
            FUTEX,
            word as *const AtomicU32 as usize,
            0usize,
            expect as usize,
            &ts as *const Ts as usize,
            0usize,
            0usize
        );
    }
}

pub fn futex_wake_all(word: &AtomicU32) {
    unsafe {
        syscall!(
            FUTEX,
            word as *const AtomicU32 as usize,
            1usize,
            i32::MAX as usize,
            0usize,
            0usize,
            0usize
        );
    }
}

/// mmap + munmap of one anonymous page (pads a thread's own mmap count before an injected failure)
pub fn dummy_map() {
    unsafe {
        let p = syscall!(MMAP, 0usize, 4096usize, 3usize, 0x22usize, usize::MAX, 0usize);
        if (p as isize) > 0 {
            syscall!(MUNMAP, p, 4096usize);
        }
    }
}

/// A marker in the strace log: `munmap(0x1, tag)` fails with EINVAL and changes nothing.
pub fn marker(tag: usize) {
    unsafe {
        syscall!(MUNMAP, 1usize, tag);
    }
}

/// Read a whole (small) file into `buf`; returns the byte count (0 on failure).
/// `path` must be NUL terminated.
pub fn read_file(path: &[u8], buf: &mut [u8]) -> usize {
    debug_assert!(path.last() == Some(&0));
    let fd = unsafe { syscall!(OPEN, path.as_ptr() as usize, 0usize, 0usize) } as isize;
    if fd < 0 {
        return 0;
    }
    let mut n = 0usize;
    while n < buf.len() {
        let r = unsafe {
            syscall!(
                READ,
                fd as usize,
                buf.as_mut_ptr().add(n) as usize,
                buf.len() - n
            )
        } as isize;
        if r == -4 {
            continue;
        }
        if r <= 0 {
            break;
        }
        n += r as usize;
    }
    unsafe {
        syscall!(CLOSE, fd as usize);
    }
    n
}

fn put_dec(buf: &mut [u8], mut at: usize, mut v: u64) -> usize {
    let mut tmp = [0u8; 20];
    let mut n = 0;
    if v == 0 {
        tmp[0] = b'0';
        n = 1;
    }
    while v > 0 {
        tmp[n] = b'0' + (v % 10) as u8;
        v /= 10;
        n += 1;
    }
    while n > 0 {
        n -= 1;
        buf[at] = tmp[n];
        at += 1;
    }
    at
}

/// Scheduler state letter of a thread of this process ('R', 'S', 't', ...), 0 if unknown.
pub fn thread_state(tid: u32) -> u8 {
    let mut path = [0u8; 64];
    let pre = b"/proc/self/task/";
    path[..pre.len()].copy_from_slice(pre);
    let mut at = put_dec(&mut path, pre.len(), tid as u64);
    let post = b"/stat\0";
    path[at..at + post.len()].copy_from_slice(post);
    at += post.len();
    let mut buf = [0u8; 256];
    let n = read_file(&path[..at], &mut buf);
    let mut i = n;
    while i > 0 {
        i -= 1;
        if buf[i] == b')' {
            if i + 2 < n {
                return buf[i + 2];
            }
            return 0;
        }
    }
    0
}

/// Number of entries of /proc/self/task (threads of the process)
pub fn count_tasks() -> usize {
    let fd = unsafe {
        syscall!(
            OPEN,
            b"/proc/self/task\0".as_ptr() as usize,
            0o200000usize, // O_DIRECTORY
            0usize
        )
    } as isize;
    if fd < 0 {
        return 0;
    }
    let mut buf = [0u8; 4096];
    let mut count = 0usize;
    loop {
        let r = unsafe { syscall!(GETDENTS64, fd as usize, buf.as_mut_ptr() as usize, buf.len()) }
            as isize;
        if r <= 0 {
            break;
        }
        let mut off = 0usize;
        while off < r as usize {
            let reclen = u16::from_ne_bytes([buf[off + 16], buf[off + 17]]) as usize;
            let name0 = buf[off + 19];
            if name0 != b'.' {
                count += 1;
            }
            off += reclen;
        }
    }
    unsafe {
        syscall!(CLOSE, fd as usize);
    }
    count
}
