//! E1 — stateless interleaving explorer.
//!
//! Virtual threads are stackful coroutines on the worker's OS thread; exactly one
//! runs at a time.  Every shim operation (atomic op, futex call) first parks at
//! a *scheduling point*; the scheduler then picks which parked operation executes
//! next.  An execution is identified by its list of non-trivial choices; the
//! search is iterative context bounding (CHESS): run a prefix, take option 0
//! afterwards, then branch on every later choice whose cost fits the budgets
//! (P preemptions, D deviations = spurious futex returns / spurious weak-CAS
//! failures, W stale reads).
//!
//! Semantics: sequentially consistent interleaving of the shim operations, plus
//! vector-clock happens-before tracking following C11 release sequences, used to
//! detect data races on `TrackedCell`s, plus an optional view-based stale-read
//! extension (budget W).  See /verif/DESIGN.md section 3 (E1) and appendix A.

use std::any::Any;
use std::cell::Cell;
use std::collections::{BTreeMap, HashSet};
use std::panic::{catch_unwind, resume_unwind, AssertUnwindSafe};
use std::sync::atomic::{AtomicBool, AtomicU64, AtomicUsize, Ordering as StdOrd};
use std::sync::Mutex;

pub use std::sync::atomic::Ordering;

#[cfg(not(feature = "wide"))]
pub const MAX_THREADS: usize = 6;
#[cfg(feature = "wide")]
pub const MAX_THREADS: usize = 80;
pub const FAIR_LIMIT: u32 = 64;
pub const EAGAIN: i32 = 11;
pub const EINTR: i32 = 4;
pub const ETIMEDOUT: i32 = 110;
const STACK_WORDS: usize = 0x10000;

type VC = [u32; MAX_THREADS];
const ZERO: VC = [0; MAX_THREADS];

#[inline]
fn join(a: &mut VC, b: &VC) {
    for i in 0..MAX_THREADS {
        if b[i] > a[i] {
            a[i] = b[i];
        }
    }
}

#[derive(Clone, Copy, Default, PartialEq, Eq, Debug, Hash)]
pub struct Budget {
    pub p: u8,
    pub d: u8,
    pub w: u8,
}
impl Budget {
    fn fits(self, used: Budget, cost: [u8; 3]) -> bool {
        used.p + cost[0] <= self.p && used.d + cost[1] <= self.d && used.w + cost[2] <= self.w
    }
}

#[derive(Clone, Copy, PartialEq, Eq, Debug, Hash)]
enum Status {
    Runnable,
    Blocked(usize),
    /// switched out by the fairness rule until another thread writes shared memory
    Yielded,
    Done,
}

#[derive(Clone, Copy, PartialEq, Eq, Debug, Hash)]
pub enum Pending {
    None,
    Load(usize),
    Store(usize),
    Rmw(usize),
    Cas(usize),
    Wait(usize),
    Wake(usize),
}

struct Th {
    status: Status,
    vc: VC,
    pending: Pending,
    armed: Option<usize>,
    last_load: Option<usize>,
    writeless: u32,
    ops_done: u32,
    wait_result: i32,
    acq_pending: VC,
    fence_rel: Option<VC>,
    seen: Vec<usize>,
    // API-call bookkeeping (set by the harness through begin_call/end_call)
    noblock: bool,
    call_points: u32,
    /// parked by the harness until every other thread is blocked, yielded or done
    quiesce: bool,
    /// the futex wait this thread is parked in was given a timeout: ETIMEDOUT is then a legal kernel answer
    timed_wait: bool,
}

#[derive(Clone)]
struct StoreRec {
    val: u32,
    rel: VC,
    by: usize,
    clk: u32,
}

struct Loc {
    addr: usize,
    stores: Vec<StoreRec>,
}

struct CellMeta {
    addr: usize,
    last_write: Option<(usize, u32)>,
    reads: VC,
}

#[derive(Clone, Copy, Debug)]
struct ChoiceRec {
    n: u16,
    taken: u16,
    used_before: Budget,
    cost_off: u32,
}

/// What an execution ended with.
#[derive(Clone, Debug, PartialEq, Eq)]
pub enum End {
    Finished,
    Violation,
    StepCap,
    /// nobody can run, and the model declared every parked thread to be waiting legitimately (`Model::stuck_ok`)
    Stuck,
}

pub trait Model: Sync {
    fn n_threads(&self) -> usize;
    /// called on the worker before the threads of an execution start
    fn setup(&self);
    /// body of virtual thread `tid`
    fn thread(&self, tid: usize);
    /// called after the execution ended; may flag a violation through `flag_violation`
    /// (only when `end == Finished`) and returns an outcome label (vacuity guard).
    fn finish(&self, end: &End) -> String;
    /// violation kind for a panic raised in thread `tid` (lets the harness name the call in progress)
    fn panic_kind(&self, _tid: usize) -> String {
        "panic".into()
    }
    /// called when no thread can run and `blocked` are parked in futex_wait: `true` = each of them waits for
    /// something that legitimately never comes in this program (e.g. a lock held for ever by a finished thread);
    /// the execution then ends as `End::Stuck` instead of a deadlock violation.  Default: every such end is a deadlock.
    fn stuck_ok(&self, _blocked: &[usize]) -> bool {
        false
    }
}

pub struct Exec {
    n: usize,
    th: Vec<Th>,
    locs: Vec<Loc>,
    cells: Vec<CellMeta>,
    prefix: Vec<(u16, u16)>,
    choices: Vec<ChoiceRec>,
    costs: Vec<[u8; 3]>,
    used: Budget,
    budget: Budget,
    cur: usize,
    last_run: Option<usize>,
    steps: u64,
    max_steps: u64,
    tracing: bool,
    pub trace: Vec<String>,
    violation: Option<(String, String)>,
    aborting: bool,
    model: *const dyn Model,
    state_hashes: HashSet<u64>,
    transitions: u64,
    features: u64,
    keep_history: bool,
    /// fairness rescues since the last write to shared memory
    rescues: u32,
}

thread_local! {
    static CTX: Cell<*mut Exec> = const { Cell::new(std::ptr::null_mut()) };
    static QUIET: Cell<bool> = const { Cell::new(false) };
    static SHUTDOWN: Cell<bool> = const { Cell::new(false) };
    static LAST_PANIC: std::cell::RefCell<Option<String>> = const { std::cell::RefCell::new(None) };
}

#[inline]
fn ex<'a>() -> Option<&'a mut Exec> {
    let p = CTX.with(|c| c.get());
    if p.is_null() {
        None
    } else {
        Some(unsafe { &mut *p })
    }
}

struct AbortToken;

static HOOK: AtomicBool = AtomicBool::new(false);
fn install_hook() {
    if HOOK.swap(true, StdOrd::SeqCst) {
        return;
    }
    let prev = std::panic::take_hook();
    std::panic::set_hook(Box::new(move |info| {
        if QUIET.with(|q| q.get()) {
            let msg = if let Some(s) = info.payload().downcast_ref::<&str>() {
                (*s).to_string()
            } else if let Some(s) = info.payload().downcast_ref::<String>() {
                s.clone()
            } else {
                "<panic>".into()
            };
            let loc = info.location().map(|l| format!(" at {}:{}", l.file(), l.line())).unwrap_or_default();
            LAST_PANIC.with(|p| *p.borrow_mut() = Some(format!("{msg}{loc}")));
        } else {
            prev(info);
        }
    }));
}

// feature bits: which interesting things happened in some execution (reported as coverage)
pub const F_WAIT_BLOCKED: u64 = 1;
pub const F_WAIT_EAGAIN: u64 = 2;
pub const F_WAKE_SOME: u64 = 4;
pub const F_WAKE_NONE: u64 = 8;
pub const F_WAKE_CHOICE: u64 = 16;
pub const F_SPURIOUS_OK: u64 = 32;
pub const F_SPURIOUS_EINTR: u64 = 64;
pub const F_WEAK_CAS_FAIL: u64 = 128;
pub const F_STALE_READ: u64 = 256;
pub const F_FAIR_YIELD: u64 = 512;
pub const F_CAS_FAIL: u64 = 1024;
pub const FEATURE_NAMES: [&str; 11] = [
    "futex_wait blocked",
    "futex_wait EAGAIN",
    "futex_wake woke someone",
    "futex_wake woke nobody",
    "futex_wake had a choice of waiter",
    "spurious futex return Ok",
    "spurious futex return EINTR",
    "spurious weak-CAS failure",
    "stale read",
    "fairness yield",
    "CAS failed on value",
];

impl Exec {
    fn loc_of(&mut self, p: *mut u32) -> usize {
        let a = p as usize;
        for (i, l) in self.locs.iter().enumerate() {
            if l.addr == a {
                return i;
            }
        }
        let init = unsafe { *p };
        self.locs.push(Loc { addr: a, stores: vec![StoreRec { val: init, rel: ZERO, by: MAX_THREADS, clk: 0 }] });
        for t in self.th.iter_mut() {
            t.seen.push(0);
        }
        self.locs.len() - 1
    }

    fn choose(&mut self, opts: &[[u8; 3]]) -> usize {
        let n = opts.len();
        if n <= 1 {
            return 0;
        }
        let i = self.choices.len();
        let taken = if i < self.prefix.len() {
            let (t, pn) = self.prefix[i];
            if pn as usize != n {
                // the same choice list must lead to the same choice points: machinery error
                eprintln!("MACHINERY: replay divergence at choice {i}: recorded {pn} options, now {n}");
                std::process::exit(2);
            }
            t as usize
        } else {
            0
        };
        let off = self.costs.len() as u32;
        self.costs.extend_from_slice(opts);
        self.choices.push(ChoiceRec { n: n as u16, taken: taken as u16, used_before: self.used, cost_off: off });
        let c = opts[taken];
        self.used.p += c[0];
        self.used.d += c[1];
        self.used.w += c[2];
        taken
    }

    fn point(&mut self, t: usize, op: Pending) {
        self.th[t].pending = op;
        self.th[t].call_points += 1;
        generator::yield_with(());
        // resumed: we were chosen (or the execution is being torn down)
        let me = ex().unwrap();
        if me.aborting {
            resume_unwind(Box::new(AbortToken));
        }
        me.th[t].pending = Pending::None;
        me.th[t].ops_done += 1;
        me.transitions += 1;
    }

    fn mark_write(&mut self, t: usize) {
        self.th[t].writeless = 0;
        self.rescues = 0;
        for (i, o) in self.th.iter_mut().enumerate() {
            if i != t && o.status == Status::Yielded {
                o.status = Status::Runnable;
                o.writeless = 0;
            }
        }
    }

    fn mark_no_write(&mut self, t: usize) {
        self.th[t].writeless += 1;
        if self.th[t].writeless >= FAIR_LIMIT && self.th[t].status == Status::Runnable {
            self.th[t].status = Status::Yielded;
            self.features |= F_FAIR_YIELD;
        }
    }

    fn tr(&mut self, s: impl FnOnce() -> String) {
        if self.tracing {
            let line = s();
            self.trace.push(format!("#{:<4} T{} {}", self.steps, self.cur, line));
        }
    }

    /// pick the store a load reads: the latest, or (budget W) an older one that the
    /// memory model still allows this thread to see
    fn pick_store(&mut self, t: usize, l: usize, allow_stale: bool) -> usize {
        let latest = self.locs[l].stores.len() - 1;
        if !allow_stale || !self.keep_history || latest == 0 {
            return latest;
        }
        // oldest admissible index: not older than what the thread already saw, and not
        // older than the newest store that happens-before this load
        let mut lo = self.th[t].seen[l];
        for (i, s) in self.locs[l].stores.iter().enumerate().rev() {
            if i <= lo {
                break;
            }
            let hb = s.by == t || (s.by < MAX_THREADS && s.clk <= self.th[t].vc[s.by]) || s.by == MAX_THREADS;
            if hb {
                lo = i;
                break;
            }
        }
        if lo >= latest {
            return latest;
        }
        let n = latest - lo + 1;
        let mut opts = vec![[0u8, 0, 0]];
        for _ in 1..n {
            opts.push([0, 0, 1]);
        }
        let k = self.choose(&opts);
        if k > 0 {
            self.features |= F_STALE_READ;
        }
        latest - k
    }

    fn do_load(&mut self, t: usize, l: usize, ord: Ordering, allow_stale: bool) -> u32 {
        let idx = self.pick_store(t, l, allow_stale);
        let s = self.locs[l].stores[idx].clone();
        if idx > self.th[t].seen[l] {
            self.th[t].seen[l] = idx;
        }
        match ord {
            Ordering::Acquire | Ordering::SeqCst | Ordering::AcqRel => join(&mut self.th[t].vc, &s.rel),
            _ => join(&mut self.th[t].acq_pending, &s.rel),
        }
        self.th[t].vc[t] += 1;
        s.val
    }

    fn do_store(&mut self, t: usize, l: usize, v: u32, ord: Ordering, prev_rel: Option<VC>) {
        let mut rel = prev_rel.unwrap_or(ZERO);
        match ord {
            Ordering::Release | Ordering::SeqCst | Ordering::AcqRel => join(&mut rel, &self.th[t].vc.clone()),
            _ => {
                if let Some(f) = self.th[t].fence_rel {
                    join(&mut rel, &f);
                }
            }
        }
        let clk = self.th[t].vc[t];
        let changed = self.locs[l].stores.last().map(|s| s.val != v).unwrap_or(true);
        let rec = StoreRec { val: v, rel, by: t, clk };
        if self.keep_history {
            self.locs[l].stores.push(rec);
        } else {
            self.locs[l].stores[0] = rec;
        }
        let latest = self.locs[l].stores.len() - 1;
        self.th[t].seen[l] = latest;
        unsafe { *(self.locs[l].addr as *mut u32) = v };
        self.th[t].vc[t] += 1;
        if changed {
            self.mark_write(t);
        } else {
            // a store that leaves the value as it was gives no other thread anything new to
            // see: for the fairness rule it is as good as a load (a retry loop made of such
            // stores is still busy-waiting)
            self.mark_no_write(t);
        }
    }

    fn hash_state(&mut self) {
        use std::hash::{Hash, Hasher};
        let mut h = std::collections::hash_map::DefaultHasher::new();
        for l in &self.locs {
            l.stores.last().unwrap().val.hash(&mut h);
        }
        for t in &self.th {
            t.status.hash(&mut h);
            t.pending.hash(&mut h);
            t.ops_done.hash(&mut h);
        }
        self.state_hashes.insert(h.finish());
    }
}

// ---------------------------------------------------------------------------
// operations called by the shims (vshim-core, vshim-rusl) and the harness

#[inline]
fn acq(o: Ordering) -> bool {
    matches!(o, Ordering::Acquire | Ordering::AcqRel | Ordering::SeqCst)
}

pub fn atomic_load(p: *mut u32, ord: Ordering) -> u32 {
    let Some(e) = ex() else { return unsafe { *p } };
    if e.aborting {
        return unsafe { *p };
    }
    let t = e.cur;
    let l = e.loc_of(p);
    let armed = e.th[t].armed.take();
    let inline = armed == Some(l) && ord == Ordering::Relaxed;
    if !inline {
        e.point(t, Pending::Load(l));
    }
    let e = ex().unwrap();
    // an armed spin iteration re-reads what the thread just read (no new information can
    // have arrived: nobody ran in between), so it never takes a stale-read choice
    let v = e.do_load(t, l, ord, !inline);
    e.th[t].last_load = Some(l);
    if !inline {
        e.mark_no_write(t);
        e.tr(|| format!("load  L{l} {ord:?} -> {v:#x}"));
    }
    v
}

pub fn atomic_store(p: *mut u32, v: u32, ord: Ordering) {
    let Some(e) = ex() else { return unsafe { *p = v } };
    if e.aborting {
        return unsafe { *p = v };
    }
    let t = e.cur;
    let l = e.loc_of(p);
    e.th[t].armed = None;
    e.point(t, Pending::Store(l));
    let e = ex().unwrap();
    e.do_store(t, l, v, ord, None);
    e.tr(|| format!("store L{l} {ord:?} <- {v:#x}"));
}

/// read-modify-write: `f(old) -> new`; returns old
pub fn atomic_rmw(p: *mut u32, ord: Ordering, name: &str, f: impl FnOnce(u32) -> u32) -> u32 {
    let Some(e) = ex() else {
        let old = unsafe { *p };
        unsafe { *p = f(old) };
        return old;
    };
    if e.aborting {
        let old = unsafe { *p };
        unsafe { *p = f(old) };
        return old;
    }
    let t = e.cur;
    let l = e.loc_of(p);
    e.th[t].armed = None;
    e.point(t, Pending::Rmw(l));
    let e = ex().unwrap();
    let s = e.locs[l].stores.last().unwrap().clone();
    if acq(ord) {
        join(&mut e.th[t].vc, &s.rel);
    } else {
        join(&mut e.th[t].acq_pending, &s.rel);
    }
    let new = f(s.val);
    e.do_store(t, l, new, ord, Some(s.rel));
    e.tr(|| format!("{name} L{l} {ord:?} {:#x} -> {new:#x}", s.val));
    s.val
}

pub fn atomic_cas(p: *mut u32, expected: u32, new: u32, succ: Ordering, fail: Ordering, weak: bool) -> Result<u32, u32> {
    let Some(e) = ex() else {
        let old = unsafe { *p };
        return if old == expected {
            unsafe { *p = new };
            Ok(old)
        } else {
            Err(old)
        };
    };
    if e.aborting {
        let old = unsafe { *p };
        return if old == expected {
            unsafe { *p = new };
            Ok(old)
        } else {
            Err(old)
        };
    }
    let t = e.cur;
    let l = e.loc_of(p);
    e.th[t].armed = None;
    e.point(t, Pending::Cas(l));
    let e = ex().unwrap();
    let s = e.locs[l].stores.last().unwrap().clone();
    let mut ok = s.val == expected;
    if ok && weak {
        let k = e.choose(&[[0, 0, 0], [0, 1, 0]]);
        if k == 1 {
            ok = false;
            e.features |= F_WEAK_CAS_FAIL;
            e.tr(|| format!("cas_weak L{l} spurious failure (value {:#x})", s.val));
        }
    }
    if ok {
        if acq(succ) {
            join(&mut e.th[t].vc, &s.rel);
        } else {
            join(&mut e.th[t].acq_pending, &s.rel);
        }
        e.do_store(t, l, new, succ, Some(s.rel));
        e.tr(|| format!("cas   L{l} {succ:?} {:#x} -> {new:#x} ok", s.val));
        Ok(s.val)
    } else {
        // failure is a load of the latest value with the failure ordering
        let latest = e.locs[l].stores.len() - 1;
        e.th[t].seen[l] = latest;
        if acq(fail) {
            join(&mut e.th[t].vc, &s.rel);
        } else {
            join(&mut e.th[t].acq_pending, &s.rel);
        }
        e.th[t].vc[t] += 1;
        e.features |= F_CAS_FAIL;
        e.mark_no_write(t);
        e.tr(|| format!("cas   L{l} expected {expected:#x} found {:#x} fail", s.val));
        Err(s.val)
    }
}

pub fn fence(ord: Ordering) {
    let Some(e) = ex() else { return };
    if e.aborting {
        return;
    }
    let t = e.cur;
    if acq(ord) {
        let a = e.th[t].acq_pending;
        join(&mut e.th[t].vc, &a);
    }
    if matches!(ord, Ordering::Release | Ordering::AcqRel | Ordering::SeqCst) {
        e.th[t].fence_rel = Some(e.th[t].vc);
    }
}

pub fn spin_hint() {
    let Some(e) = ex() else { return };
    if e.aborting {
        return;
    }
    let t = e.cur;
    e.th[t].armed = e.th[t].last_load;
}

/// futex wait: 0 = woken, -EAGAIN = value differed, -EINTR = interrupted
pub fn futex_wait(p: *mut u32, val: u32) -> i32 {
    futex_wait_timed(p, val, false)
}

/// As `futex_wait`; `timed` = the caller passed a timeout, so the wait may also end with -ETIMEDOUT (a deviation).
pub fn futex_wait_timed(p: *mut u32, val: u32, timed: bool) -> i32 {
    let Some(e) = ex() else {
        return if unsafe { *p } != val { -EAGAIN } else { 0 };
    };
    if e.aborting {
        return 0;
    }
    let t = e.cur;
    let l = e.loc_of(p);
    e.th[t].armed = None;
    e.point(t, Pending::Wait(l));
    let e = ex().unwrap();
    let cur = e.locs[l].stores.last().unwrap().val;
    if cur != val {
        e.features |= F_WAIT_EAGAIN;
        e.mark_no_write(t);
        e.tr(|| format!("futex_wait L{l} expect {val:#x} found {cur:#x} -> EAGAIN"));
        return -EAGAIN;
    }
    e.features |= F_WAIT_BLOCKED;
    if e.th[t].noblock {
        flag_violation("try-call-blocks", "a try_* call parked the thread in futex_wait".into());
    }
    e.th[t].status = Status::Blocked(l);
    e.th[t].timed_wait = timed;
    e.tr(|| format!("futex_wait L{l} expect {val:#x} -> blocked{}", if timed { " (timed)" } else { "" }));
    generator::yield_with(());
    let e = ex().unwrap();
    if e.aborting {
        resume_unwind(Box::new(AbortToken));
    }
    let r = e.th[t].wait_result;
    e.th[t].writeless = 0;
    e.tr(|| format!("futex_wait L{l} returns {r}"));
    r
}

pub fn futex_wake(p: *mut u32, n: i32) -> usize {
    let Some(e) = ex() else { return 0 };
    if e.aborting {
        return 0;
    }
    let t = e.cur;
    let l = e.loc_of(p);
    e.th[t].armed = None;
    e.point(t, Pending::Wake(l));
    let e = ex().unwrap();
    let mut waiters: Vec<usize> = (0..e.n).filter(|&i| e.th[i].status == Status::Blocked(l)).collect();
    let mut woken = 0usize;
    let want = if n < 0 { 0 } else { n as usize };
    while woken < want && !waiters.is_empty() {
        let remaining_to_wake = want - woken;
        let k = if remaining_to_wake >= waiters.len() {
            0
        } else {
            e.features |= F_WAKE_CHOICE;
            let mut opts = vec![[0u8, 0, 0]; waiters.len()];
            if cfg!(feature = "wide") {
                for o in opts.iter_mut().skip(1) {
                    *o = [0, 1, 0];
                }
            }
            e.choose(&opts)
        };
        let w = waiters.remove(k);
        e.th[w].status = Status::Runnable;
        e.th[w].wait_result = 0;
        woken += 1;
        e.tr(|| format!("futex_wake L{l} wakes T{w}"));
    }
    e.features |= if woken > 0 { F_WAKE_SOME } else { F_WAKE_NONE };
    e.th[t].vc[t] += 1;
    e.tr(|| format!("futex_wake L{l} n={n} -> {woken}"));
    woken
}

/// Tracked (non-atomic) data: happens-before race check, no scheduling point.
pub fn cell_access(addr: usize, write: bool) {
    let Some(e) = ex() else { return };
    if e.aborting {
        return;
    }
    let t = e.cur;
    let ci = match e.cells.iter().position(|c| c.addr == addr) {
        Some(i) => i,
        None => {
            e.cells.push(CellMeta { addr, last_write: None, reads: ZERO });
            e.cells.len() - 1
        }
    };
    let vc = e.th[t].vc;
    let mut race: Option<String> = None;
    if let Some((w, c)) = e.cells[ci].last_write {
        if w != t && c > vc[w] {
            race = Some(format!("{} by T{t} races with write by T{w}", if write { "write" } else { "read" }));
        }
    }
    if write {
        for u in 0..e.n {
            if u != t && e.cells[ci].reads[u] > vc[u] {
                race = Some(format!("write by T{t} races with read by T{u}"));
            }
        }
        // own epoch; the clock advances so that later accesses are distinguishable
        e.th[t].vc[t] += 1;
        e.cells[ci].last_write = Some((t, e.th[t].vc[t]));
        e.cells[ci].reads = ZERO;
        e.th[t].vc[t] += 1;
    } else {
        e.th[t].vc[t] += 1;
        e.cells[ci].reads[t] = e.th[t].vc[t];
        e.th[t].vc[t] += 1;
    }
    e.tr(|| format!("{} cell", if write { "WRITE" } else { "READ " }));
    if let Some(r) = race {
        flag_violation("data-race", format!("unsynchronised access to the protected data: {r} (no happens-before edge)"));
    }
}

pub fn flag_violation(kind: &str, desc: String) {
    if let Some(e) = ex() {
        if e.violation.is_none() {
            e.tr(|| format!("VIOLATION {kind}: {desc}"));
            e.violation = Some((kind.to_string(), desc));
        }
    }
}

pub fn current_tid() -> usize {
    ex().map(|e| e.cur).unwrap_or(0)
}
pub fn current_step() -> u64 {
    ex().map(|e| e.steps).unwrap_or(0)
}
pub fn note(s: impl FnOnce() -> String) {
    if let Some(e) = ex() {
        e.tr(s);
    }
}

/// Harness primitive: park the calling thread (a scheduling point that costs no preemption) until every other
/// thread is blocked, fairness-yielded or done.  Used to build "holder keeps the lock until all waiters are parked"
/// scenarios with many threads without paying for the interleavings that lead there.
pub fn hold_until_quiescent() {
    let Some(e) = ex() else { return };
    if e.aborting {
        return;
    }
    let t = e.cur;
    e.th[t].quiesce = true;
    e.th[t].pending = Pending::None;
    generator::yield_with(());
    let e = ex().unwrap();
    if e.aborting {
        resume_unwind(Box::new(AbortToken));
    }
    e.th[t].quiesce = false;
    e.th[t].writeless = 0;
    e.tr(|| "resumes: all other threads are parked".to_string());
}

/// Harness marks the start of an API call; `noblock` = a try_* call.
pub fn begin_call(noblock: bool) {
    if let Some(e) = ex() {
        let t = e.cur;
        e.th[t].noblock = noblock;
        e.th[t].call_points = 0;
    }
}
/// Returns the number of scheduling points the call took.
pub fn end_call() -> u32 {
    if let Some(e) = ex() {
        let t = e.cur;
        e.th[t].noblock = false;
        e.th[t].call_points
    } else {
        0
    }
}

// ---------------------------------------------------------------------------
// scheduler and search

struct Pool {
    gens: Vec<generator::Generator<'static, (), ()>>,
}

fn make_gen(tid: usize) -> generator::Generator<'static, (), ()> {
    let mut g = generator::Gn::<()>::new_opt(STACK_WORDS, move || loop {
        generator::yield_with(());
        if SHUTDOWN.with(|s| s.get()) {
            // leave the body so that dropping the generator needs no cancelling unwind
            return;
        }
        let e = ex().unwrap();
        let m = e.model;
        let r = catch_unwind(AssertUnwindSafe(|| unsafe { (*m).thread(tid) }));
        let e = ex().unwrap();
        if let Err(p) = r {
            if !p.is::<AbortToken>() {
                let from_payload = if let Some(s) = p.downcast_ref::<&str>() {
                    (*s).to_string()
                } else if let Some(s) = p.downcast_ref::<String>() {
                    s.clone()
                } else {
                    "<panic>".into()
                };
                let msg = LAST_PANIC.with(|p| p.borrow_mut().take()).unwrap_or(from_payload);
                e.cur = tid;
                let kind = unsafe { (*m).panic_kind(tid) };
                flag_violation(&kind, format!("thread {tid} panicked: {msg}"));
            }
        }
        e.th[tid].status = Status::Done;
        e.th[tid].pending = Pending::None;
    });
    g.resume(); // run to the idle yield
    g
}

impl Drop for Pool {
    fn drop(&mut self) {
        SHUTDOWN.with(|s| s.set(true));
        for g in self.gens.iter_mut() {
            g.resume();
        }
        SHUTDOWN.with(|s| s.set(false));
    }
}

impl Pool {
    fn new() -> Self {
        Pool { gens: Vec::new() }
    }
    fn ensure(&mut self, n: usize) {
        while self.gens.len() < n {
            let t = self.gens.len();
            self.gens.push(make_gen(t));
        }
    }
    #[inline]
    fn resume(&mut self, t: usize) {
        self.gens[t].resume();
    }
}

#[derive(Clone, Debug)]
pub struct ViolationRec {
    pub kind: String,
    pub desc: String,
    pub choices: Vec<(u16, u16)>,
    pub count: u64,
}

#[derive(Default, Clone, Debug)]
pub struct Stats {
    pub schedules: u64,
    pub transitions: u64,
    pub states: u64,
    pub max_choices: usize,
    pub max_steps_seen: u64,
    pub outcomes: BTreeMap<String, u64>,
    pub violations: BTreeMap<String, ViolationRec>,
    pub features: u64,
    pub step_cap_hits: u64,
    pub schedule_cap_hit: bool,
    pub time_cap_hit: bool,
    pub first_choices: Vec<(u16, u16)>,
    pub by_preemptions: [u64; 8],
}

pub struct Config {
    pub budget: Budget,
    pub max_steps: u64,
    pub workers: usize,
    pub max_schedules: u64,
    pub stop_at_first: bool,
    /// wall-clock cap for this exploration in seconds (0 = none); a hit is reported, never hidden
    pub max_seconds: u64,
}

fn run_execution(model: &dyn Model, pool: &mut Pool, e: &mut Exec) -> (End, String) {
    let n = model.n_threads();
    e.n = n;
    e.th.clear();
    for _ in 0..n {
        e.th.push(Th {
            status: Status::Runnable,
            vc: ZERO,
            pending: Pending::None,
            armed: None,
            last_load: None,
            writeless: 0,
            ops_done: 0,
            wait_result: 0,
            acq_pending: ZERO,
            fence_rel: None,
            seen: Vec::new(),
            noblock: false,
            call_points: 0,
            quiesce: false,
            timed_wait: false,
        });
    }
    e.locs.clear();
    e.cells.clear();
    e.choices.clear();
    e.costs.clear();
    e.used = Budget::default();
    e.last_run = None;
    e.steps = 0;
    e.rescues = 0;
    e.violation = None;
    e.aborting = false;
    e.trace.clear();
    pool.ensure(n);
    CTX.with(|c| c.set(e as *mut Exec));
    model.setup();
    // start every thread: runs it to its first scheduling point
    for t in 0..n {
        let e = ex().unwrap();
        e.cur = t;
        pool.resume(t);
    }
    let mut end = End::Finished;
    let mut opts: Vec<[u8; 3]> = Vec::with_capacity(16);
    let mut acts: Vec<(usize, i32)> = Vec::with_capacity(16); // (tid, 1 = run | 0 = spurious ok | -EINTR)
    loop {
        let e = ex().unwrap();
        if e.violation.is_some() {
            end = End::Violation;
            break;
        }
        opts.clear();
        acts.clear();
        // a thread parked by `hold_until_quiescent` is not eligible while any other thread can run
        let others_can_run = (0..n).any(|t| e.th[t].status == Status::Runnable && !e.th[t].quiesce);
        let eligible = |e: &Exec, t: usize| e.th[t].status == Status::Runnable && !(e.th[t].quiesce && others_can_run);
        let last_enabled = e.last_run.map(|t| eligible(e, t)).unwrap_or(false);
        if let Some(lr) = e.last_run {
            if last_enabled {
                opts.push([0, 0, 0]);
                acts.push((lr, 1));
            }
        }
        for t in 0..n {
            if Some(t) != e.last_run.filter(|_| last_enabled) && eligible(e, t) {
                // many-thread builds: when the running thread blocked or finished, picking anything but the lowest
                // runnable id counts as a deviation (otherwise dozens of runnable threads give factorially many orders)
                let forced_switch_dev = cfg!(feature = "wide") && !last_enabled && !acts.is_empty();
                opts.push([last_enabled as u8, forced_switch_dev as u8, 0]);
                acts.push((t, 1));
            }
        }
        if acts.is_empty() {
            // nobody can run
            if e.th.iter().all(|t| t.status == Status::Done) {
                break;
            }
            let blocked: Vec<String> = (0..n)
                .filter_map(|t| match e.th[t].status {
                    Status::Blocked(l) => Some(format!("T{t} parked on L{l} (value {:#x})", e.locs[l].stores.last().unwrap().val)),
                    _ => None,
                })
                .collect();
            let spinners: Vec<String> = (0..n).filter(|&t| e.th[t].status == Status::Yielded).map(|t| format!("T{t}")).collect();
            if !spinners.is_empty() && e.rescues < 16 {
                // a bounded retry loop may still be on its way to parking or giving up: let the
                // busy-waiters run again; only a long writeless stretch is called a livelock
                e.rescues += 1;
                for t in 0..n {
                    if e.th[t].status == Status::Yielded {
                        e.th[t].status = Status::Runnable;
                        e.th[t].writeless = 0;
                    }
                }
                continue;
            }
            if spinners.is_empty() {
                let ids: Vec<usize> = (0..n).filter(|&t| matches!(e.th[t].status, Status::Blocked(_))).collect();
                if model.stuck_ok(&ids) {
                    end = End::Stuck;
                    break;
                }
                flag_violation("deadlock", format!("no thread can run: {} — lost wake-up / deadlock", blocked.join(", ")));
            } else {
                flag_violation(
                    "livelock",
                    format!("only busy-waiting threads remain ({}) and nobody can change memory; parked: [{}]", spinners.join(","), blocked.join(", ")),
                );
            }
            end = End::Violation;
            break;
        }
        // deviations: a parked waiter returns spuriously
        if e.budget.d > 0 {
            for t in 0..n {
                if let Status::Blocked(_) = e.th[t].status {
                    opts.push([last_enabled as u8, 1, 0]);
                    acts.push((t, 0));
                    opts.push([last_enabled as u8, 1, 0]);
                    acts.push((t, -EINTR));
                    if e.th[t].timed_wait {
                        opts.push([last_enabled as u8, 1, 0]);
                        acts.push((t, -ETIMEDOUT));
                    }
                }
            }
        }
        let k = e.choose(&opts);
        let (t, how) = acts[k];
        if how != 1 {
            e.th[t].status = Status::Runnable;
            e.th[t].wait_result = how;
            e.features |= if how == 0 { F_SPURIOUS_OK } else { F_SPURIOUS_EINTR };
        }
        e.cur = t;
        e.last_run = Some(t);
        e.steps += 1;
        if e.steps > e.max_steps {
            end = End::StepCap;
            break;
        }
        pool.resume(t);
        let e = ex().unwrap();
        e.hash_state();
    }
    // tear down threads that are still inside their bodies
    let e = ex().unwrap();
    if e.th.iter().any(|t| t.status != Status::Done) {
        e.aborting = true;
        for t in 0..n {
            if ex().unwrap().th[t].status != Status::Done {
                ex().unwrap().cur = t;
                pool.resume(t);
            }
        }
        ex().unwrap().aborting = false;
    }
    let label = model.finish(&end);
    let e = ex().unwrap();
    if e.violation.is_some() {
        end = End::Violation;
    }
    CTX.with(|c| c.set(std::ptr::null_mut()));
    (end, label)
}

fn new_exec(model: &dyn Model, budget: Budget, max_steps: u64, tracing: bool) -> Exec {
    Exec {
        n: 0,
        th: Vec::new(),
        locs: Vec::new(),
        cells: Vec::new(),
        prefix: Vec::new(),
        choices: Vec::new(),
        costs: Vec::new(),
        used: Budget::default(),
        budget,
        cur: 0,
        last_run: None,
        steps: 0,
        max_steps,
        tracing,
        trace: Vec::new(),
        violation: None,
        aborting: false,
        model: unsafe { std::mem::transmute::<*const (dyn Model + '_), *const (dyn Model + 'static)>(model as *const dyn Model) },
        state_hashes: HashSet::new(),
        transitions: 0,
        features: 0,
        keep_history: budget.w > 0,
        rescues: 0,
    }
}

/// Replay one choice list with tracing; returns (end, outcome label, violation, trace).
pub fn replay(model: &dyn Model, budget: Budget, max_steps: u64, choices: &[(u16, u16)]) -> (End, String, Option<(String, String)>, Vec<String>) {
    install_hook();
    QUIET.with(|q| q.set(true));
    let mut pool = Pool::new();
    let mut e = Box::new(new_exec(model, budget, max_steps, true));
    e.prefix = choices.to_vec();
    let (end, label) = run_execution(model, &mut pool, &mut e);
    drop(pool);
    QUIET.with(|q| q.set(false));
    (end, label, e.violation.clone(), e.trace.clone())
}

/// Exhaustive exploration of all executions of `model` within `cfg.budget`.
pub fn explore(model: &dyn Model, cfg: &Config) -> Stats {
    install_hook();
    let global: Mutex<Vec<Vec<(u16, u16)>>> = Mutex::new(vec![Vec::new()]);
    let pending = AtomicUsize::new(1);
    let stop = AtomicBool::new(false);
    let total_sched = AtomicU64::new(0);
    let merged: Mutex<(Stats, HashSet<u64>)> = Mutex::new((Stats::default(), HashSet::new()));
    let workers = cfg.workers.max(1);
    let t_start = std::time::Instant::now();
    let timed_out = AtomicBool::new(false);
    std::thread::scope(|s| {
        for _ in 0..workers {
            s.spawn(|| {
                QUIET.with(|q| q.set(true));
                let mut pool = Pool::new();
                let mut e = Box::new(new_exec(model, cfg.budget, cfg.max_steps, false));
                let mut st = Stats::default();
                let mut local: Vec<Vec<(u16, u16)>> = Vec::new();
                let mut idle_spins = 0u32;
                loop {
                    if stop.load(StdOrd::Relaxed) {
                        break;
                    }
                    let prefix = match local.pop() {
                        Some(p) => p,
                        None => {
                            let got = global.lock().unwrap().pop();
                            match got {
                                Some(p) => p,
                                None => {
                                    if pending.load(StdOrd::SeqCst) == 0 {
                                        break;
                                    }
                                    idle_spins += 1;
                                    if idle_spins > 50 {
                                        std::thread::sleep(std::time::Duration::from_micros(200));
                                    } else {
                                        std::thread::yield_now();
                                    }
                                    continue;
                                }
                            }
                        }
                    };
                    idle_spins = 0;
                    let plen = prefix.len();
                    e.prefix = prefix;
                    let (end, label) = run_execution(model, &mut pool, &mut e);
                    st.schedules += 1;
                    let tot = total_sched.fetch_add(1, StdOrd::Relaxed) + 1;
                    st.max_choices = st.max_choices.max(e.choices.len());
                    st.max_steps_seen = st.max_steps_seen.max(e.steps);
                    st.by_preemptions[(e.used.p as usize).min(7)] += 1;
                    *st.outcomes.entry(label).or_insert(0) += 1;
                    if plen == 0 {
                        st.first_choices = e.choices.iter().map(|c| (c.taken, c.n)).collect();
                    }
                    let end_was_cap = end == End::StepCap;
                    match end {
                        End::StepCap => st.step_cap_hits += 1,
                        End::Violation => {
                            let (kind, desc) = e.violation.clone().unwrap();
                            let rec = st.violations.entry(kind.clone()).or_insert_with(|| ViolationRec {
                                kind,
                                desc,
                                choices: e.choices.iter().map(|c| (c.taken, c.n)).collect(),
                                count: 0,
                            });
                            rec.count += 1;
                            if cfg.stop_at_first {
                                stop.store(true, StdOrd::Relaxed);
                            }
                        }
                        End::Finished | End::Stuck => {}
                    }
                    // children: every later choice, every alternative within budget
                    // (an execution that ran into the step horizon is not expanded: the run is
                    // reported as capped, i.e. a machinery failure, not as a verdict)
                    let mut added = 0usize;
                    let upto = if end_was_cap { plen } else { e.choices.len() };
                    for i in plen..upto {
                        let c = e.choices[i];
                        for alt in 1..c.n as usize {
                            let cost = e.costs[c.cost_off as usize + alt];
                            if cfg.budget.fits(c.used_before, cost) {
                                let mut child: Vec<(u16, u16)> = e.choices[..i].iter().map(|c| (c.taken, c.n)).collect();
                                child.push((alt as u16, c.n));
                                local.push(child);
                                added += 1;
                            }
                        }
                    }
                    if added > 0 {
                        pending.fetch_add(added, StdOrd::SeqCst);
                    }
                    pending.fetch_sub(1, StdOrd::SeqCst);
                    // share work when others may be idle
                    if local.len() > 8 {
                        let mut g = global.lock().unwrap();
                        if g.len() < workers * 2 {
                            let give = local.len() / 2;
                            // give away the oldest (largest subtrees)
                            let rest = local.split_off(give);
                            g.extend(local.drain(..));
                            local = rest;
                        }
                    }
                    if cfg.max_schedules > 0 && tot >= cfg.max_schedules {
                        st.schedule_cap_hit = true;
                        stop.store(true, StdOrd::Relaxed);
                    }
                    if cfg.max_seconds > 0 && tot % 1024 == 0 && t_start.elapsed().as_secs() >= cfg.max_seconds {
                        timed_out.store(true, StdOrd::Relaxed);
                        stop.store(true, StdOrd::Relaxed);
                    }
                }
                st.transitions = e.transitions;
                st.features = e.features;
                let mut m = merged.lock().unwrap();
                m.0.schedules += st.schedules;
                m.0.transitions += st.transitions;
                m.0.max_choices = m.0.max_choices.max(st.max_choices);
                m.0.max_steps_seen = m.0.max_steps_seen.max(st.max_steps_seen);
                m.0.features |= st.features;
                m.0.step_cap_hits += st.step_cap_hits;
                m.0.schedule_cap_hit |= st.schedule_cap_hit;
                for i in 0..8 {
                    m.0.by_preemptions[i] += st.by_preemptions[i];
                }
                if !st.first_choices.is_empty() {
                    m.0.first_choices = st.first_choices.clone();
                }
                for (k, v) in st.outcomes {
                    *m.0.outcomes.entry(k).or_insert(0) += v;
                }
                for (k, v) in st.violations {
                    match m.0.violations.get_mut(&k) {
                        Some(r) => {
                            r.count += v.count;
                            // keep the execution with the fewest choices taken away from default
                            let dev = |c: &Vec<(u16, u16)>| c.iter().filter(|x| x.0 != 0).count() * 1000 + c.len();
                            if dev(&v.choices) < dev(&r.choices) {
                                r.choices = v.choices;
                                r.desc = v.desc;
                            }
                        }
                        None => {
                            m.0.violations.insert(k, v);
                        }
                    }
                }
                let hs = std::mem::take(&mut e.state_hashes);
                m.1.extend(hs);
                drop(m);
                drop(pool); // cancels the idle coroutines (an internal unwind), quietly
                QUIET.with(|q| q.set(false));
            });
        }
    });
    let (mut st, hs) = merged.into_inner().unwrap();
    st.states = hs.len() as u64;
    st.time_cap_hit = timed_out.load(StdOrd::Relaxed);
    st
}

// silence unused warnings for items only used by some harnesses
#[allow(dead_code)]
fn _unused(_: Box<dyn Any>) {}
