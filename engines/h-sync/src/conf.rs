//! Environment-model conformance for C01/C02 (DESIGN.md 4.1): every kind of
//! transition the explorer's futex model can take is executed against the REAL
//! `rusl::futex::{futex_wait, futex_wake}` wrappers — called exactly the way
//! tiny-std's sync code calls them — with real threads, and the blocked state is
//! confirmed through /proc/self/task/<tid>/syscall.

use common::*;
use real_rusl::futex::{futex_wait, futex_wake};
use real_rusl::platform::FutexFlags;
use serde_json::json;
use std::sync::atomic::{AtomicI32, AtomicU32, Ordering::SeqCst};
use std::sync::Arc;
use std::time::{Duration, Instant};

const SYS_FUTEX: &str = "202";

struct Waiter {
    tid: Arc<AtomicI32>,
    result: Arc<AtomicI32>, // i32::MIN = still waiting, 0 = Ok, >0 errno
    handle: Option<std::thread::JoinHandle<()>>,
}

fn spawn_waiter(word: Arc<AtomicU32>, expect: u32) -> Waiter {
    let tid = Arc::new(AtomicI32::new(0));
    let result = Arc::new(AtomicI32::new(i32::MIN));
    let (t2, r2) = (tid.clone(), result.clone());
    let handle = std::thread::spawn(move || {
        t2.store(unsafe { libc::syscall(libc::SYS_gettid) } as i32, SeqCst);
        // exactly the call `futex_wait_fast` makes
        let r = futex_wait(&word, expect, FutexFlags::PRIVATE, None);
        r2.store(
            match r {
                Ok(()) => 0,
                Err(e) => e.code.map(|c| c.raw()).unwrap_or(-1),
            },
            SeqCst,
        );
    });
    Waiter { tid, result, handle: Some(handle) }
}

fn in_futex_syscall(tid: i32) -> bool {
    std::fs::read_to_string(format!("/proc/self/task/{tid}/syscall")).map(|s| s.split_whitespace().next() == Some(SYS_FUTEX)).unwrap_or(false)
}

fn wait_until(mut f: impl FnMut() -> bool, ms: u64) -> bool {
    let t0 = Instant::now();
    while t0.elapsed() < Duration::from_millis(ms) {
        if f() {
            return true;
        }
        std::thread::sleep(Duration::from_micros(200));
    }
    f()
}

impl Waiter {
    fn parked(&self) -> bool {
        wait_until(|| self.tid.load(SeqCst) != 0 && in_futex_syscall(self.tid.load(SeqCst)) && self.result.load(SeqCst) == i32::MIN, 2000)
    }
    fn still_parked_after(&self, ms: u64) -> bool {
        std::thread::sleep(Duration::from_millis(ms));
        self.result.load(SeqCst) == i32::MIN && in_futex_syscall(self.tid.load(SeqCst))
    }
    fn returned(&self) -> Option<i32> {
        if wait_until(|| self.result.load(SeqCst) != i32::MIN, 2000) {
            Some(self.result.load(SeqCst))
        } else {
            None
        }
    }
    fn finish(mut self, word: &AtomicU32) {
        // never leave a thread parked: change the word and wake everything (both key kinds)
        word.store(0xdead_beef, SeqCst);
        for _ in 0..50 {
            if self.result.load(SeqCst) != i32::MIN {
                break;
            }
            let _ = futex_wake(word, i32::MAX);
            unsafe {
                libc::syscall(libc::SYS_futex, word as *const _ as usize, 1 | 128, i32::MAX, 0, 0, 0);
            }
            std::thread::sleep(Duration::from_millis(2));
        }
        if self.result.load(SeqCst) != i32::MIN {
            if let Some(h) = self.handle.take() {
                let _ = h.join();
            }
        }
    }
}

extern "C" fn on_usr1(_: libc::c_int) {}

pub fn run(_args: &Args) -> Report {
    let mut r = Report::new();
    let mut check = |r: &mut Report, name: &str, ok: bool, detail: String| {
        r.eval();
        r.nontrivial(name);
        r.outcome(name);
        if ok {
            r.traces_validated += 1;
        } else {
            r.violation(
                &format!("C01:futex-conformance:{name}"),
                format!("the real rusl futex wrappers do not behave as the explorer's futex model assumes: {detail}"),
                json!({"transition": name}),
            );
        }
        r.sample(json!({"model_transition": name, "real_kernel_agrees": ok, "detail": detail}));
    };

    // 1. wait with a different value fails at once with EAGAIN
    {
        let w = Arc::new(AtomicU32::new(5));
        let t0 = Instant::now();
        let res = futex_wait(&w, 6, FutexFlags::PRIVATE, None);
        let code = res.err().and_then(|e| e.code).map(|c| c.raw());
        check(&mut r, "wait-unequal-eagain", code == Some(11) && t0.elapsed() < Duration::from_millis(500), format!("futex_wait(word=5, expect=6) -> {code:?}"));
    }
    // 2+3. equal value parks; wake(1) returns 1 and the waiter returns Ok
    {
        let w = Arc::new(AtomicU32::new(2));
        let a = spawn_waiter(w.clone(), 2);
        let parked = a.parked();
        check(&mut r, "wait-equal-parks", parked, format!("waiter parked in futex syscall: {parked}"));
        let n = futex_wake(&w, 1).map_err(|e| e.code.map(|c| c.raw()));
        let ret = a.returned();
        check(&mut r, "wake1-wakes-one-returns-1", n == Ok(1) && ret == Some(0), format!("futex_wake(.,1) -> {n:?}, waiter returned {ret:?}"));
        a.finish(&w);
    }
    // 4. wake with nobody waiting returns 0
    {
        let w = AtomicU32::new(0);
        let n = futex_wake(&w, 1).map_err(|e| e.code.map(|c| c.raw()));
        check(&mut r, "wake-nobody-returns-0", n == Ok(0), format!("futex_wake on an unwaited word -> {n:?}"));
    }
    // 5. two waiters, wake(1) wakes exactly one; the other stays parked until the next wake
    {
        let w = Arc::new(AtomicU32::new(2));
        let a = spawn_waiter(w.clone(), 2);
        let b = spawn_waiter(w.clone(), 2);
        let both = a.parked() && b.parked();
        let n1 = futex_wake(&w, 1).map_err(|e| e.code.map(|c| c.raw()));
        let one = wait_until(|| (a.result.load(SeqCst) != i32::MIN) ^ (b.result.load(SeqCst) != i32::MIN), 2000);
        std::thread::sleep(Duration::from_millis(20));
        let exactly_one = (a.result.load(SeqCst) != i32::MIN) ^ (b.result.load(SeqCst) != i32::MIN);
        check(&mut r, "wake1-of-two-wakes-exactly-one", both && n1 == Ok(1) && one && exactly_one, format!("both parked {both}, wake -> {n1:?}, exactly one returned {exactly_one}"));
        let n2 = futex_wake(&w, 1).map_err(|e| e.code.map(|c| c.raw()));
        let all = a.returned().is_some() && b.returned().is_some();
        check(&mut r, "second-wake1-wakes-the-other", n2 == Ok(1) && all, format!("second wake -> {n2:?}, both returned {all}"));
        a.finish(&w);
        b.finish(&w);
    }
    // 6. wake(i32::MAX) wakes all and returns their number
    {
        let w = Arc::new(AtomicU32::new(7));
        let a = spawn_waiter(w.clone(), 7);
        let b = spawn_waiter(w.clone(), 7);
        let c = spawn_waiter(w.clone(), 7);
        let all_parked = a.parked() && b.parked() && c.parked();
        let n = futex_wake(&w, i32::MAX).map_err(|e| e.code.map(|c| c.raw()));
        let rets = (a.returned(), b.returned(), c.returned());
        check(&mut r, "wake-all-returns-count", all_parked && n == Ok(3) && rets == (Some(0), Some(0), Some(0)), format!("three parked {all_parked}; wake(MAX) -> {n:?}; returns {rets:?}"));
        a.finish(&w);
        b.finish(&w);
        c.finish(&w);
    }
    // 7. a wake on another word wakes nobody
    {
        let w = Arc::new(AtomicU32::new(1));
        let other = AtomicU32::new(1);
        let a = spawn_waiter(w.clone(), 1);
        let parked = a.parked();
        let n = futex_wake(&other, i32::MAX).map_err(|e| e.code.map(|c| c.raw()));
        let still = a.still_parked_after(30);
        check(&mut r, "wake-other-word-wakes-nobody", parked && n == Ok(0) && still, format!("wake on other word -> {n:?}; waiter still parked {still}"));
        a.finish(&w);
    }
    // 8. a parked waiter stays parked while the word changes without a wake (the model only unparks on wake or deviation)
    {
        let w = Arc::new(AtomicU32::new(1));
        let a = spawn_waiter(w.clone(), 1);
        let parked = a.parked();
        w.store(0, SeqCst);
        let still = a.still_parked_after(30);
        check(&mut r, "value-change-alone-does-not-wake", parked && still, format!("still parked after the word changed: {still}"));
        a.finish(&w);
    }
    // 9. a signal makes the wait return EINTR (the model's EINTR deviation)
    {
        unsafe {
            let mut sa: libc::sigaction = std::mem::zeroed();
            sa.sa_sigaction = on_usr1 as *const () as usize;
            sa.sa_flags = 0; // no SA_RESTART
            libc::sigaction(libc::SIGUSR1, &sa, std::ptr::null_mut());
        }
        let w = Arc::new(AtomicU32::new(3));
        let a = spawn_waiter(w.clone(), 3);
        let parked = a.parked();
        unsafe {
            libc::syscall(libc::SYS_tgkill, libc::getpid(), a.tid.load(SeqCst), libc::SIGUSR1);
        }
        let ret = a.returned();
        check(&mut r, "signal-returns-eintr", parked && ret == Some(4), format!("waiter returned {ret:?} after SIGUSR1"));
        a.finish(&w);
    }
    // 10. wait after the word moved on returns EAGAIN (no lost wake-up window: compare and park are atomic)
    {
        let w = Arc::new(AtomicU32::new(2));
        w.store(0, SeqCst);
        let _ = futex_wake(&w, 1);
        let res = futex_wait(&w, 2, FutexFlags::PRIVATE, None);
        let code = res.err().and_then(|e| e.code).map(|c| c.raw());
        check(&mut r, "wait-after-change-eagain", code == Some(11), format!("-> {code:?}"));
    }
    r.rule = "each kind of transition of the explorer's futex model (10 kinds) executed once against the real rusl futex wrappers with real threads; \
              blocked state read from /proc/self/task/<tid>/syscall; distinct = transition kinds"
        .into();
    r.states = 0;
    r
}
