//! placeholder, filled in below
use common::*;
pub fn run(_args: &Args) -> Report {
    Report::new()
}
