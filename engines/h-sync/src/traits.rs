//! Which programs the compiler accepts: the schedule exploration of C01/C02 quantifies over programs that hand a
//! lock (or a guard) to several threads; whether safe code can do that with a given payload is decided by the
//! `Send`/`Sync` implementations of the lock types.  This phase evaluates, at compile time, the full table
//! {lock and guard types} x {payload classes: Send+Sync, Send only, Sync only, neither} x {Send, Sync} and
//! reports every implementation that lets safe code reach the protected value from two threads without
//! going through the lock (an implementation that is *missing* is never reported: that is a restriction,
//! not a violation).

use crate::sync;
use common::*;
use serde_json::json;
use std::cell::Cell;
use std::marker::PhantomData;

struct Probe<T: ?Sized>(PhantomData<T>);
impl<T: ?Sized + Send> Probe<T> {
    #[allow(dead_code)]
    fn is_send(&self) -> bool {
        true
    }
}
impl<T: ?Sized + Sync> Probe<T> {
    #[allow(dead_code)]
    fn is_sync(&self) -> bool {
        true
    }
}
trait Fallback {
    fn is_send(&self) -> bool {
        false
    }
    fn is_sync(&self) -> bool {
        false
    }
}
impl<T: ?Sized> Fallback for Probe<T> {}

macro_rules! probe {
    ($t:ty) => {{
        let p = Probe::<$t>(PhantomData);
        (p.is_send(), p.is_sync())
    }};
}

// payload classes
type Both = u64;
type SendOnly = Cell<u64>;
struct SyncOnly(#[allow(dead_code)] PhantomData<*const ()>);
unsafe impl Sync for SyncOnly {}
type Neither = *const ();

/// what the payload must be for the implementation to be sound: (needs Send, needs Sync)
struct Row {
    ty: &'static str,
    payload: &'static str,
    payload_send: bool,
    payload_sync: bool,
    is_send: bool,
    is_sync: bool,
    // requirement on the payload for `Send` / for `Sync` of the type: (send, sync) the payload must have
    send_needs: (bool, bool),
    sync_needs: (bool, bool),
}

macro_rules! rows {
    ($out:ident, $name:expr, $ty:ident, $lt:tt, $send_needs:expr, $sync_needs:expr) => {{
        let (s, y) = probe!(sync::$ty<$lt, Both>);
        $out.push(Row { ty: $name, payload: "Send+Sync", payload_send: true, payload_sync: true, is_send: s, is_sync: y, send_needs: $send_needs, sync_needs: $sync_needs });
        let (s, y) = probe!(sync::$ty<$lt, SendOnly>);
        $out.push(Row { ty: $name, payload: "Send only", payload_send: true, payload_sync: false, is_send: s, is_sync: y, send_needs: $send_needs, sync_needs: $sync_needs });
        let (s, y) = probe!(sync::$ty<$lt, SyncOnly>);
        $out.push(Row { ty: $name, payload: "Sync only", payload_send: false, payload_sync: true, is_send: s, is_sync: y, send_needs: $send_needs, sync_needs: $sync_needs });
        let (s, y) = probe!(sync::$ty<$lt, Neither>);
        $out.push(Row { ty: $name, payload: "neither", payload_send: false, payload_sync: false, is_send: s, is_sync: y, send_needs: $send_needs, sync_needs: $sync_needs });
    }};
    ($out:ident, $name:expr, $ty:ident, $send_needs:expr, $sync_needs:expr) => {{
        let (s, y) = probe!(sync::$ty<Both>);
        $out.push(Row { ty: $name, payload: "Send+Sync", payload_send: true, payload_sync: true, is_send: s, is_sync: y, send_needs: $send_needs, sync_needs: $sync_needs });
        let (s, y) = probe!(sync::$ty<SendOnly>);
        $out.push(Row { ty: $name, payload: "Send only", payload_send: true, payload_sync: false, is_send: s, is_sync: y, send_needs: $send_needs, sync_needs: $sync_needs });
        let (s, y) = probe!(sync::$ty<SyncOnly>);
        $out.push(Row { ty: $name, payload: "Sync only", payload_send: false, payload_sync: true, is_send: s, is_sync: y, send_needs: $send_needs, sync_needs: $sync_needs });
        let (s, y) = probe!(sync::$ty<Neither>);
        $out.push(Row { ty: $name, payload: "neither", payload_send: false, payload_sync: false, is_send: s, is_sync: y, send_needs: $send_needs, sync_needs: $sync_needs });
    }};
}

pub fn run(id: &'static str, _args: &Args) -> Report {
    let mut r = Report::new();
    let mut rows: Vec<Row> = Vec::new();
    if id == "C01" {
        // Mutex<T> hands out &mut T to whichever thread locks it: moving or sharing the mutex moves T between threads
        rows!(rows, "Mutex", Mutex, (true, false), (true, false));
        // a guard derefs to &T / &mut T: sharing it shares &T (T: Sync), moving it moves &mut T (T: Send)
        rows!(rows, "MutexGuard", MutexGuard, 'static, (true, false), (false, true));
    } else {
        // sharing an RwLock lets several threads hold &T at once (T: Sync) and lets any of them take &mut T (T: Send)
        rows!(rows, "RwLock", RwLock, (true, false), (true, true));
        // a read guard is a &T
        rows!(rows, "RwLockReadGuard", RwLockReadGuard, 'static, (false, true), (false, true));
        // a write guard is a &mut T
        rows!(rows, "RwLockWriteGuard", RwLockWriteGuard, 'static, (true, false), (false, true));
    }
    for row in &rows {
        for (tr, has, needs) in [("Send", row.is_send, row.send_needs), ("Sync", row.is_sync, row.sync_needs)] {
            r.eval();
            let allowed = (!needs.0 || row.payload_send) && (!needs.1 || row.payload_sync);
            r.nontrivial_unique();
            r.outcome(&format!("{}<{}>: {tr} {}", row.ty, row.payload, if has { "implemented" } else { "not implemented" }));
            if has && !allowed {
                let what = if needs.1 && !row.payload_sync { "non-Sync" } else { "non-Send" };
                r.violation(
                    &format!("{id}:auto-traits:{}-is-{tr}-for-a-{what}-payload", row.ty),
                    format!(
                        "{}<payload: {}> implements {tr}: safe code can then reach the protected value from two threads at once without any schedule-level failure of the lock",
                        row.ty, row.payload
                    ),
                    json!({"type": row.ty, "payload": row.payload, "trait": tr}),
                );
            }
        }
    }
    r.sample(json!(rows.iter().map(|x| json!({"type": x.ty, "payload": x.payload, "Send": x.is_send, "Sync": x.is_sync})).collect::<Vec<_>>()));
    r.bound("types", json!(rows.iter().map(|x| x.ty).collect::<std::collections::BTreeSet<_>>()));
    r.bound("payload classes", json!(["Send+Sync", "Send only", "Sync only", "neither"]));
    r.rule = "the complete table {lock and guard types of this property} x {4 payload classes} x {Send, Sync}, evaluated by the compiler on the verbatim sources; \
              an implemented trait is a violation iff the payload lacks what sharing/moving the type exposes (&T across threads needs T: Sync, &mut T / T needs T: Send)"
        .into();
    r
}
