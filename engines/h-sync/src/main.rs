//! C01 / C02: the verbatim sources of tiny-std's Mutex and RwLock
//! (`src/sync.rs`, `src/sync/` are symlinks into /repo) compiled against the
//! instrumented `core`/`rusl` stand-ins and explored by `ilv` (engine E1).

#[allow(dead_code, unused_imports, clippy::all)]
mod sync;
mod conf;
mod traits;

use common::*;
use ilv::{Budget, Config, End, Model};
use serde_json::json;
use std::cell::{RefCell, UnsafeCell};

pub struct TrackedCell {
    v: UnsafeCell<u64>,
}
unsafe impl Sync for TrackedCell {}
unsafe impl Send for TrackedCell {}
impl TrackedCell {
    fn new(v: u64) -> Self {
        TrackedCell { v: UnsafeCell::new(v) }
    }
    fn get(&self) -> u64 {
        ilv::cell_access(self.v.get() as usize, false);
        unsafe { *self.v.get() }
    }
    fn set(&self, v: u64) {
        ilv::cell_access(self.v.get() as usize, true);
        unsafe { *self.v.get() = v }
    }
}

// formatted only by `impl Debug for Mutex`, i.e. while that impl holds whatever it takes to be a guard: an exclusive
// critical section of the formatting thread
impl std::fmt::Debug for TrackedCell {
    fn fmt(&self, f: &mut std::fmt::Formatter<'_>) -> std::fmt::Result {
        let tid = ilv::current_tid();
        cs_enter(tid, true);
        let v = self.get();
        cs_exit(tid);
        write!(f, "{v}")
    }
}

#[derive(Clone, Copy, PartialEq, Eq, Debug, Hash)]
enum Op {
    L,  // mutex lock
    T,  // mutex try_lock
    R,  // rwlock read
    W,  // rwlock write
    TR, // try_read
    TW, // try_write
    LH, // lock, hold until every other thread is parked, unlock
    RH, // read, hold likewise
    WH, // write, hold likewise
    F,  // lock / write and never release (the guard is forgotten): later waiters on this instance wait legitimately for ever
    D,  // format the Mutex with {:?} (an observer: takes the lock with try_lock if it can, prints <locked> otherwise)
}
impl Op {
    fn name(self) -> &'static str {
        match self {
            Op::L => "L",
            Op::T => "T",
            Op::R => "R",
            Op::W => "W",
            Op::TR => "r",
            Op::TW => "w",
            Op::LH => "H",
            Op::RH => "h",
            Op::WH => "X",
            Op::D => "D",
            Op::F => "F",
        }
    }
    fn from_char(c: char) -> Op {
        match c {
            'L' => Op::L,
            'T' => Op::T,
            'R' => Op::R,
            'W' => Op::W,
            'r' => Op::TR,
            'w' => Op::TW,
            'H' => Op::LH,
            'h' => Op::RH,
            'X' => Op::WH,
            'D' => Op::D,
            'F' => Op::F,
            _ => panic!("bad op {c}"),
        }
    }
    fn is_try(self) -> bool {
        matches!(self, Op::T | Op::TR | Op::TW | Op::D)
    }
    fn is_writer(self) -> bool {
        matches!(self, Op::L | Op::T | Op::W | Op::TW | Op::LH | Op::WH | Op::D | Op::F)
    }
}

#[derive(Clone, Debug)]
struct Call {
    tid: usize,
    op: Op,
    start: u64,
    end: u64, // end of the call for failures; end of the guard drop for holders
    got: bool,
}

#[derive(Default)]
struct H {
    mutex: Option<Box<sync::Mutex<TrackedCell>>>,
    rw: Option<Box<sync::RwLock<TrackedCell>>>,
    // second, independent lock instance (programs with `nlocks == 2`: thread t uses lock t % 2)
    mutex2: Option<Box<sync::Mutex<TrackedCell>>>,
    rw2: Option<Box<sync::RwLock<TrackedCell>>>,
    nlocks: usize,
    in_cs: Vec<(usize, bool)>,
    writes: u64,
    calls: Vec<Call>,
    order: String,
    max_readers: usize,
    cur_op: Vec<Option<Op>>,
}

thread_local! {
    static HS: RefCell<H> = RefCell::new(H::default());
}

struct LockModel {
    id: &'static str,
    prog: Vec<Vec<Op>>,
    try_point_limit: u32,
    /// C02 only: number of read guards that were obtained and leaked (`mem::forget`) before the program starts;
    /// written straight into the state word (2^30 real acquisitions are out of reach)
    preset: u32,
    /// number of independent lock instances (1 or 2); thread t works on instance t % nlocks
    nlocks: usize,
}

const MAX_READERS: u32 = (1 << 30) - 2; // rwlock.rs: MASK - 1
const SATURATED_MSG: &str = "too many active read locks";

/// byte offset of the RwLock's state word, found by experiment (which word does a leaked read guard change?)
fn rw_state_offset() -> usize {
    static OFF: std::sync::OnceLock<usize> = std::sync::OnceLock::new();
    *OFF.get_or_init(|| {
        let l = Box::new(sync::RwLock::new(TrackedCell::new(0)));
        let words = std::mem::size_of::<sync::RwLock<TrackedCell>>() / 4;
        let p = &*l as *const _ as *const u32;
        let before: Vec<u32> = (0..words).map(|i| unsafe { p.add(i).read() }).collect();
        std::mem::forget(l.try_read().expect("fresh lock"));
        let after: Vec<u32> = (0..words).map(|i| unsafe { p.add(i).read() }).collect();
        let changed: Vec<usize> = (0..words).filter(|&i| before[i] != after[i]).collect();
        assert!(changed.len() == 1 && after[changed[0]] == before[changed[0]] + 1, "MACHINERY: cannot locate the RwLock state word");
        changed[0] * 4
    })
}

fn prog_name(p: &[Vec<Op>]) -> String {
    p.iter().map(|t| t.iter().map(|o| o.name()).collect::<String>()).collect::<Vec<_>>().join("|")
}

fn cs_enter(tid: usize, writer: bool) {
    HS.with(|h| {
        let mut h = h.borrow_mut();
        let nl = h.nlocks.max(1);
        let conflict = h.in_cs.iter().any(|&(t, w)| t % nl == tid % nl && (w || writer));
        if conflict {
            let who: Vec<String> = h.in_cs.iter().map(|&(t, w)| format!("T{t}{}", if w { "(exclusive)" } else { "(shared)" })).collect();
            ilv::flag_violation(
                "exclusion",
                format!("T{tid} obtained a {} guard while {} held a guard", if writer { "exclusive" } else { "shared" }, who.join(",")),
            );
        }
        h.in_cs.push((tid, writer));
        let readers = h.in_cs.iter().filter(|x| !x.1 && x.0 % nl == tid % nl).count();
        h.max_readers = h.max_readers.max(readers);
        h.order.push_str(&format!("{tid}{}", if writer { 'x' } else { 's' }));
    });
}
fn cs_exit(tid: usize) {
    HS.with(|h| {
        let mut h = h.borrow_mut();
        if let Some(i) = h.in_cs.iter().position(|x| x.0 == tid) {
            h.in_cs.remove(i);
        }
    });
}

impl Model for LockModel {
    fn n_threads(&self) -> usize {
        self.prog.len()
    }
    fn setup(&self) {
        HS.with(|h| {
            let mut h = h.borrow_mut();
            *h = H::default();
            h.nlocks = self.nlocks;
            if self.nlocks == 2 {
                if self.id == "C01" {
                    h.mutex2 = Some(Box::new(sync::Mutex::new(TrackedCell::new(0))));
                } else {
                    h.rw2 = Some(Box::new(sync::RwLock::new(TrackedCell::new(0))));
                }
            }
            if self.id == "C01" {
                h.mutex = Some(Box::new(sync::Mutex::new(TrackedCell::new(0))));
            } else {
                h.rw = Some(Box::new(sync::RwLock::new(TrackedCell::new(0))));
                if self.preset > 0 {
                    let p = h.rw.as_deref().unwrap() as *const _ as *mut u8;
                    unsafe { (p.add(rw_state_offset()) as *mut u32).write(self.preset) };
                }
            }
        });
    }
    fn thread(&self, tid: usize) {
        // the lock lives in a Box owned by the worker's harness state for the whole execution
        let (m, rw): (*const sync::Mutex<TrackedCell>, *const sync::RwLock<TrackedCell>) = HS.with(|h| {
            let h = h.borrow();
            let second = self.nlocks == 2 && tid % 2 == 1;
            (
                if second { &h.mutex2 } else { &h.mutex }.as_deref().map(|x| x as *const _).unwrap_or(std::ptr::null()),
                if second { &h.rw2 } else { &h.rw }.as_deref().map(|x| x as *const _).unwrap_or(std::ptr::null()),
            )
        });
        for &op in &self.prog[tid] {
            let start = ilv::current_step();
            HS.with(|h| {
                let mut h = h.borrow_mut();
                if h.cur_op.len() <= tid {
                    h.cur_op.resize(tid + 1, None);
                }
                h.cur_op[tid] = Some(op);
            });
            ilv::begin_call(op.is_try());
            ilv::note(|| format!("call {}", op.name()));
            macro_rules! body {
                ($g:expr, $writer:expr) => {{
                    let points = ilv::end_call();
                    if op.is_try() && points > self.try_point_limit {
                        ilv::flag_violation("try-call-spins", format!("{} took {points} scheduling points", op.name()));
                    }
                    match $g {
                        Some(g) => {
                            cs_enter(tid, $writer);
                            if matches!(op, Op::LH | Op::RH | Op::WH) {
                                ilv::hold_until_quiescent();
                            }
                            if op == Op::F {
                                // held for ever: stays in `in_cs`, the guard is never dropped
                                std::mem::forget(g);
                            } else {
                                let v = g.get();
                                if $writer {
                                    g.set(v + 1);
                                    HS.with(|h| h.borrow_mut().writes += 1);
                                }
                                cs_exit(tid);
                                drop(g);
                            }
                            true
                        }
                        None => false,
                    }
                }};
            }
            let got = unsafe {
                match op {
                    Op::L => body!(Some((*m).lock()), true),
                    Op::T => body!((*m).try_lock(), true),
                    Op::R if self.preset > 0 => {
                        // at saturation `read` reports the overflow by panicking with its own message: an allowed refusal
                        match std::panic::catch_unwind(std::panic::AssertUnwindSafe(|| (*rw).read())) {
                            Ok(g) => {
                                if self.preset >= MAX_READERS {
                                    ilv::flag_violation("read-admitted-beyond-max-readers", format!("read() returned a guard although {} read guards are outstanding (the maximum)", self.preset));
                                }
                                body!(Some(g), false)
                            }
                            Err(p) => {
                                let msg = p.downcast_ref::<String>().cloned().or_else(|| p.downcast_ref::<&str>().map(|s| s.to_string())).unwrap_or_default();
                                if !msg.contains(SATURATED_MSG) {
                                    std::panic::resume_unwind(p);
                                }
                                let _ = ilv::end_call();
                                HS.with(|h| h.borrow_mut().order.push_str(&format!("{tid}!")));
                                false
                            }
                        }
                    }
                    Op::TR if self.preset >= MAX_READERS => {
                        let g = (*rw).try_read();
                        if g.is_some() {
                            ilv::flag_violation("try_read-admitted-beyond-max-readers", format!("try_read() succeeded although {} read guards are outstanding (the maximum)", self.preset));
                        }
                        body!(g, false)
                    }
                    Op::R => body!(Some((*rw).read()), false),
                    Op::W => body!(Some((*rw).write()), true),
                    Op::TR => body!((*rw).try_read(), false),
                    Op::TW => body!((*rw).try_write(), true),
                    Op::F if self.id == "C01" => body!(Some((*m).lock()), true),
                    Op::F => body!(Some((*rw).write()), true),
                    Op::LH => body!(Some((*m).lock()), true),
                    Op::RH => body!(Some((*rw).read()), false),
                    Op::WH => body!(Some((*rw).write()), true),
                    Op::D => {
                        let text = format!("{:?}", *m);
                        let points = ilv::end_call();
                        if points > self.try_point_limit {
                            ilv::flag_violation("try-call-spins", format!("formatting the Mutex took {points} scheduling points"));
                        }
                        !text.contains("<locked>")
                    }
                }
            };
            let end = ilv::current_step();
            ilv::note(|| format!("done {} -> {}", op.name(), got));
            HS.with(|h| h.borrow_mut().calls.push(Call { tid, op, start, end, got }));
        }
    }
    fn panic_kind(&self, tid: usize) -> String {
        let op = HS.with(|h| h.try_borrow().ok().and_then(|h| h.cur_op.get(tid).copied().flatten()));
        let n = match op {
            Some(Op::L) => "lock",
            Some(Op::T) => "try_lock",
            Some(Op::R) => "read",
            Some(Op::W) => "write",
            Some(Op::TR) => "try_read",
            Some(Op::TW) => "try_write",
            Some(Op::LH) => "lock",
            Some(Op::RH) => "read",
            Some(Op::WH) => "write",
            Some(Op::D) => "debug-fmt",
            Some(Op::F) => "lock-for-ever",
            None => "?",
        };
        format!("{n}:panic")
    }
    fn stuck_ok(&self, blocked: &[usize]) -> bool {
        // a parked thread waits legitimately iff its lock instance is held by a for-ever holder
        HS.with(|h| {
            let h = h.borrow();
            let nl = self.nlocks.max(1);
            let forever: Vec<usize> = self.prog.iter().enumerate().filter(|(_, p)| p.contains(&Op::F)).map(|(t, _)| t).collect();
            !blocked.is_empty() && blocked.iter().all(|&b| h.in_cs.iter().any(|&(t, _)| forever.contains(&t) && t % nl == b % nl))
        })
    }
    fn finish(&self, end: &End) -> String {
        HS.with(|h| {
            let mut h = h.borrow_mut();
            let mut label = String::new();
            if *end == End::Finished {
                // lost update / visibility: the cell counts the exclusive sections executed
                let mut cell = if let Some(m) = h.mutex.as_mut() { unsafe { *m.get_mut().v.get() } } else { unsafe { *h.rw.as_mut().unwrap().get_mut().v.get() } };
                if let Some(m) = h.mutex2.as_mut() {
                    cell += unsafe { *m.get_mut().v.get() };
                }
                if let Some(l) = h.rw2.as_mut() {
                    cell += unsafe { *l.get_mut().v.get() };
                }
                if cell != h.writes {
                    ilv::flag_violation("lost-update", format!("{} exclusive sections ran but the protected counter is {cell}", h.writes));
                }
                // every blocking call returned with the lock (by construction), try results:
                for c in h.calls.iter().filter(|c| !c.got) {
                    // a failed try must overlap a conflicting holder (lenient: call intervals)
                    let overlapped = h.calls.iter().any(|o| {
                        o.tid != c.tid && o.tid % self.nlocks == c.tid % self.nlocks && o.got && o.start <= c.end && c.start <= o.end && (o.op.is_writer() || c.op.is_writer() || self.id == "C02")
                    });
                    if self.id == "C01" && !overlapped {
                        ilv::flag_violation(
                            "try-failed-while-free",
                            format!("T{} {} failed during steps [{},{}] although no other thread held or was acquiring the lock then", c.tid, c.op.name(), c.start, c.end),
                        );
                    }
                }
                label = format!("{}:{}", h.order, h.calls.iter().filter(|c| c.op.is_try()).map(|c| if c.got { '1' } else { '0' }).collect::<String>());
                if h.max_readers > 1 {
                    label.push_str("+shared");
                }
            } else if *end == End::Stuck {
                label = format!("{}:waiting-behind-a-for-ever-holder", h.order);
            } else {
                label = format!("{end:?}");
            }
            h.mutex = None;
            h.rw = None;
            h.mutex2 = None;
            h.rw2 = None;
            label
        })
    }
}

fn words(alpha: &[Op], max: usize) -> Vec<Vec<Op>> {
    let mut out = Vec::new();
    for_each_seq(alpha.len(), max, |s| {
        if !s.is_empty() {
            out.push(s.iter().map(|&i| alpha[i]).collect());
        }
    });
    out
}

/// all multisets of `k` thread programs drawn from `pool` (canonical = non-decreasing indices)
fn multisets(pool: &[Vec<Op>], k: usize) -> Vec<Vec<Vec<Op>>> {
    fn rec(pool: &[Vec<Op>], k: usize, from: usize, cur: &mut Vec<Vec<Op>>, out: &mut Vec<Vec<Vec<Op>>>) {
        if k == 0 {
            out.push(cur.clone());
            return;
        }
        for i in from..pool.len() {
            cur.push(pool[i].clone());
            rec(pool, k - 1, i, cur, out);
            cur.pop();
        }
    }
    let mut out = Vec::new();
    rec(pool, k, 0, &mut Vec::new(), &mut out);
    out
}

struct Class {
    desc: String,
    progs: Vec<Vec<Vec<Op>>>,
    budget: Budget,
    preset: u32,
    nlocks: usize,
}

/// Many-thread programs (binary h-sync-wide): wake counts and batch sizes that only matter with dozens of
/// parked threads.  One writer/locker plus k waiters, all schedules with at most one preemption.
#[cfg(feature = "wide")]
fn classes(id: &str, thorough: bool, _lite: bool) -> Vec<Class> {
    let b = |p, d, w| Budget { p, d, w };
    let mut v = Vec::new();
    // quick: the canonical schedule (lowest runnable id first, lowest-id wake target) and every single departure from it
    // (another thread at a forced switch, another wake target, a spurious futex return); thorough: more thread counts, every schedule with one preemption and no other departure
    let bud = if thorough { b(1, 0, 0) } else { b(0, 1, 0) };
    let ks: &[usize] = if thorough { &[33, 65, 70, 79] } else { &[65, 70] };
    for &k in ks {
        let k = k.min(ilv::MAX_THREADS - 1);
        // the first thread takes the lock and holds it until all others are parked, then releases: every schedule of the
        // wake-up cascade that follows with no preemption and at most one departure from lowest-id-first wake order
        if id == "C01" {
            let mut p = vec![vec![Op::LH]];
            p.extend(std::iter::repeat(vec![Op::L]).take(k));
            v.push(Class { desc: format!("holder + {k} parked lockers"), progs: vec![p], budget: bud, preset: 0, nlocks: 1 });
        } else {
            let mut p = vec![vec![Op::WH]];
            p.extend(std::iter::repeat(vec![Op::R]).take(k));
            v.push(Class { desc: format!("write holder + {k} parked readers"), progs: vec![p], budget: bud, preset: 0, nlocks: 1 });
            let mut p = vec![vec![Op::RH]];
            p.extend(std::iter::repeat(vec![Op::W]).take(k / 2));
            p.extend(std::iter::repeat(vec![Op::R]).take(k - k / 2));
            v.push(Class { desc: format!("read holder + {} parked writers + {} parked readers", k / 2, k - k / 2), progs: vec![p], budget: bud, preset: 0, nlocks: 1 });
            let mut p = vec![vec![Op::WH]];
            p.extend(std::iter::repeat(vec![Op::W]).take(k / 2));
            p.extend(std::iter::repeat(vec![Op::R]).take(k - k / 2));
            v.push(Class { desc: format!("write holder + {} parked writers + {} parked readers", k / 2, k - k / 2), progs: vec![p], budget: bud, preset: 0, nlocks: 1 });
        }
    }
    v
}

#[cfg(not(feature = "wide"))]
fn classes(id: &str, thorough: bool, lite: bool) -> Vec<Class> {
    let alpha: &[Op] = if id == "C01" { &[Op::L, Op::T] } else { &[Op::R, Op::W, Op::TR, Op::TW] };
    let w1 = words(alpha, 1);
    let w2 = words(alpha, 2);
    let b = |p, d, w| Budget { p, d, w };
    let mut v = Vec::new();
    // drop programs in which no thread can ever contend (all try ops are fine: they collide too)
    let one_long = |n: usize| -> Vec<Vec<Vec<Op>>> {
        // n threads with one op each, one of them with two ops
        let mut out = Vec::new();
        for base in multisets(&w1, n - 1) {
            for long in w2.iter().filter(|w| w.len() == 2) {
                let mut p = base.clone();
                p.push(long.clone());
                out.push(p);
            }
        }
        out
    };
    let w3 = words(alpha, 3);
    // programs over the alphabet extended with the observer op, keeping those in which it occurs
    let with_observer = |n: usize, len: usize| -> Vec<Vec<Vec<Op>>> {
        multisets(&words(&[Op::L, Op::T, Op::D], len), n).into_iter().filter(|p| p.iter().flatten().any(|o| *o == Op::D)).collect()
    };
    // holder, formatter, then a thread that tries twice (the formatter's effect on a later acquisition)
    let observer_long = || -> Vec<Vec<Vec<Op>>> { vec![vec![vec![Op::L], vec![Op::D], vec![Op::T, Op::L]], vec![vec![Op::L, Op::L], vec![Op::D, Op::D], vec![Op::L]]] };
    if id == "C01" {
        if !thorough {
            v.push(Class { desc: "2 threads x <=2 ops, stale reads".into(), progs: multisets(&w2, 2), budget: b(6, 2, 1), preset: 0, nlocks: 1 });
            v.push(Class { desc: "3 threads x 1 op, stale reads".into(), progs: multisets(&w1, 3), budget: b(4, 2, 1), preset: 0, nlocks: 1 });
            v.push(Class { desc: "3 threads x <=2 ops".into(), progs: multisets(&w2, 3), budget: b(3, 1, 0), preset: 0, nlocks: 1 });
            v.push(Class { desc: "4 threads x 1 op".into(), progs: multisets(&w1, 4), budget: b(3, 1, 0), preset: 0, nlocks: 1 });
            v.push(Class { desc: "4 threads, one with 2 ops".into(), progs: one_long(4), budget: b(2, 1, 0), preset: 0, nlocks: 1 });
            // one call woken many times without winning: counters/tables indexed by the number of wake-ups
            v.push(Class { desc: "2 threads x 1 op, up to 14 spurious futex returns".into(), progs: multisets(&w1, 2), budget: b(2, 14, 0), preset: 0, nlocks: 1 });
            v.push(Class { desc: "3 threads x 1 op, up to 7 spurious futex returns".into(), progs: multisets(&w1, 3), budget: b(1, 7, 0), preset: 0, nlocks: 1 });
            v.push(Class { desc: "observer: 2-3 threads x <=2 ops over {lock, try_lock, format the Mutex with {:?}}, at least one formatter".into(), progs: with_observer(2, 2).into_iter().chain(with_observer(3, 1)).chain(observer_long()).collect(), budget: b(3, 1, 0), preset: 0, nlocks: 1 });
        } else {
            v.push(Class { desc: "2 threads x <=3 ops, stale reads".into(), progs: multisets(&w3, 2), budget: b(6, 2, 2), preset: 0, nlocks: 1 });
            v.push(Class { desc: "3 threads x <=2 ops, stale reads".into(), progs: multisets(&w2, 3), budget: b(3, 2, 1), preset: 0, nlocks: 1 });
            v.push(Class { desc: "3 threads x <=2 ops, deeper preemption".into(), progs: multisets(&w2, 3), budget: b(4, 1, 0), preset: 0, nlocks: 1 });
            v.push(Class { desc: "4 threads x 1 op, stale reads".into(), progs: multisets(&w1, 4), budget: b(3, 2, 1), preset: 0, nlocks: 1 });
            v.push(Class { desc: "4 threads x 1 op, deeper preemption".into(), progs: multisets(&w1, 4), budget: b(4, 1, 0), preset: 0, nlocks: 1 });
            v.push(Class { desc: "4 threads x <=2 ops".into(), progs: multisets(&w2, 4), budget: b(2, 1, 0), preset: 0, nlocks: 1 });
            v.push(Class { desc: "5 threads x 1 op".into(), progs: multisets(&w1, 5), budget: b(2, 1, 0), preset: 0, nlocks: 1 });
            v.push(Class { desc: "2 threads x 1 op, up to 20 spurious futex returns".into(), progs: multisets(&w1, 2), budget: b(2, 20, 0), preset: 0, nlocks: 1 });
            v.push(Class { desc: "3 threads x 1 op, up to 10 spurious futex returns".into(), progs: multisets(&w1, 3), budget: b(1, 10, 0), preset: 0, nlocks: 1 });
            v.push(Class { desc: "observer: 2-3 threads x <=2 ops, 4 threads x 1 op over {lock, try_lock, format the Mutex with {:?}}, at least one formatter".into(), progs: with_observer(2, 3).into_iter().chain(with_observer(3, 2)).chain(with_observer(4, 1)).collect(), budget: b(3, 1, 1), preset: 0, nlocks: 1 });
        }
    } else if !thorough {
        v.push(Class { desc: "2 threads x <=2 ops, stale reads".into(), progs: multisets(&w2, 2), budget: b(4, 1, 1), preset: 0, nlocks: 1 });
        v.push(Class { desc: "3 threads x 1 op".into(), progs: multisets(&w1, 3), budget: b(3, 2, 0), preset: 0, nlocks: 1 });
        v.push(Class { desc: "3 threads, one with 2 ops".into(), progs: one_long(3), budget: b(2, 1, 0), preset: 0, nlocks: 1 });
        v.push(Class { desc: "4 threads x 1 op".into(), progs: multisets(&w1, 4), budget: b(2, 1, 0), preset: 0, nlocks: 1 });
        v.push(Class { desc: "2 threads x 1 op, up to 12 spurious futex returns".into(), progs: multisets(&w1, 2), budget: b(2, 12, 0), preset: 0, nlocks: 1 });
    } else {
        v.push(Class { desc: "2 threads x <=2 ops, stale reads".into(), progs: multisets(&w2, 2), budget: b(6, 2, 2), preset: 0, nlocks: 1 });
        v.push(Class { desc: "3 threads x 1 op, stale reads".into(), progs: multisets(&w1, 3), budget: b(4, 2, 1), preset: 0, nlocks: 1 });
        v.push(Class { desc: "3 threads, one with 2 ops".into(), progs: one_long(3), budget: b(3, 1, 0), preset: 0, nlocks: 1 });
        v.push(Class { desc: "4 threads x 1 op".into(), progs: multisets(&w1, 4), budget: b(3, 1, 0), preset: 0, nlocks: 1 });
        v.push(Class { desc: "4 threads, one with 2 ops".into(), progs: one_long(4), budget: b(2, 0, 0), preset: 0, nlocks: 1 });
        v.push(Class { desc: "2 threads x 1 op, up to 18 spurious futex returns".into(), progs: multisets(&w1, 2), budget: b(2, 18, 0), preset: 0, nlocks: 1 });
        v.push(Class { desc: "3 threads x 1 op, up to 8 spurious futex returns".into(), progs: multisets(&w1, 3), budget: b(1, 8, 0), preset: 0, nlocks: 1 });
    }
    if id == "C02" {
        // start states next to reader saturation: MAX_READERS-k read guards already leaked; reader-only programs
        // (a leaked guard never releases, so a writer would rightly wait for ever)
        let readers = words(&[Op::R, Op::TR], 2);
        for k in [0u32, 1, 2] {
            let progs: Vec<Vec<Vec<Op>>> = (1..=3).flat_map(|n| multisets(&readers, n)).filter(|p| p.iter().map(|t| t.len()).sum::<usize>() <= if thorough { 5 } else { 4 }).collect();
            v.push(Class { desc: format!("reader saturation: {} read guards leaked beforehand (maximum minus {k}), 1-3 reader-only threads", MAX_READERS - k), progs, budget: b(2, 1, 0), preset: MAX_READERS - k, nlocks: 1 });
        }
    }
    // two independent lock instances used at the same time (thread t works on instance t % 2): nothing one instance does
    // may wake, block or admit a thread of the other -- state shared between instances (a static word, a shared wait
    // address) only shows with waiters parked on both
    {
        let two: Vec<Vec<Vec<Op>>> = if id == "C01" {
            vec![
                vec![vec![Op::LH], vec![Op::LH], vec![Op::L], vec![Op::L]],
                vec![vec![Op::L], vec![Op::L], vec![Op::L], vec![Op::L]],
                vec![vec![Op::LH], vec![Op::L], vec![Op::L], vec![Op::T]],
                // the second instance is never released: its waiter stays parked, everything on the first instance must still complete
                vec![vec![Op::LH], vec![Op::F], vec![Op::L], vec![Op::L]],
                vec![vec![Op::L], vec![Op::F], vec![Op::L], vec![Op::L]],
            ]
        } else {
            let mut t = vec![
                vec![vec![Op::WH], vec![Op::WH], vec![Op::W], vec![Op::W]],
                vec![vec![Op::WH], vec![Op::WH], vec![Op::R], vec![Op::R]],
                vec![vec![Op::RH], vec![Op::RH], vec![Op::W], vec![Op::W]],
                vec![vec![Op::WH], vec![Op::RH], vec![Op::W], vec![Op::W]],
                vec![vec![Op::WH], vec![Op::WH], vec![Op::W], vec![Op::R]],
                vec![vec![Op::W], vec![Op::W], vec![Op::W], vec![Op::W]],
                vec![vec![Op::W], vec![Op::R], vec![Op::R], vec![Op::W]],
                // the second instance is never released: its waiters stay parked, everything on the first instance must still complete
                vec![vec![Op::WH], vec![Op::F], vec![Op::W], vec![Op::W]],
                vec![vec![Op::WH], vec![Op::F], vec![Op::W], vec![Op::R]],
                vec![vec![Op::WH], vec![Op::F], vec![Op::R], vec![Op::W]],
                vec![vec![Op::RH], vec![Op::F], vec![Op::W], vec![Op::W]],
                vec![vec![Op::W], vec![Op::F], vec![Op::W], vec![Op::W]],
            ];
            if thorough {
                t.push(vec![vec![Op::WH], vec![Op::WH], vec![Op::W, Op::R], vec![Op::R, Op::W]]);
            }
            t
        };
        if thorough && id == "C02" {
            v.push(Class {
                desc: "two lock instances, 6 threads (3 per instance)".into(),
                progs: vec![vec![vec![Op::WH], vec![Op::WH], vec![Op::W], vec![Op::W], vec![Op::R], vec![Op::R]], vec![vec![Op::WH], vec![Op::F], vec![Op::W], vec![Op::W], vec![Op::R], vec![Op::R]]],
                budget: b(2, 1, 0),
                preset: 0,
                nlocks: 2,
            });
        }
        v.push(Class { desc: "two lock instances, 4 threads (2 per instance), holders release once everybody is parked; with the second instance held for ever".into(), progs: two, budget: if thorough { b(4, 1, 0) } else { b(3, 1, 0) }, preset: 0, nlocks: 2 });
    }
    if lite {
        // second build profile (no debug assertions / overflow checks): same programs, the cheaper half of the budgets
        v.retain(|c| !c.desc.contains("spurious futex returns") && !c.desc.contains("4 threads, one with 2 ops"));
        for c in v.iter_mut() {
            c.budget = Budget { p: c.budget.p.min(3), d: c.budget.d.min(1), w: 0 };
        }
    }
    v
}

fn choices_json(c: &[(u16, u16)]) -> serde_json::Value {
    json!(c.iter().map(|x| json!([x.0, x.1])).collect::<Vec<_>>())
}

fn run_lock(id: &'static str, args: &Args) -> Report {
    let mut r = Report::new();
    let mut feats = 0u64;
    let mut sched_total = 0u64;
    let mut class_notes = Vec::new();
    let only: Option<String> = args.rest.iter().position(|a| a == "--prog").map(|i| args.rest[i + 1].clone());
    let mut determinism_checked = false;
    // wall cap per program (seconds): a hit is reported as a cap, the class is then not complete
    let class_cap: u64 = std::env::var("VERIF_PROG_CAP_S").ok().and_then(|s| s.parse().ok()).unwrap_or(if args.thorough { 900 } else { 120 });
    // experiment switch: --budget p,d,w overrides every class budget (used with --prog)
    let budget_override: Option<Budget> = args.rest.iter().position(|a| a == "--budget").map(|i| {
        let v: Vec<u8> = args.rest[i + 1].split(',').map(|x| x.parse().unwrap()).collect();
        Budget { p: v[0], d: v[1], w: v[2] }
    });
    let lite = args.rest.iter().any(|a| a == "--lite");
    if id == "C02" {
        // located once, outside any execution (inside one the lock operations are scheduling points)
        let _ = rw_state_offset();
    }
    for mut class in classes(id, args.thorough, lite) {
        if let Some(b) = budget_override {
            class.budget = b;
        }
        let t0 = now();
        let mut cs = 0u64;
        let mut ct = 0u64;
        for prog in &class.progs {
            let name = if class.preset > 0 { format!("{}@{}", prog_name(prog), class.preset) } else if class.nlocks == 2 { format!("{}%2", prog_name(prog)) } else { prog_name(prog) };
            if let Some(o) = &only {
                if *o != name {
                    continue;
                }
            }
            let model = LockModel { id, prog: prog.clone(), try_point_limit: 40, preset: class.preset, nlocks: class.nlocks };
            let cfg = Config { budget: class.budget, max_steps: 5_000, workers: n_workers(), max_schedules: 0, stop_at_first: false, max_seconds: class_cap };
            let st = ilv::explore(&model, &cfg);
            if !determinism_checked {
                // replay the first execution twice: identical traces or the machinery is unsound
                let a = ilv::replay(&model, class.budget, 5_000, &st.first_choices);
                let b = ilv::replay(&model, class.budget, 5_000, &st.first_choices);
                if a.3 != b.3 || a.1 != b.1 {
                    eprintln!("MACHINERY: replaying the same choice list gave different traces");
                    std::process::exit(2);
                }
                determinism_checked = true;
                r.sample(json!({"lock": id, "program": name, "budget": [class.budget.p, class.budget.d, class.budget.w],
                    "choices": choices_json(&st.first_choices), "outcome": a.1, "trace_head": a.3.iter().take(12).collect::<Vec<_>>() }));
            }
            r.evaluations += st.schedules;
            r.states += st.states;
            r.transitions += st.transitions;
            cs += st.schedules;
            ct += st.transitions;
            feats |= st.features;
            sched_total += st.schedules;
            if st.outcomes.len() > 1 {
                r.nontrivial(&name);
            }
            for (k, c) in &st.outcomes {
                r.outcome_n(&format!("{name} => {k}"), *c);
            }
            if st.time_cap_hit {
                r.cap(format!("{name} P{} D{} W{}: wall cap of {class_cap}s hit after {} schedules; exploration of this program is incomplete", class.budget.p, class.budget.d, class.budget.w, st.schedules));
            }
            if args.rest.iter().any(|a| a == "--progress") {
                eprintln!("{id} {name} P{} D{} W{}: {} schedules {:.1}s{}", class.budget.p, class.budget.d, class.budget.w, st.schedules, t0.elapsed().as_secs_f64(), if st.time_cap_hit { " CAPPED" } else { "" });
            }
            if st.step_cap_hits > 0 {
                r.cap(format!("{name}: {} executions hit the step horizon", st.step_cap_hits));
                r.note("machinery-failure");
            }
            for (kind, v) in &st.violations {
                r.violation(
                    &format!("{id}:{kind}"),
                    format!("program {name} budget P{} D{} W{}: {} ({} of {} schedules)", class.budget.p, class.budget.d, class.budget.w, v.desc, v.count, st.schedules),
                    json!({"lock": id, "program": name, "budget": [class.budget.p, class.budget.d, class.budget.w], "preset": class.preset, "nlocks": class.nlocks, "choices": choices_json(&v.choices)}),
                );
            }
            if r.samples.len() < 6 && st.schedules > 50 {
                r.sample(json!({"lock": id, "program": name, "schedules": st.schedules, "states": st.states, "outcomes": st.outcomes.len(),
                    "by_preemptions": st.by_preemptions.to_vec()}));
            }
        }
        class_notes.push(format!(
            "{}: {} programs, P{} D{} W{}: {} schedules, {} transitions, {:.1}s",
            class.desc,
            class.progs.len(),
            class.budget.p,
            class.budget.d,
            class.budget.w,
            cs,
            ct,
            t0.elapsed().as_secs_f64()
        ));
    }
    for (i, n) in ilv::FEATURE_NAMES.iter().enumerate() {
        r.bound(&format!("reached: {n}"), feats & (1 << i) != 0);
    }
    // every schedule is an execution of the real (verbatim) lock code, not of a model of it
    r.traces_validated = r.evaluations;
    r.bound("classes", json!(class_notes));
    r.bound("schedules", sched_total);
    r.rule = format!(
        "every multiset of thread programs in the listed classes over the op alphabet of {id}; for each program every schedule within the class budget \
         (P preemptions, D spurious futex returns / weak-CAS failures, W stale reads), every wake target; a program is counted non-trivial when its schedules \
         produced more than one distinct outcome (acquisition order / try results)"
    );
    r
}

fn replay_lock(v: &serde_json::Value) -> i32 {
    let id: &'static str = if v["lock"].as_str() == Some("C01") { "C01" } else { "C02" };
    let prog: Vec<Vec<Op>> = v["program"].as_str().unwrap().split(|c| c == '@' || c == '%').next().unwrap().split('|').map(|t| t.chars().map(Op::from_char).collect()).collect();
    let b = v["budget"].as_array().unwrap();
    let budget = Budget { p: b[0].as_u64().unwrap() as u8, d: b[1].as_u64().unwrap() as u8, w: b[2].as_u64().unwrap() as u8 };
    let choices: Vec<(u16, u16)> =
        v["choices"].as_array().unwrap().iter().map(|x| (x[0].as_u64().unwrap() as u16, x[1].as_u64().unwrap() as u16)).collect();
    if id == "C02" {
        let _ = rw_state_offset();
    }
    let model = LockModel { id, prog, try_point_limit: 40, preset: v["preset"].as_u64().unwrap_or(0) as u32, nlocks: v["nlocks"].as_u64().unwrap_or(1) as usize };
    let (end, label, viol, trace) = ilv::replay(&model, budget, 5_000, &choices);
    for l in &trace {
        println!("{l}");
    }
    println!("end={end:?} outcome={label}");
    match viol {
        Some((k, d)) => {
            println!("VIOLATED {id}:{k}: {d}");
            1
        }
        None => 0,
    }
}

fn main() {
    let args = parse_args();
    if let Some(p) = &args.replay {
        let v = read_replay(p);
        std::process::exit(replay_lock(&v));
    }
    let phase = args.phase.clone().unwrap_or_else(|| "c01".into());
    let r = match phase.as_str() {
        "c01" => run_lock("C01", &args),
        "c02" => run_lock("C02", &args),
        "futexconf" => conf::run(&args),
        "traits-c01" => traits::run("C01", &args),
        "traits-c02" => traits::run("C02", &args),
        _ => panic!("unknown phase"),
    };
    r.write(&args.out);
}
