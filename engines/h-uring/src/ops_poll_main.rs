//! `h-uring-poll` — a deliberately SMALL second binary of this crate, meant to be built with the
//! fat-LTO profile (`--profile ltofat`), reporting under C17 keys.  It binds one thing the models
//! cannot see: that the loads the wrapper does on the shared ring words are real atomic loads TO
//! THE COMPILER.  With whole-program optimisation `get_next_cqe` / `get_next_sqe_slot` are inlined
//! into the caller's loop; a plain load would be hoisted out of it and an asynchronously posted
//! completion (or consumed submission) would never be seen.
//!
//! Phase "poll" (default): on real rings (flags {0, SQE128|CQE32} x sizes {2, 8}):
//!   * timeout:  submit a 60 ms timeout, then BUSY-POLL `get_next_cqe` with no system call in the loop;
//!   * pipe:     submit a poll on a pipe that a helper thread writes 50 ms later, then busy-poll;
//!   * sq-head:  (SQPOLL x {2, 8}) fill the queue while the poll thread sleeps, a helper thread wakes it
//!               50 ms later, the application spins on `get_next_sqe_slot` until a slot is free.
//! A watchdog thread looks at the ring memory itself (libc-only view) after 3 s: if the completion is
//! there (the head advanced) while the spinning reaper has not returned, that is
//! `C17:real-ring:completion-never-observed-by-polling-reaper`
//! (`C17:real-ring:free-slot-never-observed-by-polling-submitter`).
//! Each case runs in its own forked child (a stuck spinner cannot be stopped from inside).
//!
//! Phase "ringflags": the hand-over enumeration of ops_ringflags.rs compiled into this binary, so that
//! it also runs in the LTO profile.

#![allow(dead_code)]

use common::*;
use rusl::io_uring::{io_uring_enter, setup_io_uring};
use rusl::platform::{IoUring, VerifRingParts, IoUringEnterFlags, IoUringParamFlags as P, IoUringSQEFlags, IoUringSubmissionQueueEntry as Sqe, PollAddMultiFlags, PollEvents, TimeSpec};
use serde_json::json;
use std::sync::atomic::{AtomicBool, Ordering};
use std::sync::Arc;
use std::time::{Duration, Instant};

#[path = "ops_raw.rs"]
mod ops_raw;
#[path = "ops_ringflags.rs"]
mod ops_ringflags;
#[path = "ops_sqebytes.rs"]
mod ops_sqebytes;

/// the few items of the big binary's modules that ops_ringflags.rs uses
mod ops {
    use rusl::platform::IoUringParamFlags as P;
    pub const SQ_IDLE_MS: u32 = 20;
    pub fn table() -> Vec<(&'static str, P)> {
        vec![("SQPOLL", P::IORING_SETUP_SQPOLL), ("SQE128", P::IORING_SETUP_SQE128), ("CQE32", P::IORING_SETUP_CQE32)]
    }
    pub fn flags_from_bits(bits: u32) -> P {
        let mut f = P::empty();
        for (_, x) in table() {
            if bits & x.bits() != 0 {
                f = f | x;
            }
        }
        f
    }
    pub fn flags_name(bits: u32) -> String {
        let v: Vec<&str> = table().into_iter().filter(|(_, x)| bits & x.bits() != 0).map(|(n, _)| n).collect();
        if v.is_empty() {
            "DEFAULT".into()
        } else {
            v.join("|")
        }
    }
    pub fn is_sqpoll(bits: u32) -> bool {
        bits & P::IORING_SETUP_SQPOLL.bits() != 0
    }
    extern "C" fn on_alarm(_: libc::c_int) {
        unsafe { libc::abort() }
    }
    pub fn install_watchdog() {
        unsafe {
            let mut sa: libc::sigaction = std::mem::zeroed();
            sa.sa_sigaction = on_alarm as *const () as usize;
            libc::sigemptyset(&mut sa.sa_mask);
            libc::sigaction(libc::SIGALRM, &sa, std::ptr::null_mut());
        }
    }
}
mod ops_sym {
    pub fn fd_of(n: i32) -> rusl::platform::Fd {
        rusl::platform::Fd::try_new(n).expect("non-negative fd")
    }
}

const SHAPES: [&str; 4] = ["loop-if-let", "while-is-none-with-spin-hint", "counted-match", "constant-flags-handle-in-the-polling-function"];
const EXIT_SEEN: i32 = 0;
const EXIT_NEVER_OBSERVED: i32 = 42;
const EXIT_NOT_POSTED: i32 = 43;
const EXIT_SETUP_REFUSED: i32 = 44;
const EXIT_WRONG_COMPLETION: i32 = 45;
/// the very first look already succeeded: the loop never had to wait (no evidence either way)
const EXIT_SEEN_WITHOUT_WAITING: i32 = 47;

struct View(ops_raw::RingView);
unsafe impl Send for View {}

/// What an application that reaps by polling does: spin on `get_next_cqe` — no system call, nothing else.
#[inline(never)]
fn reap_spinning(ring: &mut IoUring) -> (u64, i32) {
    loop {
        if let Some(c) = ring.get_next_cqe() {
            return (c.0.user_data, c.0.res);
        }
    }
}

/// Other shapes applications give the same loop (the optimiser treats them differently).
#[inline(never)]
fn reap_spinning_hint(ring: &mut IoUring) -> (u64, i32) {
    while ring.get_next_cqe().is_none() {
        std::hint::spin_loop();
    }
    // (the completion was consumed by the successful call; its content is checked by the other shapes)
    (0, 0)
}
#[inline(never)]
fn reap_spinning_counted(ring: &mut IoUring) -> (u64, i32) {
    let mut polls = 0u64;
    loop {
        match ring.get_next_cqe() {
            Some(c) => return (c.0.user_data, c.0.res.wrapping_add((polls == u64::MAX) as i32)),
            None => polls += 1,
        }
    }
}

/// The ring's flags a COMPILE-TIME CONSTANT in the function that holds the loop — what whole-program inlining
/// makes of a program that sets its ring up with literal flags and polls it in the same function: the
/// SQPOLL branch inside `get_next_cqe` folds away and its tail load stands unconditionally in the loop header.
/// Built here without depending on the inliner: a handle over the REAL ring's memory made with
/// `verif_from_raw_parts` (constant flags), polled in this function.  F: 0 = no flags, 1 = SQE128|CQE32.
#[inline(never)]
fn reap_spinning_const_flags<const F: u32>(mut parts: VerifRingParts) -> (u64, i32) {
    parts.flags = if F == 0 { P::empty() } else { P::IORING_SETUP_SQE128 | P::IORING_SETUP_CQE32 };
    let mut h = unsafe { IoUring::verif_from_raw_parts(parts) };
    loop {
        if let Some(c) = h.get_next_cqe() {
            return (c.0.user_data, c.0.res);
        }
    }
}

/// The submitting counterpart: spin until the queue has a free slot.
#[inline(never)]
fn slot_spinning(ring: &mut IoUring) -> *mut Sqe {
    loop {
        if let Some(s) = ring.get_next_sqe_slot() {
            return s;
        }
    }
}

/// the child: never returns
fn child(kind: &str, entries: u32, flags: u32, shape: u32) -> ! {
    unsafe { libc::alarm(20) };
    let idle = 30;
    let Some(params) = ops_raw::raw_params(entries, flags, idle) else { unsafe { libc::_exit(EXIT_SETUP_REFUSED) } };
    let Ok(mut ring) = setup_io_uring(entries, ops::flags_from_bits(flags), 0, idle) else { unsafe { libc::_exit(EXIT_SETUP_REFUSED) } };
    let Some(view) = ops_raw::RingView::find(params) else { unsafe { libc::_exit(EXIT_SETUP_REFUSED) } };
    let (view_base, view_params) = (view.base(), view.p);
    let sqes_addr = ops_raw::uring_maps().iter().find(|m| m.2 == 0x1000_0000).map(|m| m.0).unwrap_or(0);
    let view = View(view);
    let done = Arc::new(AtomicBool::new(false));
    let ring_fd = ring.fd.value();
    let ud = 0x0BAD_5EED_0000_0001u64;
    let ts = TimeSpec::new(0, 60_000_000);
    let mut pipe = [0i32; 2];
    unsafe { libc::pipe2(pipe.as_mut_ptr(), libc::O_CLOEXEC) };
    let e = IoUringSQEFlags::empty();

    if kind == "sq-head" {
        // the poll thread has to be asleep, the queue full
        let t = Instant::now();
        while view.0.sq_flags() & 1 == 0 && t.elapsed() < Duration::from_secs(3) {
            std::thread::sleep(Duration::from_millis(1));
        }
        for i in 0..view.0.p.sq_entries {
            let Some(s) = ring.get_next_sqe_slot() else { unsafe { libc::_exit(EXIT_WRONG_COMPLETION) } };
            let mut nop = Sqe::new_close(ops_sym::fd_of(0), 100 + i as u64, e);
            nop.0.opcode = 0;
            unsafe { s.write(nop) };
        }
        ring.flush_submission_queue();
        let sq_head0 = view.0.sq_head();
        {
            let done = done.clone();
            std::thread::spawn(move || {
                std::thread::sleep(Duration::from_millis(50));
                // wake the poll thread: it consumes the queue, the SQ head advances
                unsafe { libc::syscall(libc::SYS_io_uring_enter, ring_fd, 0u32, 0u32, 2u32 /* SQ_WAKEUP */, 0usize, 0usize) };
                let t = Instant::now();
                while t.elapsed() < Duration::from_secs(3) {
                    if done.load(Ordering::SeqCst) {
                        return;
                    }
                    std::thread::sleep(Duration::from_millis(5));
                }
                let advanced = view.0.sq_head() != sq_head0;
                unsafe { libc::_exit(if advanced { EXIT_NEVER_OBSERVED } else { EXIT_NOT_POSTED }) };
            });
        }
        // the spinning submitter: no system call in this loop
        // one look first: only a queue that is really full makes the loop wait
        let (slot, spins) = match ring.get_next_sqe_slot() {
            Some(s) => (s, 0u64),
            None => (slot_spinning(&mut ring), 1),
        };
        done.store(true, Ordering::SeqCst);
        std::hint::black_box(slot);
        unsafe { libc::_exit(if spins == 0 { EXIT_SEEN_WITHOUT_WAITING } else { EXIT_SEEN }) };
    }

    // completion side
    let Some(slot) = ring.get_next_sqe_slot() else { unsafe { libc::_exit(EXIT_WRONG_COMPLETION) } };
    let sqe = if kind == "timeout" {
        unsafe { Sqe::new_timeout(&ts, true, None, ud, e) }
    } else {
        Sqe::new_poll_add(ops_sym::fd_of(pipe[0]), PollEvents::POLLIN, PollAddMultiFlags::empty(), ud, e)
    };
    unsafe { slot.write(sqe) };
    ring.flush_submission_queue();
    if io_uring_enter(ring.fd, 1, 0, IoUringEnterFlags::empty()).is_err() {
        unsafe { libc::_exit(EXIT_WRONG_COMPLETION) };
    }
    {
        let done = done.clone();
        let wfd = pipe[1];
        let is_pipe = kind == "pipe";
        std::thread::spawn(move || {
            std::thread::sleep(Duration::from_millis(50));
            if is_pipe {
                unsafe { libc::write(wfd, b"x".as_ptr().cast(), 1) };
            }
            let t = Instant::now();
            while t.elapsed() < Duration::from_secs(3) {
                if done.load(Ordering::SeqCst) {
                    return;
                }
                std::thread::sleep(Duration::from_millis(5));
            }
            // the reaper is still spinning: is the completion there?  (GETEVENTS from this thread lets pending
            // completion work be posted; the ring memory is then read directly)
            unsafe { libc::syscall(libc::SYS_io_uring_enter, ring_fd, 0u32, 0u32, 1u32, 0usize, 0usize) };
            let present = view.0.cq_tail() != view.0.cq_head();
            unsafe { libc::_exit(if present { EXIT_NEVER_OBSERVED } else { EXIT_NOT_POSTED }) };
        });
    }
    // the polling reaper: no system call in this loop
    let first = ring.get_next_cqe().map(|c| (c.0.user_data, c.0.res));
    let (got, spins) = match first {
        Some(g) => (g, 0u64),
        None => (
            match shape {
                1 => {
                    reap_spinning_hint(&mut ring);
                    (ud, if kind == "timeout" { -libc::ETIME } else { 1 })
                }
                2 => reap_spinning_counted(&mut ring),
                3 => {
                    let (lh, lt) = ring.verif_local_sq();
                    let base = view_base;
                    let pp = &view_params;
                    let at = |off: u32| unsafe { base.add(off as usize) as *mut u32 };
                    let parts = VerifRingParts {
                        fd: ring.fd,
                        flags: P::empty(),
                        sq_khead: at(pp.sq_off.head),
                        sq_ktail: at(pp.sq_off.tail),
                        sq_kflags: at(pp.sq_off.flags),
                        sq_kdropped: at(pp.sq_off.dropped),
                        sq_array: at(pp.sq_off.array),
                        sq_entries: sqes_addr as *mut Sqe,
                        sq_ring_entries: pp.sq_entries,
                        sq_local_head: lh,
                        sq_local_tail: lt,
                        cq_khead: at(pp.cq_off.head),
                        cq_ktail: at(pp.cq_off.tail),
                        cq_koverflow: at(pp.cq_off.overflow),
                        cq_entries: unsafe { base.add(pp.cq_off.cqes as usize) }.cast(),
                        cq_ring_entries: pp.cq_entries,
                    };
                    if flags == 0 {
                        reap_spinning_const_flags::<0>(parts)
                    } else {
                        reap_spinning_const_flags::<1>(parts)
                    }
                }
                _ => reap_spinning(&mut ring),
            },
            1,
        ),
    };
    done.store(true, Ordering::SeqCst);
    let want_res = if kind == "timeout" { -libc::ETIME } else { 1 };
    unsafe { libc::_exit(if got != (ud, want_res) { EXIT_WRONG_COMPLETION } else if spins == 0 { EXIT_SEEN_WITHOUT_WAITING } else { EXIT_SEEN }) };
}

fn poll_phase(args: &Args) -> Report {
    let t0 = Instant::now();
    let mut r = Report::new();
    let both = P::IORING_SETUP_SQE128.bits() | P::IORING_SETUP_CQE32.bits();
    let sqp = P::IORING_SETUP_SQPOLL.bits();
    let reps = if args.thorough { 5 } else { 1 };
    // (scenario, ring, flags, repetition, loop shape 0..3)
    let mut cases: Vec<(&'static str, u32, u32, u32, u32)> = Vec::new();
    for rep in 0..reps {
        for e in [2u32, 8] {
            for f in [0, both] {
                for shape in 0..4 {
                    cases.push(("timeout", e, f, rep, shape));
                    cases.push(("pipe", e, f, rep, shape));
                }
            }
            cases.push(("sq-head", e, sqp, rep, 0));
        }
    }
    // all children at once: each mostly sleeps or spins on one core for ~60 ms
    use std::io::Write;
    std::io::stdout().flush().ok();
    let mut kids: Vec<(libc::pid_t, usize)> = Vec::new();
    for (i, (kind, e, f, _, shape)) in cases.iter().enumerate() {
        let pid = unsafe { libc::fork() };
        if pid == 0 {
            child(kind, *e, *f, *shape);
        }
        assert!(pid > 0, "fork failed");
        kids.push((pid, i));
    }
    for (pid, i) in kids {
        let (kind, e, f, rep, shape) = cases[i];
        let mut st = 0;
        unsafe { libc::waitpid(pid, &mut st, 0) };
        r.eval();
        r.nontrivial_unique();
        let cj = json!({"phase": "poll", "op": "real-ring", "kind": kind, "ring": e, "flags": f, "flags_name": ops::flags_name(f), "rep": rep, "loop_shape": SHAPES[shape as usize], "profile": build_profile()});
        let what = format!("{kind} on a ring of {e} entries, flags {}, build profile {}", ops::flags_name(f), build_profile());
        if !libc::WIFEXITED(st) {
            r.violation("C17:real-ring:crash", format!("{what}: the child ended with wait status {st:#x}"), cj);
            continue;
        }
        match libc::WEXITSTATUS(st) {
            EXIT_SEEN => r.outcome(&format!("{kind}:observed-by-the-spinning-loop")),
            EXIT_NEVER_OBSERVED => {
                let (key, d) = if kind == "sq-head" {
                    ("C17:real-ring:free-slot-never-observed-by-polling-submitter", "the kernel's SQ head advanced (the poll thread consumed the queue) but the loop spinning on get_next_sqe_slot() kept seeing a full queue for 3 s")
                } else {
                    ("C17:real-ring:completion-never-observed-by-polling-reaper", "the completion is in the completion queue (tail != head in the ring memory) but the loop spinning on get_next_cqe() without a system call did not return it within 3 s")
                };
                r.outcome(&format!("{kind}:never-observed"));
                r.violation(key, format!("{what}: {d}"), cj);
            }
            EXIT_NOT_POSTED => {
                // the kernel did not post/consume within 3 s: the precondition failed, no verdict about the loads
                r.outcome(&format!("{kind}:kernel-side-did-not-happen"));
                r.cap(format!("{what}: nothing arrived from the kernel within 3 s"));
            }
            EXIT_SEEN_WITHOUT_WAITING => r.outcome(&format!("{kind}:seen-at-the-first-look(no waiting happened)")),
            EXIT_SETUP_REFUSED => r.outcome(&format!("{kind}:ring-set-up-refused(skipped)")),
            EXIT_WRONG_COMPLETION => r.violation("C17:real-ring:result-differs", format!("{what}: the spinning loop returned something else than the stamped completion"), cj),
            other => r.violation("C17:real-ring:crash", format!("{what}: child exit status {other}"), cj),
        }
    }
    r.rule = "every (scenario in {timeout, pipe poll, SQPOLL free slot} x ring size {2,8} x flags) once (thorough: 5 repetitions): the asynchronous event happens ~50-60 ms after the application \
              started spinning on the wrapper's queue function with no system call in the loop; non-trivial: every case spins on shared ring memory"
        .into();
    r.bound("build_profile", build_profile());
    r.bound("cases", cases.len());
    r.note(format!("wall {:.1}s", t0.elapsed().as_secs_f64()));
    r
}

fn build_profile() -> &'static str {
    // debug assertions are off in the LTO profile (and in plain release), on in the harness's dev profile
    if cfg!(debug_assertions) {
        "dev(debug-assertions)"
    } else {
        "optimised(no debug-assertions; ltofat when built with --profile ltofat)"
    }
}

fn main() {
    let args = parse_args();
    install_panic_hook();
    if let Some(p) = &args.replay {
        let v = read_replay(p);
        let mut r = Report::new();
        if v["phase"].as_str() == Some("sqebytes") {
            ops_sqebytes::replay(&v, &mut r);
        } else if v["phase"].as_str() == Some("ringflags") {
            ops_ringflags::replay(&v, &mut r);
        } else {
            let kind: &'static str = match v["kind"].as_str() {
                Some("pipe") => "pipe",
                Some("sq-head") => "sq-head",
                _ => "timeout",
            };
            let pid = unsafe { libc::fork() };
            if pid == 0 {
                let shape = SHAPES.iter().position(|s| Some(*s) == v["loop_shape"].as_str()).unwrap_or(0) as u32;
                child(kind, v["ring"].as_u64().unwrap_or(2) as u32, v["flags"].as_u64().unwrap_or(0) as u32, shape);
            }
            let mut st = 0;
            unsafe { libc::waitpid(pid, &mut st, 0) };
            println!("{kind}: child wait status {st:#x} (exit 0 = observed, 42 = never observed, 43 = kernel side did not happen) in build profile {}", build_profile());
            if libc::WIFEXITED(st) && libc::WEXITSTATUS(st) == EXIT_NEVER_OBSERVED {
                r.violation("C17:real-ring:completion-never-observed-by-polling-reaper", "see above", v.clone());
            }
        }
        for v in r.violations.values() {
            println!("VIOLATED {}: {}", v.key, v.desc);
        }
        std::process::exit(if r.violations.is_empty() { 0 } else { 1 });
    }
    let phase = args.phase.clone().unwrap_or_else(|| "poll".into());
    let r = match phase.as_str() {
        "poll" => poll_phase(&args),
        "ringflags" => ops_ringflags::run(&args),
        "sqebytes" => ops_sqebytes::run(&args),
        _ => panic!("unknown phase {phase} (poll | ringflags | sqebytes)"),
    };
    r.write(&args.out);
}
