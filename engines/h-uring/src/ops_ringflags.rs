//! Phase "ringflags" — reports under C17 keys (hand-over of entries between application and kernel),
//! on REAL rings made by `setup_io_uring` (the C17 harness h-ring drives the queue functions over its
//! own memory and never runs set-up).
//!
//! For every ring size x set-up flag combination of {0, SQE128, CQE32, SQE128|CQE32} (+ the same with
//! SQPOLL where permitted) and every start slot, every sequence of up to L batches (each 1..ring
//! entries long; small rings also every composition up to 3*ring entries in total) of NOP entries
//! stamped with consecutive user_data is written through `get_next_sqe_slot`, flushed, entered and
//! reaped.  Oracle: what is reaped after each batch is exactly what was flushed — nothing lost,
//! nothing completed that was not flushed (an unfilled slot is a NOP with user_data 0 to the
//! kernel), every result 0.

use crate::ops::{flags_from_bits, flags_name, is_sqpoll, SQ_IDLE_MS};
use crate::ops_sym::fd_of;
use common::*;
use rusl::io_uring::{io_uring_enter, setup_io_uring};
use rusl::platform::{IoUring, IoUringEnterFlags, IoUringParamFlags as P, IoUringSQEFlags, IoUringSubmissionQueueEntry as Sqe};
use serde_json::{json, Value};

fn nop(ud: u64) -> Sqe {
    // the wrapper has no NOP constructor: a close entry turned into IORING_OP_NOP (opcode 0, descriptor unused)
    let mut s = Sqe::new_close(fd_of(0), ud, IoUringSQEFlags::empty());
    s.0.opcode = 0;
    s.0.fd = -1;
    s
}

struct Rg {
    ring: IoUring,
    flags: u32,
    kernel_entries: u32,
    /// entries handed over so far (the next one goes to slot `submitted % kernel_entries`)
    submitted: u64,
    next_ud: u64,
}

#[derive(Debug)]
enum Bad {
    Lost(String),
    Stranger(String),
    Other(&'static str, String),
}

impl Rg {
    fn batch(&mut self, len: u32) -> Result<bool, Bad> {
        let sq = is_sqpoll(self.flags);
        let first = self.next_ud;
        for i in 0..len {
            let mut slot = self.ring.get_next_sqe_slot();
            if slot.is_none() && sq {
                let t = std::time::Instant::now();
                while slot.is_none() && t.elapsed().as_millis() < 2000 {
                    std::thread::yield_now();
                    slot = self.ring.get_next_sqe_slot();
                }
            }
            let Some(p) = slot else {
                return Err(Bad::Other("slot-refused", format!("get_next_sqe_slot() = None for entry {i} of a batch of {len} with nothing in flight")));
            };
            unsafe { p.write(nop(first + i as u64)) };
        }
        self.next_ud += len as u64;
        let pending = self.ring.flush_submission_queue();
        if !sq && pending != len {
            return Err(Bad::Other("flush-count-differs", format!("flush_submission_queue() = {pending} after writing {len} entries")));
        }
        let mut fl = IoUringEnterFlags::IORING_ENTER_GETEVENTS;
        if sq && self.ring.needs_wakeup() {
            fl = fl | IoUringEnterFlags::IORING_ENTER_SQ_WAKEUP;
        }
        let k = io_uring_enter(self.ring.fd, len, len, fl).map_err(|e| Bad::Other("enter-failed", format!("{e}")))?;
        self.submitted += len as u64;
        let mut got: Vec<(u64, i32)> = Vec::new();
        let reap = |ring: &mut IoUring, got: &mut Vec<(u64, i32)>| {
            while got.len() < 4 * len as usize + 8 {
                match ring.get_next_cqe() {
                    Some(c) => got.push((c.0.user_data, c.0.res)),
                    None => break,
                }
            }
        };
        reap(&mut self.ring, &mut got);
        // a last look for anything more (also lets an SQPOLL thread finish)
        // (entries of a ring without SQPOLL are issued inside io_uring_enter: nothing to wait for there)
        let t = std::time::Instant::now();
        while sq && got.len() < len as usize && t.elapsed().as_millis() < 300 {
            let _ = io_uring_enter(self.ring.fd, 0, 0, IoUringEnterFlags::IORING_ENTER_GETEVENTS);
            reap(&mut self.ring, &mut got);
            std::thread::yield_now();
        }
        let _ = io_uring_enter(self.ring.fd, 0, 0, IoUringEnterFlags::IORING_ENTER_GETEVENTS);
        reap(&mut self.ring, &mut got);
        let want: Vec<u64> = (first..first + len as u64).collect();
        let strangers: Vec<&(u64, i32)> = got.iter().filter(|c| !want.contains(&c.0)).collect();
        if !strangers.is_empty() {
            return Err(Bad::Stranger(format!(
                "flushed {len} entries stamped {first}..{}; reaped {:?}: completions {:?} belong to no flushed entry (user_data 0 is what an unfilled slot holds)",
                first + len as u64 - 1,
                got,
                strangers
            )));
        }
        let lost: Vec<u64> = want.iter().copied().filter(|u| !got.iter().any(|c| c.0 == *u)).collect();
        if !lost.is_empty() || k != len as usize {
            return Err(Bad::Lost(format!("flushed {len} entries stamped {first}..{}; io_uring_enter reported {k} submitted; reaped {:?}: entries {lost:?} never completed", first + len as u64 - 1, got)));
        }
        if got.len() != len as usize {
            return Err(Bad::Other("extra-completion", format!("flushed {len} entries, reaped {} completions {:?}", got.len(), got)));
        }
        if let Some(c) = got.iter().find(|c| c.1 != 0) {
            return Err(Bad::Other("result-differs", format!("a NOP stamped {} completed with {}", c.0, c.1)));
        }
        Ok(got.iter().map(|c| c.0).eq(want.iter().copied()))
    }
}

fn make(entries: u32, flags: u32) -> Result<Rg, String> {
    match catch(|| setup_io_uring(entries, flags_from_bits(flags), 0, SQ_IDLE_MS)) {
        Ok(Ok(ring)) => {
            let k = crate::ops_raw::kernel_ring_entries(entries).map(|x| x.0).unwrap_or_else(|| entries.next_power_of_two());
            Ok(Rg { ring, flags, kernel_entries: k, submitted: 0, next_ud: 1 })
        }
        Ok(Err(e)) => Err(format!("{e}")),
        Err(p) => Err(format!("panic: {p}")),
    }
}

fn case_json(entries: u32, flags: u32, start: u32, batches: &[u32]) -> Value {
    json!({"phase": "ringflags", "op": "real-ring", "ring": entries, "kernel_ring_entries": entries.next_power_of_two(), "flags": flags, "flags_name": flags_name(flags), "start_slot": start, "batches": batches})
}

/// One case on a long-lived ring: align to `start`, then the batches.  Returns false when the ring must be replaced.
fn run_case(rg: &mut Rg, entries: u32, start: u32, batches: &[u32], r: &mut Report, verbose: bool) -> bool {
    r.eval();
    r.nontrivial_unique();
    let cj = case_json(entries, rg.flags, start, batches);
    set_case(&cj.to_string());
    unsafe { libc::alarm(30) };
    let k = rg.kernel_entries as u64;
    let mut ok = true;
    let mut res: Result<bool, Bad> = Ok(true);
    // single entries until the next one lands in slot `start`
    let here = rg.submitted % k;
    let align = (start as u64 + k - here) % k;
    let mut in_order = true;
    for _ in 0..align {
        res = rg.batch(1);
        if res.is_err() {
            break;
        }
    }
    if res.is_ok() {
        for &b in batches {
            if verbose {
                println!("  batch of {b} starting at slot {}", rg.submitted % k);
            }
            res = rg.batch(b);
            match &res {
                Ok(o) => in_order &= *o,
                Err(_) => break,
            }
        }
    }
    match res {
        Ok(_) => {
            let wraps = (start as u64 + batches.iter().map(|b| *b as u64).sum::<u64>()) > k;
            r.outcome(if wraps { "handover:exact(wraps-around)" } else { "handover:exact" });
            if !in_order {
                r.outcome("handover:completions-out-of-submission-order");
            }
        }
        Err(b) => {
            ok = false;
            let what = format!("ring of {entries} entries, flags {}, start slot {start}, batches {batches:?}", flags_name(rg.flags));
            match b {
                Bad::Lost(d) => r.violation("C17:real-ring:entries-lost", format!("{what}: {d}"), cj),
                Bad::Stranger(d) => r.violation("C17:real-ring:consumed-unflushed-entry", format!("{what}: {d}"), cj),
                Bad::Other(k, d) => r.violation(&format!("C17:real-ring:{k}"), format!("{what}: {d}"), cj),
            }
        }
    }
    unsafe { libc::alarm(0) };
    clear_case();
    ok
}

/// batch-length sequences for a ring of `e` entries: every sequence of 1..=l batches, each 1..=e long; for small
/// rings also every composition of totals up to 3*e
fn sequences(e: u32, l: usize, compositions: bool) -> Vec<Vec<u32>> {
    let mut v: Vec<Vec<u32>> = Vec::new();
    for_each_seq(e as usize, l, |s| {
        if !s.is_empty() {
            v.push(s.iter().map(|x| *x as u32 + 1).collect());
        }
    });
    if compositions {
        fn rec(e: u32, left: u32, cur: &mut Vec<u32>, l: usize, out: &mut Vec<Vec<u32>>) {
            if cur.len() > l {
                out.push(cur.clone());
            }
            for b in 1..=e.min(left) {
                cur.push(b);
                rec(e, left - b, cur, l, out);
                cur.pop();
            }
        }
        rec(e, 3 * e, &mut Vec::new(), l, &mut v);
    }
    v
}

// ---------------------------------------------------------------------------
// the entry `get_next_cqe` hands out stays what it was while the caller holds it

/// Ordinary safe user code: take a completion, let the kernel run once, then read it.
/// Returns what was read through the held reference.
fn take_enter_then_read(ring: &mut IoUring) -> Option<(u64, i32)> {
    let fd = ring.fd;
    let held = ring.get_next_cqe()?;
    // flushes a completion parked on the overflow list into the ring — into whichever slot is free
    let _ = io_uring_enter(fd, 0, 0, IoUringEnterFlags::IORING_ENTER_GETEVENTS);
    Some((held.0.user_data, held.0.res))
}

fn held_json(entries: u32, flags: u32, extra: u32, take: u32) -> Value {
    json!({"phase": "ringflags", "scenario": "held-entry", "op": "real-ring", "ring": entries, "flags": flags, "flags_name": flags_name(flags), "parked": extra, "taken_with_enter_in_between": take})
}

/// Completion ring full with `extra` >= 1 more completions parked (IORING_FEAT_NODROP); the first `take`
/// completions are each taken with `take_enter_then_read`, the rest plainly.  Everything must come out
/// exactly once, in submission order, and each held entry must read as the completion due at that point.
pub fn held_case(entries: u32, flags: u32, extra: u32, take: u32, r: &mut Report, verbose: bool) {
    r.eval();
    r.nontrivial_unique();
    let cj = held_json(entries, flags, extra, take);
    set_case(&cj.to_string());
    unsafe { libc::alarm(30) };
    let done = (|| -> Result<(), (String, String)> {
        let mut rg = make(entries, flags).map_err(|e| ("skip".to_string(), e))?;
        let cq = crate::ops_raw::kernel_ring_entries(entries).map(|x| x.1).unwrap_or(2 * entries.next_power_of_two());
        let total = cq + extra;
        // inline-completing entries, nothing reaped in between
        let mut sent = 0u32;
        while sent < total {
            let n = (total - sent).min(rg.kernel_entries);
            for i in 0..n {
                let Some(p) = rg.ring.get_next_sqe_slot() else { return Err(("slot-refused".into(), format!("no slot for entry {} of {total}", sent + i))) };
                unsafe { p.write(nop(1000 + (sent + i) as u64)) };
            }
            rg.ring.flush_submission_queue();
            let k = io_uring_enter(rg.ring.fd, n, 0, IoUringEnterFlags::empty()).map_err(|e| ("enter-failed".to_string(), format!("{e}")))?;
            if k != n as usize {
                return Err(("entries-lost".into(), format!("io_uring_enter(to_submit={n}) = {k} while filling the completion ring")));
            }
            sent += n;
        }
        let mut got: Vec<(u64, i32)> = Vec::new();
        for i in 0..take.min(total) {
            match take_enter_then_read(&mut rg.ring) {
                Some(c) => {
                    if verbose {
                        println!("  taken #{i} with an io_uring_enter before the read: user_data {} res {}", c.0, c.1);
                    }
                    let due = 1000 + i as u64;
                    if c.0 != due {
                        return Err((
                            "entry-changed-before-the-caller-read-it".into(),
                            format!(
                                "completion ring of {cq} entries full, {extra} more parked: get_next_cqe() handed out the completion due (user_data {due}); after io_uring_enter(GETEVENTS) the held reference reads user_data {} res {} — the slot was given back to the kernel before the caller read it",
                                c.0, c.1
                            ),
                        ));
                    }
                    got.push(c);
                }
                None => return Err(("entries-lost".into(), format!("get_next_cqe() = None with {} of {total} completions still due", total - i))),
            }
        }
        // the rest
        let t = std::time::Instant::now();
        while (got.len() as u32) < total && t.elapsed().as_millis() < 2000 {
            match rg.ring.get_next_cqe() {
                Some(c) => got.push((c.0.user_data, c.0.res)),
                None => {
                    let _ = io_uring_enter(rg.ring.fd, 0, 0, IoUringEnterFlags::IORING_ENTER_GETEVENTS);
                }
            }
        }
        let want: Vec<u64> = (0..total as u64).map(|i| 1000 + i).collect();
        let have: Vec<u64> = got.iter().map(|c| c.0).collect();
        if have != want {
            let lost: Vec<&u64> = want.iter().filter(|u| !have.contains(u)).collect();
            let twice: Vec<&u64> = want.iter().filter(|u| have.iter().filter(|h| h == u).count() > 1).collect();
            let key = if !lost.is_empty() { "entries-lost" } else { "extra-completion" };
            return Err((key.into(), format!("{total} completions due {want:?}, reaped {have:?}: never seen {lost:?}, seen twice {twice:?}")));
        }
        if let Some(c) = got.iter().find(|c| c.1 != 0) {
            return Err(("result-differs".into(), format!("a NOP stamped {} completed with {}", c.0, c.1)));
        }
        Ok(())
    })();
    unsafe { libc::alarm(0) };
    clear_case();
    match done {
        Ok(()) => r.outcome("held-entry:stable-and-everything-reaped-once"),
        Err((k, d)) if k == "skip" => {
            r.outcome("held-entry:set-up-refused(skipped)");
            let _ = d;
        }
        Err((k, d)) => r.violation(&format!("C17:real-ring:{k}"), format!("ring of {entries} entries, flags {}: {d}", flags_name(flags)), cj),
    }
}

/// `needs_wakeup()` is exactly the NEED_WAKEUP bit of the SQ flags word, whatever the kernel keeps in its other
/// bits (CQ_OVERFLOW, TASKRUN): a poller that sleeps while an overflow backlog exists must still be woken, or
/// flushed entries are never consumed.  Sequential, over harness memory (rusl's verif-hooks constructor).
pub fn needs_wakeup_truth_table(r: &mut Report) {
    use rusl::platform::VerifRingParts;
    for word in 0u32..8 {
        r.eval();
        r.nontrivial_unique();
        let mut w = Box::new([0u32; 16]);
        w[2] = word;
        let mut sqe = Box::new([0u8; 128]);
        let mut cqe = Box::new([0u8; 32]);
        let p = w.as_mut_ptr();
        let got = catch(|| unsafe {
            let ring = IoUring::verif_from_raw_parts(VerifRingParts {
                fd: fd_of(0),
                flags: P::IORING_SETUP_SQPOLL,
                sq_khead: p,
                sq_ktail: p.add(1),
                sq_kflags: p.add(2),
                sq_kdropped: p.add(3),
                sq_array: p.add(4),
                sq_entries: sqe.as_mut_ptr().cast(),
                sq_ring_entries: 1,
                sq_local_head: 0,
                sq_local_tail: 0,
                cq_khead: p.add(5),
                cq_ktail: p.add(6),
                cq_koverflow: p.add(7),
                cq_entries: cqe.as_mut_ptr().cast(),
                cq_ring_entries: 1,
            });
            ring.needs_wakeup()
        });
        let want = word & 1 != 0;
        let cj = json!({"phase": "ringflags", "scenario": "needs_wakeup-truth-table", "op": "needs_wakeup", "word": word});
        match got {
            Ok(g) if g == want => r.outcome("needs_wakeup:equals-the-NEED_WAKEUP-bit"),
            Ok(g) => {
                let key = if want { "C17:needs_wakeup:ignores-bit-when-other-flags-set" } else { "C17:needs_wakeup:true-without-bit" };
                r.violation(key, format!("SQ flags word {word:#05b} (NEED_WAKEUP {}, CQ_OVERFLOW {}, TASKRUN {}): needs_wakeup() = {g}", word & 1, (word >> 1) & 1, (word >> 2) & 1), cj);
            }
            Err(pn) => r.violation("C17:needs_wakeup:panic", format!("needs_wakeup() with flags word {word:#x} panicked: {pn}"), cj),
        }
    }
}

/// IORING_SETUP_CLAMP with an oversize request: the kernel clamps the queue (to 32768 entries); the library must
/// hold the KERNEL's mask.  Every slot address handed out while the free-running tail runs through two full
/// rings (+2) must lie inside the mapped SQE array, and every NOP must come back with its user_data.
pub fn clamp_case(entries: u32, r: &mut Report) {
    r.eval();
    r.nontrivial_unique();
    let clamp = P::IORING_SETUP_CLAMP;
    let cj = json!({"phase": "ringflags", "scenario": "clamp", "op": "real-ring", "ring": entries, "flags": clamp.bits(), "flags_name": "CLAMP"});
    set_case(&cj.to_string());
    unsafe { libc::alarm(60) };
    let res = (|| -> Result<(), (String, String)> {
        let kp = crate::ops_raw::raw_params(entries, clamp.bits(), 0).ok_or(("skip".to_string(), "raw set-up refused".to_string()))?;
        let mut ring = setup_io_uring(entries, clamp, 0, 0).map_err(|e| ("skip".to_string(), format!("{e}")))?;
        let k = kp.sq_entries;
        let maps = crate::ops_raw::uring_maps();
        let sq = maps.iter().find(|m| m.2 == 0x1000_0000).ok_or(("skip".to_string(), "SQE mapping not found".to_string()))?;
        let (lo, hi) = (sq.0, sq.0 + k as u64 * 64);
        let total = 2 * k as u64 + 2;
        let mut ud = 1u64;
        while ud <= total {
            let n = (total - ud + 1).min(1024) as u32;
            for i in 0..n {
                let slot = ring.get_next_sqe_slot().ok_or(("slot-refused".to_string(), format!("no slot for entry {} with nothing in flight", ud + i as u64)))?;
                let a = slot as u64;
                if a < lo || a + 64 > hi {
                    return Err((
                        "sq-mask-differs-from-kernel".into(),
                        format!("requested {entries} entries with CLAMP, the kernel made {k}: for the {}th entry get_next_sqe_slot() hands out {a:#x}, outside the mapped SQE array [{lo:#x}, {hi:#x}) — the library's mask is not the kernel's ({})", ud + i as u64, k - 1),
                    ));
                }
                unsafe { slot.write(nop(ud + i as u64)) };
            }
            ring.flush_submission_queue();
            let got_n = io_uring_enter(ring.fd, n, n, IoUringEnterFlags::IORING_ENTER_GETEVENTS).map_err(|e| ("enter-failed".to_string(), format!("{e}")))?;
            if got_n != n as usize {
                return Err(("entries-lost".into(), format!("io_uring_enter(to_submit={n}) = {got_n} at entry {ud}")));
            }
            for i in 0..n {
                match ring.get_next_cqe() {
                    Some(c) if c.0.user_data == ud + i as u64 && c.0.res == 0 => {}
                    Some(c) => return Err(("consumed-unflushed-entry".into(), format!("entry {} due, reaped user_data {} res {}", ud + i as u64, c.0.user_data, c.0.res))),
                    None => return Err(("entries-lost".into(), format!("entry {} never completed", ud + i as u64))),
                }
            }
            ud += n as u64;
        }
        Ok(())
    })();
    unsafe { libc::alarm(0) };
    clear_case();
    match res {
        Ok(()) => r.outcome("clamp:two-full-rings-handed-over-inside-the-mapping"),
        Err((k, _)) if k == "skip" => r.outcome("clamp:set-up-refused(skipped)"),
        Err((k, d)) => {
            let key = if k == "sq-mask-differs-from-kernel" { "C17:setup:sq-mask-differs-from-kernel".to_string() } else { format!("C17:real-ring:{k}") };
            r.violation(&key, d, cj)
        }
    }
}

pub fn held_cases(th: bool) -> Vec<(u32, u32, u32, u32)> {
    let (s, c) = (P::IORING_SETUP_SQE128.bits(), P::IORING_SETUP_CQE32.bits());
    let sizes: &[u32] = if th { &[1, 2, 3, 4, 8] } else { &[1, 2, 4] };
    let mut v = Vec::new();
    for &e in sizes {
        for f in [0, c, s | c] {
            let cq = 2 * e.next_power_of_two();
            for extra in 1..=(if th { 3 } else { 2 }) {
                for take in 1..=(cq + extra).min(if th { 6 } else { 3 }) {
                    v.push((e, f, extra, take));
                }
            }
        }
    }
    v
}

pub fn flag_sets() -> Vec<u32> {
    let (s, c, q) = (P::IORING_SETUP_SQE128.bits(), P::IORING_SETUP_CQE32.bits(), P::IORING_SETUP_SQPOLL.bits());
    vec![0, s, c, s | c, q, q | s, q | c, q | s | c]
}

pub fn run(args: &Args) -> Report {
    let t0 = now();
    crate::ops::install_watchdog();
    let th = args.thorough;
    let sizes: Vec<u32> = if th { vec![1, 2, 3, 4, 5, 6, 7, 8, 12, 16] } else { vec![1, 2, 3, 4, 6, 8] };
    let mut items = Vec::new();
    let mut planned = 0u64;
    let mut plan_notes = Vec::new();
    // which flag sets set-up accepts here (SQPOLL needs privileges on some systems): probed once, rings dropped at once
    let mut accepted = Vec::new();
    let mut skipped = Vec::new();
    for f in flag_sets() {
        match make(2, f) {
            Ok(rg) => {
                drop(rg);
                accepted.push(f);
            }
            Err(why) => skipped.push(format!("{} ({why})", flags_name(f))),
        }
    }
    for &e in &sizes {
        let k = e.next_power_of_two();
        let l = if th { if k <= 8 { 4 } else { 2 } } else if k <= 4 { 4 } else { 3 };
        let comps = k <= 4 || (th && k <= 8 && e <= 6);
        let seqs = sequences(e, l, comps && e <= 4);
        plan_notes.push(json!({"ring": e, "kernel_ring_entries": k, "max_batches": l, "all_compositions_up_to_3x": comps && e <= 4, "sequences": seqs.len(), "start_slots": k}));
        for &flags in &accepted {
            planned += seqs.len() as u64 * k as u64;
            let seqs = seqs.clone();
            items.push(isolated(format!("rf-e{e}-f{flags}"), move || {
                let mut r = Report::new();
                crate::ops::install_watchdog();
                set_case(&json!({"phase": "ringflags", "op": "real-ring-setup", "ring": e, "flags": flags}).to_string());
                let made = make(e, flags);
                clear_case();
                let mut rg = match made {
                    Ok(x) => x,
                    Err(why) => {
                        // e.g. SQPOLL without the privilege: recorded, not a verdict
                        r.outcome(if is_sqpoll(flags) { "setup:sqpoll-variant-refused(skipped)" } else { "setup:refused(skipped)" });
                        r.note(format!("ringflags: ring {e} flags {} skipped: {why}", flags_name(flags)));
                        r.cap(format!("ringflags: ring {e} flags {} was accepted by the probe but refused in the shard", flags_name(flags)));
                        return r;
                    }
                };
                r.outcome("setup:accepted");
                let mut bad = 0;
                'outer: for start in 0..k {
                    for s in &seqs {
                        if !run_case(&mut rg, e, start, s, &mut r, false) {
                            bad += 1;
                            if bad >= 25 {
                                r.cap(format!("ringflags: ring {e} flags {}: stopped after {bad} violating cases", flags_name(flags)));
                                break 'outer;
                            }
                            // a ring that lost or invented entries is replaced; the remaining cases still run
                            match make(e, flags) {
                                Ok(n) => rg = n,
                                Err(_) => break 'outer,
                            }
                        }
                    }
                }
                r
            }));
        }
    }
    {
        let cases = held_cases(th);
        planned += cases.len() as u64 + 8 + 4;
        items.push(isolated("held-entry", move || {
            let mut r = Report::new();
            crate::ops::install_watchdog();
            for (e, f, x, t) in cases {
                held_case(e, f, x, t, &mut r, false);
            }
            needs_wakeup_truth_table(&mut r);
            for e in [32769u32, 40000, 65536, 100000] {
                clamp_case(e, &mut r);
            }
            r
        }));
    }
    let mut r = run_isolated(items, &args.out, "C17");
    r.rule = "every (ring size, set-up flags, start slot, sequence of batch lengths) is one case, generated once: the ring is brought to the start slot with single entries, then each batch of NOP entries \
              stamped with consecutive user_data is written through get_next_sqe_slot, flushed, entered and reaped on a ring made by setup_io_uring; non-trivial: every case hands at least one entry to the kernel"
        .into();
    r.bound("plans", plan_notes);
    r.bound("flag_sets", flag_sets().iter().map(|f| flags_name(*f)).collect::<Vec<_>>());
    r.bound("cases_planned", planned);
    if skipped.is_empty() {
        r.outcome("flag-sets:all-accepted");
    } else {
        r.outcome("flag-sets:some-refused(skipped)");
        r.note(format!("ringflags: flag sets refused by setup_io_uring here and skipped: {}", skipped.join(", ")));
    }
    if r.evaluations != planned {
        r.cap(format!("{} of {planned} planned cases evaluated", r.evaluations));
    }
    r.note(format!("wall {:.1}s", t0.elapsed().as_secs_f64()));
    r
}

pub fn replay(v: &Value, r: &mut Report) {
    crate::ops::install_watchdog();
    if v["scenario"].as_str() == Some("needs_wakeup-truth-table") {
        needs_wakeup_truth_table(r);
        return;
    }
    if v["scenario"].as_str() == Some("held-entry") {
        held_case(v["ring"].as_u64().unwrap_or(1) as u32, v["flags"].as_u64().unwrap_or(0) as u32, v["parked"].as_u64().unwrap_or(1) as u32, v["taken_with_enter_in_between"].as_u64().unwrap_or(1) as u32, r, true);
        return;
    }
    let e = v["ring"].as_u64().unwrap_or(4) as u32;
    let f = v["flags"].as_u64().unwrap_or(0) as u32;
    let start = v["start_slot"].as_u64().unwrap_or(0) as u32;
    let batches: Vec<u32> = v["batches"].as_array().map(|a| a.iter().map(|x| x.as_u64().unwrap_or(1) as u32).collect()).unwrap_or_else(|| vec![1]);
    println!("replaying real ring: {e} entries, flags {}, start slot {start}, batches {batches:?}", flags_name(f));
    match make(e, f) {
        Ok(mut rg) => {
            run_case(&mut rg, e, start, &batches, r, true);
        }
        Err(why) => println!("set-up refused: {why}"),
    }
}
