//! Phase "drop" of C18: `Drop for IoUring` observed through the syscall seam (sysx, Syscall
//! User Dispatch).  Set-up is logged to learn which mappings and which descriptor the ring
//! owns; the drop is logged and must consist of exactly one munmap per mapping (same address,
//! same length), exactly one close of the ring descriptor, and nothing else.  A second
//! variant places an unrelated mapping into every range the moment Drop has released it
//! (what another thread's mmap could do) and checks that it survives the rest of Drop.

use crate::ops::{flag_candidates, flags_from_bits, flags_name, is_sqpoll, SQ_IDLE_MS};
use common::*;
use rusl::io_uring::{io_uring_enter, setup_io_uring};
use rusl::platform::{IoUringEnterFlags, IoUringSQEFlags, IoUringSubmissionQueueEntry as Sqe, TimeSpec};
use serde_json::{json, Value};
use sysx::{Call, Decision, Plan};

/// (all lines, lines of io_uring mappings, the named (file-backed) mappings as text).  Anonymous
/// memory belongs to the harness's allocator and may legitimately grow between two readings.
fn maps_lines() -> (usize, usize, Vec<String>) {
    let m = std::fs::read_to_string("/proc/self/maps").unwrap_or_default();
    let named: Vec<String> = m
        .lines()
        .filter(|l| l.split_whitespace().nth(5).map(|n| !n.starts_with('[')).unwrap_or(false))
        .map(|l| l.split_whitespace().enumerate().filter(|(i, _)| *i == 0 || *i >= 5).map(|x| x.1).collect::<Vec<_>>().join(" "))
        .collect();
    (m.lines().count(), m.lines().filter(|l| l.contains("io_uring")).count(), named)
}

fn is_mapped(addr: usize) -> bool {
    // msync on an unmapped page fails with ENOMEM
    unsafe { libc::msync(addr as *mut _, 4096, libc::MS_ASYNC) == 0 }
}

fn page_up(n: u64) -> u64 {
    (n + 4095) & !4095
}

/// Logs everything; after every successful munmap puts a fresh anonymous mapping at the
/// released range (never replacing anything: MAP_FIXED_NOREPLACE).
struct Interposer {
    on: bool,
    placed: Vec<(usize, usize)>,
}
impl Plan for Interposer {
    fn decide(&mut self, _: usize, _: i64, _: &[u64; 6]) -> Decision {
        Decision::Pass
    }
    fn after(&mut self, _idx: usize, c: &Call) {
        if self.on && c.nr == libc::SYS_munmap && c.ret == 0 {
            let (addr, len) = (c.args[0] as usize, page_up(c.args[1]) as usize);
            if self.placed.iter().any(|p| p.0 == addr) {
                return;
            }
            let p = unsafe { libc::mmap(addr as *mut _, len, libc::PROT_READ | libc::PROT_WRITE, libc::MAP_PRIVATE | libc::MAP_ANONYMOUS | libc::MAP_FIXED_NOREPLACE, -1, 0) };
            if p as usize == addr {
                unsafe { *(p as *mut u8) = 0x5a };
                self.placed.push((addr, len));
            } else if p != libc::MAP_FAILED {
                unsafe { libc::munmap(p, len) };
            }
        }
    }
}

fn case_json(entries: u32, flags: u32, used: bool, interpose: bool) -> Value {
    json!({"phase": "drop", "op": "drop", "ring": entries, "kernel_ring_entries": entries.next_power_of_two(), "flags": flags, "flags_name": flags_name(flags), "used": used, "interpose": interpose})
}

/// One (ring size, flags, used?, interposed?) case.  Returns the set-up status.
pub fn drop_case(entries: u32, flags: u32, used: bool, interpose: bool, r: &mut Report, verbose: bool) -> String {
    r.eval();
    r.nontrivial_unique();
    let cj = case_json(entries, flags, used, interpose);
    set_case(&cj.to_string());
    let fds0 = sysx::fd_table();
    let maps0 = maps_lines();
    let mut logger = sysx::PassAll;
    let (res, setup_log) = sysx::run(&mut logger, || catch(|| setup_io_uring(entries, flags_from_bits(flags), 0, SQ_IDLE_MS)));
    let mut ring = match res {
        Err(p) => {
            r.violation("C18:setup:panic", format!("setup_io_uring({entries}, {}) panicked: {p}", flags_name(flags)), cj);
            clear_case();
            return "panic".into();
        }
        Ok(Err(e)) => {
            r.outcome("setup:refused");
            // a refused set-up must not leave anything behind either
            let fds1 = sysx::fd_table();
            if fds1 != fds0 {
                r.violation("C18:drop:fd-leaked", format!("setup_io_uring({entries}, {}) failed ({e}) and left descriptors behind: before {fds0:?} after {fds1:?}", flags_name(flags)), cj);
            }
            clear_case();
            return format!("refused: {e}");
        }
        Ok(Ok(u)) => u,
    };
    r.outcome("setup:accepted");
    let ring_fd = ring.fd.value();
    let created: Vec<(u64, u64)> = setup_log.iter().filter(|c| c.nr == libc::SYS_mmap && c.ret > 0).map(|c| (c.ret as u64, c.args[1])).collect();
    let setup_fd = setup_log.iter().find(|c| c.nr == libc::SYS_io_uring_setup).map(|c| c.ret);
    if verbose {
        println!("set-up log:");
        for c in &setup_log {
            println!("  {}({:#x}, {:#x}, {:#x}, {:#x}, {}, {:#x}) = {:#x}", sysx::name(c.nr), c.args[0], c.args[1], c.args[2], c.args[3], c.args[4] as i64, c.args[5], c.ret);
        }
    }
    if setup_fd != Some(ring_fd as i64) {
        r.note(format!("harness: ring fd {ring_fd} vs logged io_uring_setup result {setup_fd:?}"));
    }
    r.outcome(&format!("setup:{}-mappings", created.len()));
    // every mapping at least as long (in pages — a mapping always covers whole pages) as the kernel's own
    // offsets require, and the arrays the kernel and the wrapper index lie inside mappings of the ring
    if let Some(kp) = crate::ops_raw::raw_params(entries, flags, SQ_IDLE_MS) {
        let with_off: Vec<(u64, u64, u64)> = setup_log.iter().filter(|c| c.nr == libc::SYS_mmap && c.ret > 0).map(|c| (c.ret as u64, c.args[1], c.args[5])).collect();
        let single = kp.features & 1 != 0;
        let mut byte_short = false;
        for (addr, len, off) in &with_off {
            let (what_map, need) = match *off {
                0 => ("SQ ring", if single { kp.need_sq_ring().max(kp.need_cq_ring()) } else { kp.need_sq_ring() }),
                0x800_0000 => ("CQ ring", kp.need_cq_ring()),
                0x1000_0000 => ("SQE array", kp.need_sqes()),
                _ => continue,
            };
            if page_up(*len) < page_up(need) {
                r.violation(
                    "C18:setup:ring-mapping-too-short",
                    format!(
                        "requested {entries} entries, flags {}: the kernel allocated sq_entries={} cq_entries={} with sq_off.array={:#x} cq_off.cqes={:#x}; the {what_map} mapping [{addr:#x}+{len:#x}] is shorter than the {need:#x} bytes those offsets require (SQ index array ends at {:#x}, CQE array at {:#x})",
                        flags_name(flags), kp.sq_entries, kp.cq_entries, kp.sq_off.array, kp.cq_off.cqes, kp.need_sq_ring(), kp.need_cq_ring()
                    ),
                    cj.clone(),
                );
            } else if *len < need {
                byte_short = true;
            }
        }
        r.outcome(if byte_short { "setup:a-mapping-length-short-in-bytes-but-same-pages" } else { "setup:mapping-lengths-cover-kernel-offsets" });
        // /proc/self/maps: [sq_array, +4*sq_entries) and the CQE array inside io_uring mappings
        let um = crate::ops_raw::uring_maps();
        let inside = |a: u64, b: u64| {
            // union of the (possibly adjacent) io_uring mappings
            let mut cur = a;
            let mut v: Vec<&(u64, u64, u64)> = um.iter().collect();
            v.sort();
            for m in v {
                if m.0 <= cur && cur < m.1 {
                    cur = m.1;
                }
            }
            cur >= b
        };
        let sq_base = with_off.iter().find(|m| m.2 == 0).map(|m| m.0);
        let cq_base = with_off.iter().find(|m| m.2 == 0x800_0000).map(|m| m.0).or(sq_base);
        if let (Some(sb), Some(cb)) = (sq_base, cq_base) {
            let sq_arr = (sb + kp.sq_off.array as u64, sb + kp.need_sq_ring());
            let cqes = (cb + kp.cq_off.cqes as u64, cb + kp.need_cq_ring());
            for (name, rg) in [("SQ index array", sq_arr), ("CQE array", cqes)] {
                if !inside(rg.0, rg.1) {
                    r.violation(
                        "C18:setup:ring-mapping-too-short",
                        format!("requested {entries} entries, flags {}: the {name} [{:#x}, {:#x}) does not lie inside the ring's mappings {:x?} (/proc/self/maps)", flags_name(flags), rg.0, rg.1, um),
                        cj.clone(),
                    );
                }
            }
        }
    }
    // requested vs. allocated size (raw io_uring_setup, independent of the wrapper): the SQE array mapping must
    // cover every slot the kernel allocated, not just the requested ones
    let kernel = crate::ops_raw::kernel_ring_entries(entries);
    if let Some((ksq, _)) = kernel {
        r.outcome(if ksq == entries { "size:kernel-equals-requested" } else { "size:kernel-rounded-up" });
        let sqe_sz: u64 = if flags & rusl::platform::IoUringParamFlags::IORING_SETUP_SQE128.bits() != 0 { 128 } else { 64 };
        if let Some(m) = created.last() {
            if m.1 != ksq as u64 * sqe_sz {
                r.violation("C18:setup:sqe-mapping-size-differs", format!("requested {entries} entries, kernel allocated {ksq}: the SQE array is mapped with {:#x} bytes instead of {:#x}", m.1, ksq as u64 * sqe_sz), cj.clone());
            }
        }
    }

    if used {
        // one operation through the ring, so that the queues are not in their initial state
        let ts = TimeSpec::new(0, 1000);
        let done = catch(|| {
            let slot = ring.get_next_sqe_slot()?;
            unsafe { slot.write(Sqe::new_timeout(&ts, true, None, 77, IoUringSQEFlags::empty())) };
            ring.flush_submission_queue();
            let mut fl = IoUringEnterFlags::IORING_ENTER_GETEVENTS;
            if is_sqpoll(flags) && ring.needs_wakeup() {
                fl = fl | IoUringEnterFlags::IORING_ENTER_SQ_WAKEUP;
            }
            io_uring_enter(ring.fd, 1, 1, fl).ok()?;
            ring.get_next_cqe().map(|c| (c.0.user_data, c.0.res))
        });
        match done {
            Ok(Some((77, _))) => r.outcome("used:one-timeout-completed"),
            other => {
                r.outcome("used:operation-not-completed");
                if verbose {
                    println!("use of the ring before drop: {other:?}");
                }
            }
        }
    }

    let mut plan = Interposer { on: interpose, placed: Vec::new() };
    let (dres, drop_log) = sysx::run(&mut plan, || catch(move || drop(ring)));
    if let Err(p) = dres {
        r.violation("C18:drop:panic", format!("dropping the ring panicked: {p}"), cj.clone());
    }
    if verbose {
        println!("drop log:");
        for c in &drop_log {
            println!("  {}({:#x}, {:#x}) = {}", sysx::name(c.nr), c.args[0], c.args[1], c.ret);
        }
    }
    let what = format!("ring of {entries} entries, flags {}, {}", flags_name(flags), if used { "after one operation" } else { "unused" });
    let munmaps: Vec<(u64, u64, i64)> = drop_log.iter().filter(|c| c.nr == libc::SYS_munmap).map(|c| (c.args[0], c.args[1], c.ret)).collect();
    let closes: Vec<(i64, i64)> = drop_log.iter().filter(|c| c.nr == libc::SYS_close).map(|c| (c.args[0] as i32 as i64, c.ret)).collect();
    let others: Vec<String> = drop_log.iter().filter(|c| c.nr != libc::SYS_munmap && c.nr != libc::SYS_close).map(|c| sysx::name(c.nr).to_string()).collect();
    let show = |v: &[(u64, u64)]| v.iter().map(|m| format!("[{:#x}+{:#x}]", m.0, m.1)).collect::<Vec<_>>().join(" ");
    let created_s = show(&created);
    let unmapped_s = show(&munmaps.iter().map(|m| (m.0, m.1)).collect::<Vec<_>>());
    let mut twice = false;
    for m in &created {
        let k = munmaps.iter().filter(|u| u.0 == m.0 && u.1 == m.1).count();
        let overlapping = munmaps.iter().filter(|u| u.0 < m.0 + page_up(m.1) && m.0 < u.0 + page_up(u.1)).count();
        if k == 0 && overlapping == 0 {
            r.violation("C18:drop:mapping-leaked", format!("{what}: set-up mapped {created_s}; Drop never unmaps [{:#x}+{:#x}] (munmap calls: {unmapped_s})", m.0, m.1), cj.clone());
        } else if k == 0 {
            r.violation("C18:drop:mapping-leaked", format!("{what}: set-up mapped [{:#x}+{:#x}] but Drop unmaps it with a different extent (munmap calls: {unmapped_s})", m.0, m.1), cj.clone());
        }
        if overlapping >= 2 {
            twice = true;
            r.violation(
                "C18:drop:munmap-twice",
                format!(
                    "{what}: set-up created {} mapping(s) {created_s}; Drop issues {} munmap calls {unmapped_s}: the range [{:#x}+{:#x}] is unmapped {overlapping} times (the later call returns 0 on Linux and releases whatever was mapped there in between)",
                    created.len(),
                    munmaps.len(),
                    m.0,
                    m.1
                ),
                cj.clone(),
            );
        }
    }
    for u in &munmaps {
        if !created.iter().any(|m| u.0 < m.0 + page_up(m.1) && m.0 < u.0 + page_up(u.1)) {
            r.violation("C18:drop:unmaps-foreign-range", format!("{what}: Drop unmaps [{:#x}+{:#x}], which set-up never mapped ({created_s})", u.0, u.1), cj.clone());
        }
    }
    r.outcome(if twice { "drop:a-range-unmapped-twice" } else { "drop:each-mapping-unmapped-once" });
    let own = closes.iter().filter(|c| c.0 == ring_fd as i64).count();
    if own == 0 {
        r.violation("C18:drop:fd-leaked", format!("{what}: Drop never closes the ring descriptor {ring_fd} (close calls: {closes:?})"), cj.clone());
    } else if own > 1 {
        r.violation("C18:drop:close-twice", format!("{what}: Drop closes the ring descriptor {ring_fd} {own} times"), cj.clone());
    }
    for c in closes.iter().filter(|c| c.0 != ring_fd as i64) {
        r.violation("C18:drop:closes-foreign-fd", format!("{what}: Drop closes descriptor {} which is not the ring's ({ring_fd})", c.0), cj.clone());
    }
    if !others.is_empty() {
        r.violation("C18:drop:unexpected-syscall", format!("{what}: Drop also issues {others:?}"), cj.clone());
    }
    // what an unrelated mapping experiences
    if interpose {
        let destroyed: Vec<&(usize, usize)> = plan.placed.iter().filter(|p| !is_mapped(p.0)).collect();
        if destroyed.is_empty() {
            r.outcome("interposed:foreign-mappings-survive");
        } else {
            r.outcome("interposed:foreign-mapping-destroyed");
            r.violation(
                "C18:drop:munmap-twice",
                format!(
                    "{what}: an unrelated anonymous mapping placed at [{:#x}+{:#x}] right after Drop's first munmap of that range (as a concurrent mmap could) was unmapped by Drop's second munmap of the same range",
                    destroyed[0].0, destroyed[0].1
                ),
                cj.clone(),
            );
        }
        for p in &plan.placed {
            if is_mapped(p.0) {
                unsafe { libc::munmap(p.0 as *mut _, p.1) };
            }
        }
    }
    // cross-check with /proc
    let fds1 = sysx::fd_table();
    if fds1 != fds0 {
        let key = if fds1.len() > fds0.len() { "C18:drop:fd-leaked" } else { "C18:drop:closes-foreign-fd" };
        r.violation(key, format!("{what}: /proc/self/fd before set-up {fds0:?}, after drop {fds1:?}"), cj.clone());
    }
    let maps1 = maps_lines();
    if maps1.1 != maps0.1 {
        r.violation("C18:drop:mapping-leaked", format!("{what}: /proc/self/maps shows {} io_uring mappings after drop ({} before set-up)", maps1.1, maps0.1), cj.clone());
    } else if maps1.2 != maps0.2 {
        let gone: Vec<&String> = maps0.2.iter().filter(|l| !maps1.2.contains(l)).collect();
        let new: Vec<&String> = maps1.2.iter().filter(|l| !maps0.2.contains(l)).collect();
        let key = if !new.is_empty() { "C18:drop:mapping-leaked" } else { "C18:drop:unmaps-foreign-range" };
        r.violation(key, format!("{what}: file-backed mappings in /proc/self/maps differ after drop: gone {gone:?}, new {new:?}"), cj.clone());
    }
    r.outcome(if maps1.0 == maps0.0 { "maps:same-line-count" } else { "maps:anonymous-lines-changed(harness allocator)" });
    if r.samples.len() < 2 {
        r.sample(json!({"case": cj, "requested_entries": entries, "kernel_entries": kernel, "setup_mappings": created_s, "drop_munmaps": unmapped_s, "drop_closes": closes, "ring_fd": ring_fd}));
    }
    clear_case();
    "accepted".into()
}

pub const SIZES: &[u32] = &[1, 2, 3, 4, 5, 6, 7, 8, 64, 512, 513, 1000, 1024, 2048, 4096, 32768];

pub fn run(args: &Args) -> Report {
    let t0 = now();
    let sizes: Vec<u32> = if args.thorough { vec![1, 2, 3, 4, 5, 6, 7, 8, 12, 16, 64, 100, 256, 512, 513, 1000, 1024, 2048, 4096, 8192, 16384, 32768] } else { SIZES.to_vec() };
    let mut items = Vec::new();
    // one forked shard per (flag set, size): a fault inside set-up or drop costs that one size only
    for flags in flag_candidates() {
        for &e in &sizes {
            items.push(isolated(format!("drop-{}-{e}", flags_name(flags)), move || {
                let mut r = Report::new();
                // warm the allocator and /proc readers so that the map comparison sees a steady state
                let _ = (sysx::fd_table(), maps_lines());
                let mut status = String::new();
                for used in [false, true] {
                    for interpose in [false, true] {
                        let unusable = flags & (rusl::platform::IoUringParamFlags::IORING_SETUP_IOPOLL.bits() | rusl::platform::IoUringParamFlags::IORING_SETUP_R_DISABLED.bits()) != 0;
                        if used && unusable {
                            continue;
                        }
                        status = drop_case(e, flags, used, interpose, &mut r, false);
                    }
                }
                if e == 1 {
                    r.note(format!("set-up flags {}: {status}", flags_name(flags)));
                }
                r
            }));
        }
    }
    let mut r = run_isolated(items, &args.out, "C18");
    r.rule = "every (ring size, flag set the wrapper's type offers singly or as a kernel-required pair, unused / after one completed operation, plain / with an unrelated mapping interposed after each munmap) \
              is one case, generated once; set-up and drop each run under the syscall seam in logging mode. A case is non-trivial when it reaches setup_io_uring (all do); refused flag sets are recorded as outcome."
        .into();
    r.bound("ring_sizes", sizes);
    r.bound("flag_sets", flag_candidates().iter().map(|f| flags_name(*f)).collect::<Vec<_>>());
    r.note(format!("wall {:.1}s", t0.elapsed().as_secs_f64()));
    r
}

/// Not part of C18 (observation only, reachable through --replay {"phase":"drop","fail_mmap":k}):
/// what set-up leaves behind when its k-th mmap fails with ENOMEM.
fn setup_failure_probe(k: usize) {
    let fds0 = sysx::fd_table();
    let mut plan = sysx::FailKth { k, errno: libc::ENOMEM as i64, seen: 0, hit: false, pred: |nr: i64, _: &[u64; 6]| nr == libc::SYS_mmap, execute_anyway: false };
    let (res, log) = sysx::run(&mut plan, || setup_io_uring(4, flags_from_bits(0), 0, 0).map(|_| ()));
    for c in &log {
        println!("  {}({:#x}, {:#x}, ..) = {}", sysx::name(c.nr), c.args[0], c.args[1], c.ret);
    }
    let fds1 = sysx::fd_table();
    let (_, uring_maps, _) = maps_lines();
    println!("setup_io_uring with mmap #{k} failing: {:?}; descriptors before {fds0:?} after {fds1:?}; io_uring mappings left: {uring_maps}", res.map_err(|e| format!("{e}")));
}

pub fn replay(v: &Value, r: &mut Report) {
    if let Some(k) = v.get("fail_mmap").and_then(|k| k.as_u64()) {
        setup_failure_probe(k as usize);
        return;
    }
    let e = v["ring"].as_u64().unwrap_or(4) as u32;
    let f = v["flags"].as_u64().unwrap_or(0) as u32;
    let used = v["used"].as_bool().unwrap_or(false);
    let ip = v["interpose"].as_bool().unwrap_or(false);
    println!("replaying drop: ring={e} flags={} used={used} interpose={ip}", flags_name(f));
    let _ = (sysx::fd_table(), maps_lines());
    let st = drop_case(e, f, used, ip, r, true);
    println!("set-up: {st}");
}
