//! Part of phase "ops":
//!  * the literal table: every constant the wrapper exports for io_uring (SQE flags, set-up flags,
//!    enter flags, feature flags, poll flags, opcodes) against the kernel's uapi value
//!    (include/uapi/linux/io_uring.h; libc does not carry them, so the table is written out here);
//!  * optional directory descriptors: for every SQE constructor that takes `Option<Fd>` directory
//!    descriptors, every combination of {None, Some(dirfd)} per parameter x {relative, absolute} per
//!    path, executed with the process's working directory set to a directory that is NOT the one
//!    behind the descriptor (and holds different content), against the direct *at() call.

use crate::ops::{submit_and_reap, ud_for, RingState, Shard};
use crate::ops_sym::{cstr, errname, fd_of, mode, rk, ustr};
use common::*;
use rusl::platform::{
    IoUringEnterFlags as E, IoUringFeatFlags as FT, IoUringOp as O, IoUringParamFlags as P, IoUringSQEFlags as S, IoUringSubmissionQueueEntry as Sqe, Mode, OpenFlags,
    PollAddMultiFlags as PM, RenameFlags, StatxFlags, StatxMask,
};
use serde_json::{json, Value};

// ---------------------------------------------------------------------------
// constants

/// (group, name, value the wrapper exports, uapi value)
pub fn constant_table() -> Vec<(&'static str, &'static str, u64, u64)> {
    let mut t: Vec<(&'static str, &'static str, u64, u64)> = Vec::new();
    macro_rules! sqe { ($($n:ident = $b:expr),*) => { $( t.push(("sqe-flags", stringify!($n), S::$n.bits() as u64, 1u64 << $b)); )* } }
    sqe!(IOSQE_FIXED_FILE = 0, IOSQE_IO_DRAIN = 1, IOSQE_IO_LINK = 2, IOSQE_IO_HARDLINK = 3, IOSQE_ASYNC = 4, IOSQE_BUFFER_SELECT = 5, IOSQE_CQE_SKIP_SUCCESS = 6);
    macro_rules! setup { ($($n:ident = $b:expr),*) => { $( t.push(("setup-flags", stringify!($n), P::$n.bits() as u64, 1u64 << $b)); )* } }
    setup!(
        IORING_SETUP_IOPOLL = 0, IORING_SETUP_SQPOLL = 1, IORING_SETUP_SQ_AFF = 2, IORING_SETUP_CQSIZE = 3, IORING_SETUP_CLAMP = 4, IORING_SETUP_ATTACH_WQ = 5,
        IORING_SETUP_R_DISABLED = 6, IORING_SETUP_SUBMIT_ALL = 7, IORING_SETUP_COOP_TASKRUN = 8, IORING_SETUP_TASKRUN_FLAG = 9, IORING_SETUP_SQE128 = 10,
        IORING_SETUP_CQE32 = 11, IORING_SETUP_SINGLE_ISSUER = 12, IORING_SETUP_DEFER_TASKRUN = 13
    );
    macro_rules! enter { ($($n:ident = $b:expr),*) => { $( t.push(("enter-flags", stringify!($n), E::$n.bits() as u64, 1u64 << $b)); )* } }
    enter!(IORING_ENTER_GETEVENTS = 0, IORING_ENTER_SQ_WAKEUP = 1, IORING_ENTER_SQ_WAIT = 2, IORING_ENTER_EXT_ARG = 3, IORING_ENTER_REGISTERED_RING = 4);
    macro_rules! feat { ($($n:ident = $b:expr),*) => { $( t.push(("feature-flags", stringify!($n), FT::$n.bits() as u64, 1u64 << $b)); )* } }
    feat!(
        IORING_FEAT_SINGLE_MMAP = 0, IORING_FEAT_NODROP = 1, IORING_FEAT_SUBMIT_STABLE = 2, IORING_FEAT_RW_CUR_POS = 3, IORING_FEAT_CUR_PERSONALITY = 4,
        IORING_FEAT_FAST_POLL = 5, IORING_FEAT_POLL_32BITS = 6, IORING_FEAT_SQPOLL_NONFIXED = 7, IORING_FEAT_EXT_ARG = 8, IORING_FEAT_NATIVE_WORKERS = 9,
        IORING_FEAT_RSRC_TAGS = 10, IORING_FEAT_CQE_SKIP = 11, IORING_FEAT_LINKED_FILE = 12
    );
    macro_rules! poll { ($($n:ident = $b:expr),*) => { $( t.push(("poll-flags", stringify!($n), PM::$n.bits() as u64, 1u64 << $b)); )* } }
    poll!(ADD_MULTI = 0, UPDATE_EVENTS = 1, UPDATE_USER_DATA = 2);
    macro_rules! op { ($($n:ident = $v:expr),*) => { $( t.push(("opcode", stringify!($n), O::$n as u8 as u64, $v)); )* } }
    op!(
        Nop = 0, Readv = 1, Writev = 2, Fsync = 3, ReadFixed = 4, WriteFixed = 5, PollAdd = 6, PollRemove = 7, SyncFileRange = 8, Sendmsg = 9, Recvmsg = 10,
        Timeout = 11, TimeoutRemove = 12, Accept = 13, AsyncCancel = 14, LinkTimeout = 15, Connect = 16, Fallocate = 17, Openat = 18, Close = 19, FilesUpdate = 20,
        Statx = 21, Read = 22, Write = 23, Fadvise = 24, Madvise = 25, Send = 26, Recv = 27, Openat2 = 28, EpollCtl = 29, Splice = 30, ProvideBuffers = 31,
        RemoveBuffers = 32, Tee = 33, Shutdown = 34, Renameat = 35, Unlinkat = 36, Mkdirat = 37, Symlinkat = 38, Linkat = 39, MsgRing = 40, Fsetxattr = 41,
        Setxattr = 42, Fgetxattr = 43, Getxattr = 44, Socket = 45, UringCmd = 46, SendZc = 47, SendmsgZc = 48
    );
    t
}

pub fn check_constants(r: &mut Report, verbose: bool) {
    let t = constant_table();
    for (group, name, got, want) in &t {
        r.eval();
        r.nontrivial_unique();
        r.outcome(&format!("const:{group}"));
        if verbose {
            println!("{group:14} {name:32} wrapper {got:#x} uapi {want:#x}");
        }
        if got != want {
            r.violation(
                &format!("C18:const:{group}:value-differs"),
                format!("{name}: the wrapper exports {got:#x}, the kernel's uapi value is {want:#x}"),
                json!({"phase": "ops", "scenario": "constants", "op": "const", "group": group, "name": name}),
            );
        }
    }
    // within a group of flags no two names may share a bit
    for g in ["sqe-flags", "setup-flags", "enter-flags", "feature-flags", "poll-flags"] {
        let v: Vec<_> = t.iter().filter(|x| x.0 == g).collect();
        for i in 0..v.len() {
            for j in i + 1..v.len() {
                if v[i].2 & v[j].2 != 0 {
                    r.violation(
                        &format!("C18:const:{g}:value-differs"),
                        format!("{} ({:#x}) and {} ({:#x}) share a bit", v[i].1, v[i].2, v[j].1, v[j].2),
                        json!({"phase": "ops", "scenario": "constants", "op": "const", "group": g, "name": v[j].1}),
                    );
                }
            }
        }
    }
}

// ---------------------------------------------------------------------------
// optional directory descriptors

#[derive(Clone, Debug)]
pub struct DirfdCase {
    pub op: &'static str,
    /// per directory parameter: Some(dirfd) (true) or None
    pub some: [bool; 2],
    /// per path: absolute (true) or relative
    pub abs: [bool; 2],
}

const OPS1: &[&str] = &["openat", "statx", "mkdirat", "unlinkat", "unlinkat-rmdir"];

pub fn dirfd_cases() -> Vec<DirfdCase> {
    let mut v = Vec::new();
    for &op in OPS1 {
        for s in [false, true] {
            for a in [false, true] {
                v.push(DirfdCase { op, some: [s, false], abs: [a, false] });
            }
        }
    }
    for s0 in [false, true] {
        for s1 in [false, true] {
            for a0 in [false, true] {
                for a1 in [false, true] {
                    v.push(DirfdCase { op: "renameat", some: [s0, s1], abs: [a0, a1] });
                }
            }
        }
    }
    v
}

struct W3 {
    root: String,
    dd: i32,
}

/// three directories with the same names and distinguishable content: cw (working directory while the
/// operation runs), dd (behind the directory descriptor), ab (addressed by absolute paths)
fn make_world(root: &str) -> W3 {
    std::fs::create_dir_all(root).unwrap();
    for (d, mark) in [("cw", "c"), ("dd", "dd"), ("ab", "aaa")] {
        let p = format!("{root}/{d}");
        std::fs::create_dir(&p).unwrap();
        std::fs::write(format!("{p}/f"), format!("file-in-{d}-{mark}")).unwrap();
        std::fs::write(format!("{p}/victim"), format!("victim-in-{d}")).unwrap();
        std::fs::write(format!("{p}/old"), format!("old-in-{d}")).unwrap();
        std::fs::create_dir(format!("{p}/rmd")).unwrap();
    }
    let c = cstr(&format!("{root}/dd"));
    let dd = unsafe { libc::open(c.as_ptr(), libc::O_RDONLY | libc::O_DIRECTORY | libc::O_CLOEXEC) };
    assert!(dd >= 0);
    W3 { root: root.to_string(), dd }
}

fn tree(root: &str) -> Vec<String> {
    let mut out = Vec::new();
    fn walk(dir: &str, rel: &str, out: &mut Vec<String>) {
        if let Ok(rd) = std::fs::read_dir(dir) {
            for e in rd.flatten() {
                let n = e.file_name().to_string_lossy().to_string();
                let p = format!("{dir}/{n}");
                let Ok(md) = std::fs::symlink_metadata(&p) else { continue };
                if md.is_dir() {
                    out.push(format!("{rel}{n}/"));
                    walk(&p, &format!("{rel}{n}/"), out);
                } else {
                    out.push(format!("{rel}{n} = {}", String::from_utf8_lossy(&std::fs::read(&p).unwrap_or_default())));
                }
            }
        }
    }
    walk(root, "", &mut out);
    out.sort();
    out
}

fn case_json(c: &DirfdCase) -> Value {
    json!({"phase": "ops", "scenario": "dirfd", "op": c.op.split('-').next().unwrap(), "variant": c.op,
           "dir_fd": c.some.iter().map(|s| if *s { "Some(dirfd)" } else { "None" }).collect::<Vec<_>>(),
           "path": c.abs.iter().map(|a| if *a { "absolute" } else { "relative" }).collect::<Vec<_>>()})
}

fn paths(c: &DirfdCase, w: &W3) -> (String, String) {
    let (n0, n1) = match c.op {
        "openat" | "statx" => ("f", ""),
        "mkdirat" => ("newdir", ""),
        "unlinkat" => ("victim", ""),
        "unlinkat-rmdir" => ("rmd", ""),
        _ => ("old", "renamed"),
    };
    let mk = |abs: bool, n: &str| if abs { format!("{}/ab/{n}", w.root) } else { n.to_string() };
    (mk(c.abs[0], n0), mk(c.abs[1], n1))
}

fn read_all(fd: i32) -> String {
    let mut b = [0u8; 64];
    let n = unsafe { libc::read(fd, b.as_mut_ptr() as *mut _, 64) };
    String::from_utf8_lossy(&b[..n.max(0) as usize]).to_string()
}

pub fn dirfd_case(sh: &mut Shard, rs: &mut RingState, c: &DirfdCase, r: &mut Report, verbose: bool) {
    r.eval();
    r.nontrivial_unique();
    let cj = case_json(c);
    set_case(&cj.to_string());
    unsafe { libc::alarm(30) };
    // the working directory is changed around each operation and restored (reports are written relative to it)
    let orig_cwd = unsafe { libc::open(b".\0".as_ptr().cast(), libc::O_RDONLY | libc::O_DIRECTORY | libc::O_CLOEXEC) };
    assert!(orig_cwd >= 0);
    let opn = c.op.split('-').next().unwrap();
    let base = format!("{}/dirfd-{}-{}{}{}{}", sh.base, c.op, c.some[0] as u8, c.some[1] as u8, c.abs[0] as u8, c.abs[1] as u8);
    let wu = make_world(&format!("{base}/u"));
    let wr = make_world(&format!("{base}/r"));
    r.outcome(&format!("dirfd:{}", if c.op == "renameat" { "two-directory-parameters" } else { "one-directory-parameter" }));

    // --- through the wrapper, working directory = the wrapper world's cw
    let (p0, p1) = paths(c, &wu);
    let (u0, u1) = (ustr(&p0), ustr(&p1));
    let mut stx = Box::new([0u64; 32]);
    let d = |some: bool, w: &W3| if some { Some(fd_of(w.dd)) } else { None };
    let ud = ud_for(0x7d00_0000 + r.evaluations);
    let e = S::empty();
    let built = catch(|| unsafe {
        match c.op {
            "openat" => Sqe::new_openat(d(c.some[0], &wu), &u0, OpenFlags::O_RDONLY | OpenFlags::O_CLOEXEC, Mode::empty(), ud, e),
            "statx" => Sqe::new_statx(d(c.some[0], &wu), &u0, StatxFlags::empty(), StatxMask::STATX_BASIC_STATS, stx.as_mut_ptr().cast(), ud, e),
            "mkdirat" => Sqe::new_mkdirat(d(c.some[0], &wu), &u0, mode(0o750), ud, e),
            "unlinkat" => Sqe::new_unlink_at(d(c.some[0], &wu), &u0, false, ud, e),
            "unlinkat-rmdir" => Sqe::new_unlink_at(d(c.some[0], &wu), &u0, true, ud, e),
            _ => Sqe::new_rename_at(d(c.some[0], &wu), d(c.some[1], &wu), &u0, &u1, RenameFlags::empty(), ud, e),
        }
    });
    let cw_u = cstr(&format!("{}/cw", wu.root));
    let mut res_u: Option<i64> = None;
    match built {
        Err(p) => r.violation(&format!("C18:{opn}:panic"), format!("constructing {} {cj} panicked: {p}", c.op), cj.clone()),
        Ok(sqe) => {
            assert_eq!(0, unsafe { libc::chdir(cw_u.as_ptr()) });
            let got = catch(|| submit_and_reap(rs, vec![sqe]));
            unsafe { libc::fchdir(orig_cwd) };
            match got {
                Ok(g) => match g.cqes.iter().find(|x| x.0 == ud) {
                    Some(x) => res_u = Some(x.1 as i64),
                    None => r.violation(&format!("C18:{opn}:missing-completion"), format!("{} {cj}: no completion carrying the stamped user_data; got {:?} ({:?})", c.op, g.cqes, g.problem), cj.clone()),
                },
                Err(p) => r.violation("C18:submit:panic", format!("{p}"), cj.clone()),
            }
        }
    }
    let obs_u = match (c.op, res_u) {
        ("openat", Some(fd)) if fd >= 0 => {
            let s = read_all(fd as i32);
            unsafe { libc::close(fd as i32) };
            s
        }
        ("statx", Some(0)) => format!("size {}", unsafe { (*(stx.as_ptr() as *const libc::statx)).stx_size }),
        _ => String::new(),
    };

    // --- the direct call, working directory = the reference world's cw
    let (q0, q1) = paths(c, &wr);
    let (c0, c1) = (cstr(&q0), cstr(&q1));
    let dr = |some: bool| if some { wr.dd } else { libc::AT_FDCWD };
    let cw_r = cstr(&format!("{}/cw", wr.root));
    assert_eq!(0, unsafe { libc::chdir(cw_r.as_ptr()) });
    let mut stx_r: libc::statx = unsafe { std::mem::zeroed() };
    let res_r = unsafe {
        match c.op {
            "openat" => rk(libc::openat(dr(c.some[0]), c0.as_ptr(), libc::O_RDONLY | libc::O_CLOEXEC, 0) as i64),
            "statx" => rk(libc::statx(dr(c.some[0]), c0.as_ptr(), 0, libc::STATX_BASIC_STATS, &mut stx_r) as i64),
            "mkdirat" => rk(libc::mkdirat(dr(c.some[0]), c0.as_ptr(), 0o750) as i64),
            "unlinkat" => rk(libc::unlinkat(dr(c.some[0]), c0.as_ptr(), 0) as i64),
            "unlinkat-rmdir" => rk(libc::unlinkat(dr(c.some[0]), c0.as_ptr(), libc::AT_REMOVEDIR) as i64),
            _ => rk(libc::renameat2(dr(c.some[0]), c0.as_ptr(), dr(c.some[1]), c1.as_ptr(), 0) as i64),
        }
    };
    unsafe { libc::fchdir(orig_cwd) };
    let obs_r = match c.op {
        "openat" if res_r >= 0 => {
            let s = read_all(res_r as i32);
            unsafe { libc::close(res_r as i32) };
            s
        }
        "statx" if res_r == 0 => format!("size {}", stx_r.stx_size),
        _ => String::new(),
    };

    let show = |x: i64| if x < 0 { errname(x) } else { x.to_string() };
    if verbose {
        println!("{cj}: wrapper res {:?} [{obs_u}], direct res {} [{obs_r}]", res_u.map(show), show(res_r));
    }
    if let Some(g) = res_u {
        r.outcome(if g < 0 { "dirfd:error" } else { "dirfd:ok" });
        let equal = if c.op == "openat" && res_r >= 0 { g >= 0 } else { g == res_r };
        if !equal {
            r.violation(
                &format!("C18:{opn}:result-differs"),
                format!("{} with dir_fd {:?}, path {:?}, working directory distinct from the descriptor's directory: completion res {} — the direct call gives {}", c.op, cj["dir_fd"], cj["path"], show(g), show(res_r)),
                cj.clone(),
            );
        } else if obs_u != obs_r {
            r.violation(&format!("C18:{opn}:side-effect-differs"), format!("{} {:?} {:?}: the wrapper's operation saw [{obs_u}], the direct call [{obs_r}]", c.op, cj["dir_fd"], cj["path"]), cj.clone());
        }
        let (tu, tr) = (tree(&wu.root), tree(&wr.root));
        if equal && tu != tr {
            let du: Vec<&String> = tu.iter().filter(|l| !tr.contains(l)).collect();
            let drf: Vec<&String> = tr.iter().filter(|l| !tu.contains(l)).collect();
            r.violation(&format!("C18:{opn}:side-effect-differs"), format!("{} {:?} {:?}: twin trees differ: only after the wrapper's operation {du:?}, only after the direct call {drf:?}", c.op, cj["dir_fd"], cj["path"]), cj.clone());
        }
    }
    unsafe {
        libc::close(wu.dd);
        libc::close(wr.dd);
        libc::close(orig_cwd);
        libc::alarm(0);
    }
    let _ = std::fs::remove_dir_all(&base);
    clear_case();
}

pub fn replay(v: &Value, r: &mut Report) {
    if v["scenario"].as_str() == Some("constants") {
        check_constants(r, true);
        return;
    }
    crate::ops::install_watchdog();
    let variant = v["variant"].as_str().unwrap_or("renameat").to_string();
    let b = |k: &str, i: usize, yes: &str| v[k][i].as_str() == Some(yes);
    let Some(c) = dirfd_cases().into_iter().find(|c| c.op == variant && (0..2).all(|i| c.some[i] == b("dir_fd", i, "Some(dirfd)") && c.abs[i] == b("path", i, "absolute"))) else {
        println!("no such dirfd case");
        return;
    };
    let mut sh = Shard::new("replay-dirfd");
    let mut rs = sh.make_ring(4, 0).expect("ring");
    dirfd_case(&mut sh, &mut rs, &c, r, true);
    drop(rs);
    sh.finish();
}
