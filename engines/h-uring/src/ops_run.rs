// (included into ops.rs) — calibration, set-up flag probe, enumeration, replay

pub fn calibrate(notes: &mut Vec<String>) -> Calib {
    let Some(pr) = ops_raw::probe_link_breaks() else {
        notes.push("link calibration: raw ring not available; linked batches use the documented rule (any error or short read/write severs the chain)".into());
        return Calib::documented();
    };
    let mut c = Calib { error_severs: [true; 64], short_read_severs: true };
    let mut lenient = Vec::new();
    for p in &pr {
        let severed = p.second_res == -libc::ECANCELED;
        if p.what == "readv short" {
            c.short_read_severs = severed;
            if p.first_res < 0 {
                notes.push(format!("link calibration: short-read probe failed with {}", p.first_res));
            }
            continue;
        }
        if p.first_res >= 0 {
            notes.push(format!("link calibration: probe '{}' did not fail (res {}); documented rule kept for that opcode", p.what, p.first_res));
            continue;
        }
        c.error_severs[p.opcode as usize] = severed;
        if !severed {
            lenient.push(format!("{} (res {})", p.what, p.first_res));
        }
    }
    notes.push(format!(
        "link calibration on this kernel (raw ring, independent of the wrapper): {} probes; a short read severs a chain: {}; failing operations that do NOT sever the chain: {}",
        pr.len(),
        c.short_read_severs,
        if lenient.is_empty() { "none".to_string() } else { lenient.join(", ") }
    ));
    c
}

fn not_applicable(bits: u32) -> Option<&'static str> {
    if bits & IoUringParamFlags::IORING_SETUP_IOPOLL.bits() != 0 {
        return Some("IOPOLL rings only take O_DIRECT reads/writes on pollable files; none of the alphabet's operations is admissible");
    }
    if bits & IoUringParamFlags::IORING_SETUP_R_DISABLED.bits() != 0 {
        return Some("an R_DISABLED ring refuses submissions until IORING_REGISTER_ENABLE_RINGS, which the wrapper does not offer");
    }
    None
}

fn sym(name: &str) -> usize {
    sym_index(name).unwrap()
}

/// Which flag sets `setup_io_uring` accepts here and completes a small batch under.  Runs in forked children.
pub fn probe_flags(out: &str) -> Vec<(u32, String)> {
    let mut items = Vec::new();
    for bits in flag_candidates() {
        items.push(isolated(format!("probe-{}", flags_name(bits)), move || {
            let mut rep = Report::new();
            install_watchdog();
            let sh = Shard::new(&format!("probe{bits}"));
            let status = match sh.make_ring(4, bits) {
                Err(e) => format!("refused: {e}"),
                Ok(rs) => {
                    if let Some(why) = not_applicable(bits) {
                        format!("accepted-unusable: {why}")
                    } else {
                        // accepted and not excluded by definition: it is exercised, whatever happens under it is
                        // the wrapper's business (a probe that "fails" must surface as violations, never as a skip)
                        drop(rs);
                        "usable".to_string()
                    }
                }
            };
            sh.finish();
            rep.note(json!({"flags": bits, "status": status}).to_string());
            rep
        }));
    }
    let cands = flag_candidates();
    let rep = run_isolated(items, &format!("{out}.probe"), "C18probe");
    let mut res = Vec::new();
    for n in &rep.notes {
        if let Ok(v) = serde_json::from_str::<Value>(n) {
            if let (Some(b), Some(s)) = (v["flags"].as_u64(), v["status"].as_str()) {
                res.push((b as u32, s.to_string()));
            }
        }
    }
    for b in cands {
        if !res.iter().any(|x| x.0 == b) {
            res.push((b, "accepted-unusable: the probe child died or hung".into()));
        }
    }
    res.sort();
    res
}

#[derive(Clone, Copy)]
struct Plan {
    entries: u32,
    kernel_entries: u32,
    flags: u32,
    maxlen: usize,
    chain_upto: usize,
    warm: u64,
    /// large ring: single cheap entries only, chained for K+2 rounds so that every slot up to the last is used
    large: bool,
}

const LARGE_SYMS: &[&str] = &["readv:full", "statx:existing", "timeout:abs-past"];

/// Rounds of a chained batch: 3*ring, and at least enough for 2*K+2 entries (K = SQ slots the kernel
/// allocated) to pass through the ring within this one case, so that every slot index 0..K — also those
/// beyond a non-power-of-two requested size — carries a real, checked submission.
fn rounds_for(p: &Plan, len: usize) -> u32 {
    if p.large {
        return p.kernel_entries + 2;
    }
    if len > p.chain_upto {
        return 1;
    }
    let k = p.kernel_entries as usize;
    let cover = ((2 * k + 2) + len - 1) / len;
    if p.entries <= 8 {
        (3 * p.entries).max(cover as u32)
    } else {
        cover as u32
    }
}

/// temp dirs of shards that died (crash attribution exits without unwinding): remove those whose process is gone
fn sweep_stale_dirs() {
    let root = tmp_root();
    let Ok(rd) = std::fs::read_dir(&root) else { return };
    for e in rd.flatten() {
        let name = e.file_name().to_string_lossy().to_string();
        if let Some(rest) = name.strip_prefix("hur-") {
            if let Some(pid) = rest.split('-').next().and_then(|p| p.parse::<i32>().ok()) {
                if !std::path::Path::new(&format!("/proc/{pid}")).exists() {
                    let _ = std::fs::remove_dir_all(e.path());
                }
            }
        }
    }
}

pub fn run(args: &Args) -> Report {
    let t0 = now();
    sweep_stale_dirs();
    let mut notes = Vec::new();
    let cal = calibrate(&mut notes);
    let probed = probe_flags(&args.out);
    // A flag set is left out only when the probe batch fails under it AND passes on the default ring: a probe
    // that fails everywhere is the wrapper's (or the harness's) problem and must surface as violations, not as skips.
    let default_ok = probed.iter().any(|x| x.0 == 0 && x.1 == "usable");
    let probe_failed = |s: &str| s.starts_with("accepted-unusable: probe batch failed");
    let usable: Vec<u32> = probed.iter().filter(|x| x.1 == "usable" || x.0 == 0 && !x.1.starts_with("refused") || (!default_ok && probe_failed(&x.1))).map(|x| x.0).collect();
    if !default_ok {
        notes.push("the probe batch fails on the default ring: no flag set is skipped on account of the probe".into());
    }
    for (b, s) in &probed {
        if !usable.contains(b) {
            notes.push(format!("set-up flags {} skipped in phase ops — {s}", flags_name(*b)));
        }
    }
    notes.push(format!("set-up flags exercised: {}", usable.iter().map(|b| flags_name(*b)).collect::<Vec<_>>().join(", ")));

    let th = args.thorough;
    let mut plans: Vec<Plan> = Vec::new();
    let sizes: &[u32] = if th { &[1, 2, 4, 8] } else { &[1, 2, 4] };
    // requested sizes that are not powers of two: the kernel rounds the queue up, the wrapper must serve all of it
    let odd_sizes: &[u32] = if th { &[3, 5, 6, 7, 12, 100] } else { &[3, 5, 6, 7] };
    let kern = |e: u32| ops_raw::kernel_ring_entries(e).map(|x| x.0).unwrap_or_else(|| e.next_power_of_two());
    if usable.contains(&0) {
        for &e in odd_sizes {
            plans.push(Plan { entries: e, kernel_entries: kern(e), flags: 0, maxlen: if th { 3 } else { 2 }, chain_upto: 2, warm: if th { 100 } else { 0 }, large: false });
        }
    }
    if usable.contains(&0) {
        for &e in sizes {
            // thorough: length 4 on the ring of 4 entries (the ring is completely filled); the ring of 8 stays at length 3
            let l = if th && e == 4 { 4 } else { 3 };
            plans.push(Plan { entries: e, kernel_entries: kern(e), flags: 0, maxlen: (e as usize).min(l), chain_upto: if th { 3 } else { 2 }, warm: if th { 100 } else { 0 }, large: false });
        }
    }
    for &b in usable.iter().filter(|&&b| b != 0) {
        plans.push(Plan { entries: 4, kernel_entries: kern(4), flags: b, maxlen: if th { 3 } else { 2 }, chain_upto: if th { 2 } else { 1 }, warm: if th { 100 } else { 0 }, large: false });
    }

    // large rings: the shared SQ/CQ mapping's layout only shows at >= 1024 kernel entries
    {
        let cqe32 = IoUringParamFlags::IORING_SETUP_CQE32.bits();
        let sqe128 = IoUringParamFlags::IORING_SETUP_SQE128.bits();
        let mut big: Vec<(u32, u32)> = vec![(1024, 0), (1000, 0), (1024, cqe32), (1024, sqe128)];
        if th {
            big.extend([(4096, 0), (4096, cqe32), (2048, sqe128), (513, 0)]);
        }
        for (e, f) in big {
            if usable.contains(&f) {
                plans.push(Plan { entries: e, kernel_entries: kern(e), flags: f, maxlen: 1, chain_upto: 1, warm: 0, large: true });
            }
        }
    }
    let ns = SYMS.len();
    let mut items = Vec::new();
    let mut n_cases_planned = 0u64;
    for p in plans.clone() {
        for linked in [false, true] {
            if linked && p.maxlen < 2 {
                continue;
            }
            // item kind A: all batches of length 1..=min(maxlen,3) starting with s0
            for s0 in 0..ns {
                if p.large && (linked || !LARGE_SYMS.contains(&SYMS[s0].name)) {
                    continue;
                }
                let cal_a = cal.clone();
                let tag = format!("e{}f{}{}s{}", p.entries, p.flags, if linked { "L" } else { "I" }, s0);
                let short = p.maxlen.min(3);
                for len in 1..=short {
                    if !(linked && len == 1) {
                        n_cases_planned += (ns as u64).pow(len as u32 - 1);
                    }
                }
                items.push(isolated(tag.clone(), move || {
                    shard_body(&tag, p, linked, &cal_a, |f| {
                        for_each_seq(ns, short - 1, |tail| {
                            let mut b = vec![s0];
                            b.extend_from_slice(tail);
                            f(b);
                        });
                    })
                }));
                // item kind B: length exactly 4, split by the first two symbols
                if p.maxlen >= 4 {
                    for s1 in 0..ns {
                        let cal_b = cal.clone();
                        let tag = format!("e{}f{}{}s{}-{}", p.entries, p.flags, if linked { "L" } else { "I" }, s0, s1);
                        n_cases_planned += (ns * ns) as u64;
                        items.push(isolated(tag.clone(), move || {
                            shard_body(&tag, p, linked, &cal_b, |f| {
                                for s2 in 0..ns {
                                    for s3 in 0..ns {
                                        f(vec![s0, s1, s2, s3]);
                                    }
                                }
                            })
                        }));
                    }
                }
            }
        }
    }
    // chains with every mix of {no flag, IOSQE_IO_LINK, IOSQE_IO_HARDLINK} per entry, over members that fail in the
    // kernel's chain-severing sense (openat of a missing file, read on a bad descriptor) and members that succeed
    if usable.contains(&0) {
        let ms = mixed_link_syms();
        for first in 0..ms.len() {
            let cal_m = cal.clone();
            let ms2 = ms.clone();
            let cases = mixed_link_cases(&ms, first);
            n_cases_planned += cases.len() as u64;
            let warm = if th { 100 } else { 0 };
            items.push(isolated(format!("mixed-links-{first}"), move || {
                let _ = &ms2;
                let mut r = Report::new();
                install_watchdog();
                let mut sh = Shard::new(&format!("mixl{first}"));
                let mut rs = match sh.make_ring(4, 0) {
                    Ok(x) => x,
                    Err(e) => {
                        r.cap(format!("mixed-links: ring set-up refused: {e}"));
                        sh.finish();
                        return r;
                    }
                };
                if warm > 0 {
                    let _ = warm_up(&mut rs, warm);
                }
                for (batch, links) in cases {
                    let c = Case { entries: 4, flags: 0, linked: true, batch, rounds: 2, links: Some(links) };
                    run_case(&mut sh, &mut rs, &c, &cal_m, &mut r, false);
                }
                drop(rs);
                sh.finish();
                r
            }));
        }
        // optional directory descriptors of every constructor that has them
        n_cases_planned += crate::ops_flags::dirfd_cases().len() as u64;
        items.push(isolated("dirfd-defaults", move || {
            let mut r = Report::new();
            install_watchdog();
            let mut sh = Shard::new("dirfd");
            match sh.make_ring(4, 0) {
                Ok(mut rs) => {
                    for c in crate::ops_flags::dirfd_cases() {
                        crate::ops_flags::dirfd_case(&mut sh, &mut rs, &c, &mut r, false);
                    }
                    drop(rs);
                }
                Err(e) => r.cap(format!("dirfd: ring set-up refused: {e}")),
            }
            sh.finish();
            r
        }));
    }
    // the address-kind dimension of the socket operations
    if usable.contains(&0) {
        n_cases_planned += crate::ops_addr::addr_cases().len() as u64;
        items.push(isolated("addr-kinds", move || {
            let mut r = Report::new();
            crate::ops_addr::shard(&mut r, false, None);
            r
        }));
    }
    // every byte of every constructor's entry determined by its arguments; two polls on one descriptor
    {
        n_cases_planned += crate::ops_sqebytes::CTORS.len() as u64 + 3;
        items.push(isolated("sqebytes", move || {
            let mut r = Report::new();
            crate::ops_sqebytes::run_all(&mut r, false);
            r
        }));
    }
    // every constant the wrapper exports against the kernel's uapi values
    {
        n_cases_planned += crate::ops_flags::constant_table().len() as u64;
        items.push(isolated("constants", move || {
            let mut r = Report::new();
            crate::ops_flags::check_constants(&mut r, false);
            r
        }));
    }
    // the SQPOLL wake-up protocol: pure function over harness memory, and the kernel scenario
    {
        let words = crate::ops_sqpoll::words();
        n_cases_planned += words.len() as u64;
        items.push(isolated("needs_wakeup-pure", move || {
            let mut r = Report::new();
            for w in words {
                crate::ops_sqpoll::pure_case(w, &mut r, false);
            }
            r
        }));
        let sqpoll_ok = usable.contains(&IoUringParamFlags::IORING_SETUP_SQPOLL.bits());
        let reps: u32 = if th { 10 } else { 2 };
        let rings: &[u32] = if th { &[2, 4] } else { &[2] };
        if sqpoll_ok {
            for &e in rings {
                for overflow in [false, true] {
                    for rep in 0..reps {
                        n_cases_planned += 1;
                        items.push(isolated(format!("sqpoll-e{e}-{overflow}-{rep}"), move || {
                            let mut r = Report::new();
                            install_watchdog();
                            let sh = Shard::new(&format!("sqp{e}{overflow}{rep}"));
                            crate::ops_sqpoll::kernel_case(&sh.base, e, overflow, rep, &mut r, false);
                            sh.finish();
                            r
                        }));
                    }
                }
            }
        } else {
            notes.push("SQPOLL rings are not usable here: the kernel wake-up scenario was not run (the pure needs_wakeup check was)".into());
        }
    }
    // rotate the start order with the seed (no sampling: every item runs)
    if !items.is_empty() {
        let k = (args.seed as usize) % items.len();
        items.rotate_left(k);
    }
    let n_items = items.len();
    let mut r = run_isolated(items, &args.out, "C18");
    r.notes.retain(|n| !n.starts_with('{'));
    r.notes.extend(notes);
    r.rule = format!(
        "every sequence of 1..L symbols over the {ns}-symbol alphabet (17 operations x 2-3 fixed argument variants, one failing) is one batch; each batch is run as independent entries and \
         (length >= 2) as one IOSQE_IO_LINK chain, on one long-lived ring per shard, in a fresh twin directory pair; batches of length <= C are repeated 3*ring rounds in the same pair (state evolves in both twins). \
         Each (ring size, flags, mode, sequence) is generated exactly once; every case is non-trivial (it submits at least one entry and compares it with the direct call)."
    );
    r.bound("alphabet", SYMS.iter().map(|s| s.name).collect::<Vec<_>>());
    r.bound("plans", plans.iter().map(|p| json!({"ring": p.entries, "kernel_ring_entries": p.kernel_entries, "rounds_len1": rounds_for(p, 1), "rounds_len2": rounds_for(p, 2), "flags": flags_name(p.flags), "max_len": p.maxlen, "chained_up_to_len": p.chain_upto, "warm_up_submissions": p.warm, "large_ring_single_entry_plan": p.large})).collect::<Vec<_>>());
    r.bound("cases_planned", n_cases_planned);
    r.bound("shards", n_items);
    r.note(format!("wall {:.1}s", t0.elapsed().as_secs_f64()));
    sweep_stale_dirs();
    if n_cases_planned == 0 {
        r.cap("no ring could be set up: nothing was evaluated");
    }
    if r.evaluations != n_cases_planned {
        r.cap(format!("{} of {} planned cases were evaluated", r.evaluations, n_cases_planned));
    }
    r
}

fn shard_body(tag: &str, p: Plan, linked: bool, cal: &Calib, each: impl FnOnce(&mut dyn FnMut(Vec<usize>))) -> Report {
    let mut r = Report::new();
    install_watchdog();
    let mut sh = Shard::new(tag);
    // a fault inside set-up (e.g. the index array initialised beyond the mapping) belongs to set-up
    set_case(&json!({"phase": "drop", "op": "setup", "ring": p.entries, "kernel_ring_entries": p.kernel_entries, "flags": p.flags, "flags_name": flags_name(p.flags), "used": false, "interpose": false}).to_string());
    let made = sh.make_ring(p.entries, p.flags);
    clear_case();
    let mut rs = match made {
        Ok(x) => x,
        Err(e) => {
            r.cap(format!("shard {tag}: ring set-up refused: {e}"));
            sh.finish();
            return r;
        }
    };
    if p.warm > 0 {
        if let Err(e) = warm_up(&mut rs, p.warm) {
            r.cap(format!("shard {tag}: {e}"));
        }
    }
    each(&mut |batch: Vec<usize>| {
        if linked && batch.len() < 2 {
            return;
        }
        let rounds = rounds_for(&p, batch.len());
        let c = Case { entries: p.entries, flags: p.flags, linked, batch, rounds, links: None };
        run_case(&mut sh, &mut rs, &c, cal, &mut r, false);
    });
    if rs.kernel_entries != p.kernel_entries {
        r.cap(format!("shard {tag}: kernel ring size {} differs from the planned {}", rs.kernel_entries, p.kernel_entries));
    }
    // slot coverage: consecutive submissions use consecutive slot indices (mod K), so K+2 submissions on one
    // ring visit every slot
    if rs.rings_made == 1 {
        if rs.submitted < (rs.kernel_entries + 2) as u64 {
            r.cap(format!("shard {tag}: only {} submissions went through its ring of {} slots", rs.submitted, rs.kernel_entries));
        } else {
            r.outcome("ring:every-slot-index-used");
        }
    }
    drop(rs);
    sh.finish();
    r
}

pub fn mixed_link_syms() -> Vec<usize> {
    ["openat:missing", "readv:badfd", "mkdirat:new", "openat:existing", "writev:ok"].iter().map(|n| sym(n)).collect()
}

/// every batch of length 2..3 over `ms` starting with ms[first], with every assignment of a link flag to each
/// entry but the last
pub fn mixed_link_cases(ms: &[usize], first: usize) -> Vec<(Vec<usize>, Vec<u8>)> {
    let mut out = Vec::new();
    for len in 2..=3usize {
        for_each_seq(ms.len(), len - 1, |tail| {
            if tail.len() != len - 1 {
                return;
            }
            let mut b = vec![ms[first]];
            b.extend(tail.iter().map(|&i| ms[i]));
            for_each_seq(3, len - 1, |fl| {
                if fl.len() != len - 1 {
                    return;
                }
                let mut links: Vec<u8> = fl.iter().map(|&x| x as u8).collect();
                links.push(0);
                out.push((b.clone(), links));
            });
        });
    }
    out
}

pub fn replay(v: &Value, r: &mut Report) {
    if v["scenario"].as_str() == Some("addr") {
        crate::ops_addr::replay(v, r);
        return;
    }
    if matches!(v["scenario"].as_str(), Some("dirfd") | Some("constants")) {
        crate::ops_flags::replay(v, r);
        return;
    }
    if v.get("scenario").is_some() {
        crate::ops_sqpoll::replay(v, r);
        return;
    }
    let batch: Vec<usize> = v["batch"].as_array().expect("batch").iter().map(|x| sym_index(x.as_str().unwrap()).expect("symbol")).collect();
    let c = Case {
        entries: v["ring"].as_u64().unwrap_or(4) as u32,
        flags: v["flags"].as_u64().unwrap_or(0) as u32,
        linked: v["linked"].as_bool().unwrap_or(false),
        links: v["links"].as_array().map(|a| a.iter().map(|x| x.as_u64().unwrap_or(0) as u8).collect()),
        batch,
        rounds: v["rounds"].as_u64().unwrap_or(1) as u32,
    };
    if v.get("raw_timeout_pair_probe").is_some() {
        for fl in [0u32, 2] {
            println!("raw ring flags {fl:#x}: relative 1 ms timeout + expired absolute timeout, fastest of 8: {:?}", ops_raw::sqpoll_timeout_pair_probe(fl, 8));
        }
        return;
    }
    let prior = v["prior_submissions"].as_u64().unwrap_or(0).min(200_000);
    let mut notes = Vec::new();
    let cal = calibrate(&mut notes);
    for n in &notes {
        println!("{n}");
    }
    println!(
        "replaying ring={} flags={} {} batch={:?} rounds={} after {prior} warm-up submissions",
        c.entries,
        flags_name(c.flags),
        c.mode_name(),
        c.batch.iter().map(|&s| SYMS[s].name).collect::<Vec<_>>(),
        c.rounds
    );
    install_watchdog();
    let mut sh = Shard::new("replay");
    let mut rs = sh.make_ring(c.entries, c.flags).expect("ring set-up");
    warm_up(&mut rs, prior).expect("warm-up");
    run_case(&mut sh, &mut rs, &c, &cal, r, true);
    drop(rs);
    sh.finish();
}
