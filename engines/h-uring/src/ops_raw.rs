//! A minimal io_uring driver written against the kernel ABI with libc only —
//! completely independent of the rusl wrapper.  The "ops" phase uses it once, before
//! any shard is forked, to LEARN from the running kernel which operations, when they
//! end in an error inside an `IOSQE_IO_LINK` chain, sever the chain (the remaining
//! members complete with -ECANCELED).  The io_uring_enter(2) text says "any error";
//! kernels differ for a few opcodes, and the reference model of a linked batch must
//! follow the kernel the wrapper is talking to, not the wrapper itself.

use std::ffi::CString;

#[repr(C)]
#[derive(Clone, Copy, Default)]
pub struct RawSqe {
    pub opcode: u8,
    pub flags: u8,
    pub ioprio: u16,
    pub fd: i32,
    pub off: u64,
    pub addr: u64,
    pub len: u32,
    pub op_flags: u32,
    pub user_data: u64,
    pub buf_index: u16,
    pub personality: u16,
    pub file_index: u32,
    pub addr3: u64,
    pub pad: u64,
}

#[repr(C)]
#[derive(Clone, Copy, Default)]
pub struct SqOff {
    pub head: u32,
    pub tail: u32,
    pub ring_mask: u32,
    pub ring_entries: u32,
    pub flags: u32,
    pub dropped: u32,
    pub array: u32,
    pub resv1: u32,
    pub user_addr: u64,
}
#[repr(C)]
#[derive(Clone, Copy, Default)]
pub struct CqOff {
    pub head: u32,
    pub tail: u32,
    pub ring_mask: u32,
    pub ring_entries: u32,
    pub overflow: u32,
    pub cqes: u32,
    pub flags: u32,
    pub resv1: u32,
    pub user_addr: u64,
}
#[repr(C)]
#[derive(Clone, Copy, Default)]
pub struct Params {
    pub sq_entries: u32,
    pub cq_entries: u32,
    pub flags: u32,
    pub sq_thread_cpu: u32,
    pub sq_thread_idle: u32,
    pub features: u32,
    pub wq_fd: u32,
    pub resv: [u32; 3],
    pub sq_off: SqOff,
    pub cq_off: CqOff,
}

pub struct RawRing {
    fd: i32,
    p: Params,
    ring: *mut u8,
    ring_sz: usize,
    sqes: *mut RawSqe,
    sqes_sz: usize,
    tail: u32,
}

pub const OP_NOP: u8 = 0;
pub const OP_READV: u8 = 1;
pub const OP_WRITEV: u8 = 2;
pub const OP_READ_FIXED: u8 = 4;
pub const OP_WRITE_FIXED: u8 = 5;
pub const OP_POLL_ADD: u8 = 6;
pub const OP_SENDMSG: u8 = 9;
pub const OP_RECVMSG: u8 = 10;
pub const OP_TIMEOUT: u8 = 11;
pub const OP_ACCEPT: u8 = 13;
pub const OP_CONNECT: u8 = 16;
pub const OP_OPENAT: u8 = 18;
pub const OP_CLOSE: u8 = 19;
pub const OP_STATX: u8 = 21;
pub const OP_RENAMEAT: u8 = 35;
pub const OP_UNLINKAT: u8 = 36;
pub const OP_MKDIRAT: u8 = 37;
pub const OP_SOCKET: u8 = 45;
const IOSQE_IO_LINK: u8 = 1 << 2;

impl RawRing {
    pub fn new(entries: u32) -> Option<RawRing> {
        Self::with_flags(entries, 0, 0)
    }
    pub fn with_flags(entries: u32, flags: u32, sq_thread_idle: u32) -> Option<RawRing> {
        unsafe {
            let mut p = Params::default();
            p.flags = flags;
            p.sq_thread_idle = sq_thread_idle;
            let fd = libc::syscall(libc::SYS_io_uring_setup, entries, &mut p as *mut Params) as i32;
            if fd < 0 {
                return None;
            }
            // IORING_FEAT_SINGLE_MMAP assumed (kernel >= 5.4)
            if p.features & 1 == 0 {
                libc::close(fd);
                return None;
            }
            let sq_sz = p.sq_off.array as usize + p.sq_entries as usize * 4;
            let cq_sz = p.cq_off.cqes as usize + p.cq_entries as usize * 16;
            let ring_sz = sq_sz.max(cq_sz);
            let ring = libc::mmap(std::ptr::null_mut(), ring_sz, libc::PROT_READ | libc::PROT_WRITE, libc::MAP_SHARED | libc::MAP_POPULATE, fd, 0);
            if ring == libc::MAP_FAILED {
                libc::close(fd);
                return None;
            }
            let sqes_sz = p.sq_entries as usize * 64;
            let sqes = libc::mmap(std::ptr::null_mut(), sqes_sz, libc::PROT_READ | libc::PROT_WRITE, libc::MAP_SHARED | libc::MAP_POPULATE, fd, 0x1000_0000);
            if sqes == libc::MAP_FAILED {
                libc::munmap(ring, ring_sz);
                libc::close(fd);
                return None;
            }
            let rr = RawRing { fd, p, ring: ring as *mut u8, ring_sz, sqes: sqes as *mut RawSqe, sqes_sz, tail: 0 };
            for i in 0..p.sq_entries {
                *(rr.ring.add(p.sq_off.array as usize) as *mut u32).add(i as usize) = i;
            }
            Some(rr)
        }
    }
    fn atomic(&self, off: u32) -> &std::sync::atomic::AtomicU32 {
        unsafe { &*(self.ring.add(off as usize) as *const std::sync::atomic::AtomicU32) }
    }
    /// submit `sqes` as one call, wait for as many completions, return (user_data, res) in arrival order
    pub fn run(&mut self, sqes: &[RawSqe]) -> Option<Vec<(u64, i32)>> {
        use std::sync::atomic::Ordering::*;
        unsafe {
            let mask = self.p.sq_entries - 1;
            for s in sqes {
                *self.sqes.add((self.tail & mask) as usize) = *s;
                self.tail = self.tail.wrapping_add(1);
            }
            self.atomic(self.p.sq_off.tail).store(self.tail, Release);
            let n = sqes.len() as u32;
            let n_wait = if n == 0 { 1 } else { n };
            // GETEVENTS, plus SQ_WAKEUP on an SQPOLL ring (harmless when the thread is awake)
            let fl: u32 = if self.p.flags & 2 != 0 { 1 | 2 } else { 1 };
            let r = libc::syscall(libc::SYS_io_uring_enter, self.fd, n, n_wait, fl, 0usize, 0usize);
            if r != n as i64 {
                if std::env::var("H_URING_DEBUG").is_ok() {
                    eprintln!("raw enter = {r} errno {}", *libc::__errno_location());
                }
                return None;
            }
            let mut out = Vec::new();
            let cmask = self.p.cq_entries - 1;
            loop {
                let head = self.atomic(self.p.cq_off.head).load(Acquire);
                let tail = self.atomic(self.p.cq_off.tail).load(Acquire);
                if head == tail {
                    break;
                }
                let cqe = self.ring.add(self.p.cq_off.cqes as usize + ((head & cmask) as usize) * 16);
                let ud = *(cqe as *const u64);
                let res = *(cqe.add(8) as *const i32);
                out.push((ud, res));
                self.atomic(self.p.cq_off.head).store(head.wrapping_add(1), Release);
            }
            Some(out)
        }
    }
}
impl Drop for RawRing {
    fn drop(&mut self) {
        unsafe {
            libc::munmap(self.sqes as *mut _, self.sqes_sz);
            libc::munmap(self.ring as *mut _, self.ring_sz);
            libc::close(self.fd);
        }
    }
}

/// What the kernel allocates for a requested queue size: (sq_entries, cq_entries), read from the
/// parameters io_uring_setup fills in (raw call, independent of the wrapper).
pub fn kernel_ring_entries(requested: u32) -> Option<(u32, u32)> {
    let r = RawRing::new(requested)?;
    Some((r.p.sq_entries, r.p.cq_entries))
}

/// One calibration probe: the opcode, the result of the (deliberately failing) first
/// member and whether the linked NOP behind it was cancelled.
#[derive(Clone, Debug)]
pub struct LinkProbe {
    pub opcode: u8,
    pub what: &'static str,
    pub first_res: i32,
    pub second_res: i32,
}

/// For every opcode of the alphabet: submit [failing op | IOSQE_IO_LINK, NOP] on a raw ring.
pub fn probe_link_breaks() -> Option<Vec<LinkProbe>> {
    let mut ring = RawRing::new(4)?;
    let missing = CString::new("/h-uring-calibration-missing/x").unwrap();
    let missing2 = CString::new("/h-uring-calibration-missing/y").unwrap();
    let root = CString::new("/").unwrap();
    let mfd = unsafe { libc::memfd_create(b"h-uring-cal\0".as_ptr() as *const _, 0) };
    if mfd < 0 {
        return None;
    }
    unsafe {
        libc::write(mfd, b"abcd".as_ptr() as *const _, 4);
    }
    let mut buf = [0u8; 64];
    let iov = [libc::iovec { iov_base: buf.as_mut_ptr() as *mut _, iov_len: 64 }];
    let mut stx = [0u8; 256];
    let ts: [i64; 2] = [0, 1000];
    let mut mh: libc::msghdr = unsafe { std::mem::zeroed() };
    mh.msg_iov = iov.as_ptr() as *mut _;
    mh.msg_iovlen = 1;
    let sa: libc::sockaddr_un = unsafe { std::mem::zeroed() };
    let bad = 99_999;
    let at = libc::AT_FDCWD;
    let mk = |opcode, fd: i32, addr: u64, len: u32, off: u64, op_flags: u32| RawSqe { opcode, fd, addr, len, off, op_flags, ..Default::default() };
    let table: Vec<(u8, &'static str, RawSqe)> = vec![
        (OP_READV, "readv bad fd", mk(OP_READV, bad, iov.as_ptr() as u64, 1, 0, 0)),
        (OP_READV, "readv short", mk(OP_READV, mfd, iov.as_ptr() as u64, 1, 0, 0)),
        (OP_WRITEV, "writev bad fd", mk(OP_WRITEV, bad, iov.as_ptr() as u64, 1, 0, 0)),
        (OP_READ_FIXED, "read_fixed bad fd", mk(OP_READ_FIXED, bad, buf.as_ptr() as u64, 4, 0, 0)),
        (OP_WRITE_FIXED, "write_fixed bad fd", mk(OP_WRITE_FIXED, bad, buf.as_ptr() as u64, 4, 0, 0)),
        (OP_OPENAT, "openat missing", mk(OP_OPENAT, at, missing.as_ptr() as u64, 0, 0, 0)),
        (OP_CLOSE, "close bad fd", mk(OP_CLOSE, bad, 0, 0, 0, 0)),
        (OP_STATX, "statx missing", mk(OP_STATX, at, missing.as_ptr() as u64, 0x7ff, stx.as_mut_ptr() as u64, 0)),
        (OP_MKDIRAT, "mkdirat existing", mk(OP_MKDIRAT, at, root.as_ptr() as u64, 0o755, 0, 0)),
        (OP_UNLINKAT, "unlinkat missing", mk(OP_UNLINKAT, at, missing.as_ptr() as u64, 0, 0, 0)),
        (OP_RENAMEAT, "renameat missing", mk(OP_RENAMEAT, at, missing.as_ptr() as u64, at as u32, missing2.as_ptr() as u64, 0)),
        (OP_SOCKET, "socket bad protocol", mk(OP_SOCKET, libc::AF_INET, 0, 17, libc::SOCK_STREAM as u64, 0)),
        (OP_CONNECT, "connect not a socket", mk(OP_CONNECT, mfd, &sa as *const _ as u64, 0, 16, 0)),
        (OP_ACCEPT, "accept not a socket", mk(OP_ACCEPT, mfd, 0, 0, 0, 0)),
        (OP_SENDMSG, "sendmsg not a socket", mk(OP_SENDMSG, mfd, &mh as *const _ as u64, 0, 0, 0)),
        (OP_RECVMSG, "recvmsg not a socket", mk(OP_RECVMSG, mfd, &mut mh as *mut _ as u64, 0, 0, 0)),
        (OP_TIMEOUT, "timeout elapses", mk(OP_TIMEOUT, 0, ts.as_ptr() as u64, 1, 0, 0)),
        (OP_POLL_ADD, "poll_add bad fd", mk(OP_POLL_ADD, bad, 0, 0, 0, 1)),
    ];
    let mut out = Vec::new();
    for (opc, what, mut sqe) in table {
        sqe.flags |= IOSQE_IO_LINK;
        sqe.user_data = 1;
        let nop = RawSqe { opcode: OP_NOP, user_data: 2, ..Default::default() };
        let got = ring.run(&[sqe, nop])?;
        let a = got.iter().find(|x| x.0 == 1)?.1;
        let b = got.iter().find(|x| x.0 == 2)?.1;
        out.push(LinkProbe { opcode: opc, what, first_res: a, second_res: b });
    }
    unsafe {
        libc::close(mfd);
    }
    let _ = (&mut buf, &mut stx);
    Some(out)
}

/// Kernel behaviour probe (raw ring, no wrapper): on an SQPOLL ring, submit a relative 1 ms
/// timeout together with an absolute timeout that is already in the past; returns the smallest
/// time (ns) in which BOTH completed over `tries` attempts, with their results.
pub fn sqpoll_timeout_pair_probe(flags: u32, tries: usize) -> Option<(u128, Vec<i32>)> {
    let mut ring = RawRing::with_flags(4, flags, 20)?;
    let mut best: Option<(u128, Vec<i32>)> = None;
    for _ in 0..tries {
        let rel: [i64; 2] = [0, 1_000_000];
        let mut now: libc::timespec = unsafe { std::mem::zeroed() };
        unsafe { libc::clock_gettime(libc::CLOCK_MONOTONIC, &mut now) };
        let abs: [i64; 2] = [now.tv_sec, now.tv_nsec];
        let a = RawSqe { opcode: OP_TIMEOUT, addr: rel.as_ptr() as u64, len: 1, user_data: 1, ..Default::default() };
        let b = RawSqe { opcode: OP_TIMEOUT, addr: abs.as_ptr() as u64, len: 1, op_flags: 1 /* IORING_TIMEOUT_ABS */, user_data: 2, ..Default::default() };
        let t0 = std::time::Instant::now();
        let mut got = ring.run(&[a, b])?;
        let mut calls = 1;
        while got.len() < 2 && calls < 4 {
            // the wait was cut short (a timeout fired while waiting): wait again for the rest
            got.extend(ring.run(&[])?);
            calls += 1;
        }
        let dt = t0.elapsed().as_nanos();
        if std::env::var("H_URING_DEBUG").is_ok() {
            eprintln!("raw flags {flags:#x}: {dt} ns {got:?}");
        }
        let res: Vec<i32> = got.iter().map(|x| x.1).collect();
        if got.len() == 2 && best.as_ref().map(|b| dt < b.0).unwrap_or(true) {
            best = Some((dt, res));
        }
    }
    best
}

/// The parameters the kernel fills in for (entries, flags): an independent io_uring_setup whose
/// ring is closed again at once.  The offsets depend only on the sizes and flags.
pub fn raw_params(entries: u32, flags: u32, sq_thread_idle: u32) -> Option<Params> {
    unsafe {
        let mut p = Params::default();
        p.flags = flags;
        p.sq_thread_idle = sq_thread_idle;
        let fd = libc::syscall(libc::SYS_io_uring_setup, entries, &mut p as *mut Params) as i32;
        if fd < 0 {
            return None;
        }
        libc::close(fd);
        Some(p)
    }
}

impl Params {
    pub fn cqe_size(&self) -> u64 {
        if self.flags & (1 << 11) != 0 {
            32
        } else {
            16
        }
    }
    pub fn sqe_size(&self) -> u64 {
        if self.flags & (1 << 10) != 0 {
            128
        } else {
            64
        }
    }
    /// bytes of the SQ ring mapping the kernel's offsets require
    pub fn need_sq_ring(&self) -> u64 {
        self.sq_off.array as u64 + 4 * self.sq_entries as u64
    }
    pub fn need_cq_ring(&self) -> u64 {
        self.cq_off.cqes as u64 + self.cq_entries as u64 * self.cqe_size()
    }
    pub fn need_sqes(&self) -> u64 {
        self.sq_entries as u64 * self.sqe_size()
    }
}

/// io_uring mappings of this process as /proc/self/maps shows them: (start, end, file offset)
pub fn uring_maps() -> Vec<(u64, u64, u64)> {
    let m = std::fs::read_to_string("/proc/self/maps").unwrap_or_default();
    let mut v = Vec::new();
    for l in m.lines().filter(|l| l.contains("io_uring")) {
        let mut it = l.split_whitespace();
        let (Some(range), _, Some(off)) = (it.next(), it.next(), it.next()) else { continue };
        let Some((a, b)) = range.split_once('-') else { continue };
        if let (Ok(a), Ok(b), Ok(o)) = (u64::from_str_radix(a, 16), u64::from_str_radix(b, 16), u64::from_str_radix(off, 16)) {
            v.push((a, b, o));
        }
    }
    v
}

/// Read-only libc-side view of the ring memory a wrapper-made ring lives in (found through
/// /proc/self/maps: the io_uring mapping at file offset 0; exactly one ring may be alive).
pub struct RingView {
    base: *const u8,
    pub p: Params,
}
// a read-only view doing atomic loads on kernel-shared memory: fine from any thread
unsafe impl Send for RingView {}

impl RingView {
    pub fn find(p: Params) -> Option<RingView> {
        let maps = uring_maps();
        let rings: Vec<&(u64, u64, u64)> = maps.iter().filter(|m| m.2 == 0).collect();
        if rings.len() != 1 {
            return None;
        }
        Some(RingView { base: rings[0].0 as *const u8, p })
    }
    #[allow(dead_code)]
    pub fn base(&self) -> *mut u8 {
        self.base as *mut u8
    }
    fn word(&self, off: u32) -> u32 {
        unsafe { (*(self.base.add(off as usize) as *const std::sync::atomic::AtomicU32)).load(std::sync::atomic::Ordering::Acquire) }
    }
    pub fn sq_flags(&self) -> u32 {
        self.word(self.p.sq_off.flags)
    }
    pub fn sq_head(&self) -> u32 {
        self.word(self.p.sq_off.head)
    }
    pub fn sq_tail(&self) -> u32 {
        self.word(self.p.sq_off.tail)
    }
    pub fn cq_head(&self) -> u32 {
        self.word(self.p.cq_off.head)
    }
    pub fn cq_tail(&self) -> u32 {
        self.word(self.p.cq_off.tail)
    }
    pub fn cq_overflow(&self) -> u32 {
        self.word(self.p.cq_off.overflow)
    }
}
