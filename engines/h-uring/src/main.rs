//! C18 — io_uring wrapper (rusl): operations vs. direct system calls, and teardown.
//!
//! Phase dispatcher.  Phases living in this crate:
//!   ops   (ops.rs, ops_raw.rs)  every batch over the operation alphabet through the real
//!                               wrapper on the real kernel, differential against direct calls
//!   ringflags (ops_ringflags.rs) C17 keys: entry hand-over on real rings from setup_io_uring, per flag set
//!   drop  (ops_drop.rs)         `Drop for IoUring` observed through the syscall seam
//!   ring  (ring.rs)             <- to be added by the ring-phase engineer: add `mod ring;`
//!                               below and the two marked match arms

use common::*;

mod ops;
mod ops_addr;
mod ops_drop;
mod ops_flags;
mod ops_raw;
mod ops_ringflags;
mod ops_sqebytes;
mod ops_sqpoll;
mod ops_sym;
// mod ring;            // <-- ring phase: uncomment / add

fn main() {
    let args = parse_args();
    install_panic_hook();
    if let Some(p) = &args.replay {
        let v = read_replay(p);
        let mut r = Report::new();
        // a replay value names its phase; default "ops"
        match v["phase"].as_str().unwrap_or("ops") {
            "ops" => ops::replay(&v, &mut r),
            "drop" => ops_drop::replay(&v, &mut r),
            "ringflags" => ops_ringflags::replay(&v, &mut r),
            "sqebytes" => ops_sqebytes::replay(&v, &mut r),
            // "ring" => ring::replay(&v, &mut r),      // <-- ring phase
            other => panic!("replay value of unknown phase {other}"),
        }
        for v in r.violations.values() {
            println!("VIOLATED {}: {}", v.key, v.desc);
        }
        println!("{}", serde_json::to_string_pretty(&r.to_json()).unwrap());
        std::process::exit(if r.violations.is_empty() { 0 } else { 1 });
    }
    let phase = args.phase.clone().unwrap_or_else(|| "ops".into());
    let r = match phase.as_str() {
        "ops" => ops::run(&args),
        "drop" => ops_drop::run(&args),
        "sqebytes" => ops_sqebytes::run(&args), // C18 keys; meant for the small binary in --profile o0 as well
        "ringflags" => ops_ringflags::run(&args), // reports under C17 keys (hand-over on real rings)
        // "ring" => ring::run(&args),                  // <-- ring phase
        _ => panic!("unknown phase {phase} (ops | drop | ringflags)"),
    };
    r.write(&args.out);
}
