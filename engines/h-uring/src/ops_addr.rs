//! Part of phase "ops": the ADDRESS-KIND dimension of the socket operations.
//!
//! connect  x {pathname short, pathname of maximal length (107), pathname obtained through
//!            getsockname, abstract "empty" (`try_from_unix(UnixStr::EMPTY)`), abstract autobound
//!            (getsockname after autobind), abstract long (getsockname), unnamed (getsockname of an
//!            unbound socket), pathname nobody listens on}
//! accept   x peer address {unnamed, pathname short, pathname 107, abstract autobound, abstract
//!            "empty"} x {address out-parameters given, null}
//! sendmsg  x {stream, datagram socket pair} x {no name, a name}
//!
//! Every `SocketArgUnix` comes out of the public API (`SocketAddressUnix::try_from_unix`,
//! `get_unix_sock_name`).  Twin: the direct call with the same argument value
//! (`rusl::network::connect_unix` with the same `SocketArgUnix`; libc `accept4` / `sendmsg`),
//! executed after the wrapper's run on fresh sockets at the same addresses (one after the other:
//! an abstract name exists once per network namespace; the shard unshares its own).

use crate::ops::{submit_and_reap, ud_for, RingState, Shard};
use crate::ops_sym::{cstr, errname, errno, fd_of, rk, ustr};
use common::*;
use rusl::network::{connect_unix, get_unix_sock_name};
use rusl::platform::{IoSlice, IoUringSQEFlags, IoUringSubmissionQueueEntry as Sqe, MsgHdrBorrow, SocketAddressUnix, SocketArgUnix, SocketFlags};
use rusl::string::unix_str::UnixStr;
use serde_json::{json, Value};

pub const CONNECT_KINDS: &[&str] =
    &["path-short", "path-107", "path-via-getsockname", "abstract-empty", "abstract-autobound", "abstract-long", "unnamed", "path-nobody-listens"];
pub const PEER_KINDS: &[&str] = &["path-short", "path-107", "abstract-autobound", "abstract-empty", "unnamed"];

#[derive(Clone, Debug)]
pub struct AddrCase {
    pub op: &'static str,
    pub kind: &'static str,
    pub variant: bool,
}

pub fn addr_cases() -> Vec<AddrCase> {
    let mut v = Vec::new();
    for k in CONNECT_KINDS {
        v.push(AddrCase { op: "connect", kind: k, variant: false });
    }
    for k in PEER_KINDS {
        for out in [true, false] {
            v.push(AddrCase { op: "accept", kind: k, variant: out });
        }
    }
    for k in ["stream", "dgram"] {
        for named in [false, true] {
            v.push(AddrCase { op: "sendmsg", kind: k, variant: named });
        }
    }
    v
}

fn raw_sockaddr(bytes: &[u8]) -> (libc::sockaddr_un, u32) {
    let mut sa: libc::sockaddr_un = unsafe { std::mem::zeroed() };
    sa.sun_family = libc::AF_UNIX as u16;
    for (i, b) in bytes.iter().enumerate() {
        sa.sun_path[i] = *b as libc::c_char;
    }
    (sa, 2 + bytes.len() as u32)
}

fn sock(ty: i32) -> i32 {
    let s = unsafe { libc::socket(libc::AF_UNIX, ty | libc::SOCK_CLOEXEC, 0) };
    assert!(s >= 0);
    s
}

/// binds `fd` with the raw address bytes (sun_path content; empty = autobind)
fn bind_raw(fd: i32, bytes: &[u8]) -> i32 {
    let (sa, len) = raw_sockaddr(bytes);
    unsafe { libc::bind(fd, &sa as *const _ as *const libc::sockaddr, len) }
}

fn long_path(dir: &str) -> String {
    let mut p = format!("{dir}/");
    while p.len() < 107 {
        p.push('p');
    }
    assert_eq!(p.len(), 107);
    p
}

fn sockname(fd: i32) -> Vec<u8> {
    let mut sa: libc::sockaddr_un = unsafe { std::mem::zeroed() };
    let mut l: libc::socklen_t = std::mem::size_of::<libc::sockaddr_un>() as u32;
    unsafe { libc::getsockname(fd, &mut sa as *mut _ as *mut libc::sockaddr, &mut l) };
    let b: &[u8] = unsafe { std::slice::from_raw_parts(&sa as *const _ as *const u8, l as usize) };
    b.to_vec()
}

/// sun_path bytes (with the terminating NUL for pathnames) the listener / peer of `kind` is bound to; None: not bound
fn bind_bytes(kind: &str, dir: &str) -> Option<Vec<u8>> {
    match kind {
        "path-short" | "path-via-getsockname" => Some(format!("{dir}/s\0").into_bytes()),
        "path-107" => Some(format!("{}\0", long_path(dir)).into_bytes()),
        "abstract-empty" => Some(vec![0]),
        "abstract-autobound" => Some(vec![]),
        "abstract-long" => Some(format!("\0hur-abstract-name-of-some-length-{}", unsafe { libc::getpid() }).into_bytes()),
        _ => None,
    }
}

fn unlink_paths(dir: &str) {
    let _ = std::fs::remove_file(format!("{dir}/s"));
    let _ = std::fs::remove_file(long_path(dir));
}

/// one byte sent into `from` arrives at `to`
fn flows(from: i32, to: i32) -> bool {
    unsafe {
        if libc::send(from, b"Q".as_ptr().cast(), 1, libc::MSG_DONTWAIT | libc::MSG_NOSIGNAL) != 1 {
            return false;
        }
        let mut pf = libc::pollfd { fd: to, events: libc::POLLIN, revents: 0 };
        libc::poll(&mut pf, 1, 2000);
        let mut b = [0u8; 1];
        libc::recv(to, b.as_mut_ptr().cast(), 1, libc::MSG_DONTWAIT) == 1
    }
}

fn ring_one(rs: &mut RingState, sqe: Sqe, ud: u64) -> Result<i64, String> {
    match catch(|| submit_and_reap(rs, vec![sqe])) {
        Ok(g) => g.cqes.iter().find(|c| c.0 == ud).map(|c| c.1 as i64).ok_or_else(|| format!("no completion with the stamped user_data: {:?} {:?}", g.cqes, g.problem)),
        Err(p) => Err(format!("panic: {p}")),
    }
}

/// (result, observation) of one world's run; `ring`: Some → through the wrapper, None → the direct call
fn one_world(c: &AddrCase, dir: &str, mut ring: Option<(&mut RingState, u64)>) -> Result<(i64, String), String> {
    unlink_paths(dir);
    let mut close: Vec<i32> = Vec::new();
    let out = (|| -> Result<(i64, String), String> {
        match c.op {
            "connect" => {
                // the listener
                let mut lfd = -1;
                if let Some(b) = bind_bytes(c.kind, dir) {
                    lfd = sock(libc::SOCK_STREAM);
                    close.push(lfd);
                    if bind_raw(lfd, &b) != 0 {
                        return Err(format!("harness: bind of the {} listener: {}", c.kind, errname(-(errno() as i64))));
                    }
                    unsafe { libc::listen(lfd, 4) };
                }
                // the argument, from the public API
                let arg: SocketArgUnix = match c.kind {
                    "path-short" => SocketAddressUnix::try_from_unix(&ustr(&format!("{dir}/s"))),
                    "path-107" => SocketAddressUnix::try_from_unix(&ustr(&long_path(dir))),
                    "path-nobody-listens" => SocketAddressUnix::try_from_unix(&ustr(&format!("{dir}/nobody"))),
                    "abstract-empty" => SocketAddressUnix::try_from_unix(UnixStr::EMPTY),
                    "unnamed" => {
                        let u = sock(libc::SOCK_STREAM);
                        close.push(u);
                        get_unix_sock_name(fd_of(u))
                    }
                    _ => get_unix_sock_name(fd_of(lfd)),
                }
                .map_err(|e| format!("harness: building the SocketArgUnix for {}: {e}", c.kind))?;
                let arg = Box::new(arg);
                let client = sock(libc::SOCK_STREAM);
                close.push(client);
                let res = match ring.as_mut() {
                    Some((rs, ud)) => ring_one(rs, unsafe { Sqe::new_connect_unix(fd_of(client), &arg, *ud, IoUringSQEFlags::empty()) }, *ud)?,
                    None => match connect_unix(fd_of(client), &arg) {
                        Ok(()) => 0,
                        Err(e) => e.code.map(|c| -(c.raw() as i64)).unwrap_or(i64::MIN),
                    },
                };
                let mut obs = String::from("no-listener");
                if lfd >= 0 {
                    let mut pf = libc::pollfd { fd: lfd, events: libc::POLLIN, revents: 0 };
                    unsafe { libc::poll(&mut pf, 1, 0) };
                    if pf.revents & libc::POLLIN != 0 {
                        let a = unsafe { libc::accept4(lfd, std::ptr::null_mut(), std::ptr::null_mut(), libc::SOCK_CLOEXEC) };
                        close.push(a);
                        obs = format!("connection-pending:true data-flows:{}", a >= 0 && flows(client, a));
                    } else {
                        obs = "connection-pending:false".into();
                    }
                }
                Ok((res, obs))
            }
            "accept" => {
                let lfd = sock(libc::SOCK_STREAM);
                close.push(lfd);
                let lp = format!("{dir}/listener\0");
                let _ = std::fs::remove_file(format!("{dir}/listener"));
                if bind_raw(lfd, lp.as_bytes()) != 0 {
                    return Err(format!("harness: bind listener: {}", errname(-(errno() as i64))));
                }
                unsafe { libc::listen(lfd, 4) };
                let client = sock(libc::SOCK_STREAM);
                close.push(client);
                if let Some(b) = bind_bytes(c.kind, dir) {
                    if bind_raw(client, &b) != 0 {
                        return Err(format!("harness: bind of the {} peer: {}", c.kind, errname(-(errno() as i64))));
                    }
                }
                let (sa, len) = raw_sockaddr(&lp.as_bytes()[..lp.len() - 1]);
                if unsafe { libc::connect(client, &sa as *const _ as *const libc::sockaddr, len + 1) } != 0 {
                    return Err(format!("harness: pre-connect: {}", errname(-(errno() as i64))));
                }
                let peer_name = sockname(client);
                // The address buffer is an OUT parameter: what it holds beforehand must not matter, so it is
                // pre-filled with a pattern.  The length word sits at the start of a canary block, so that a write
                // beyond it is seen instead of damaging the harness.
                let mut addr: Box<libc::sockaddr_un> = Box::new(unsafe { std::mem::zeroed() });
                unsafe { std::ptr::write_bytes(&mut *addr as *mut libc::sockaddr_un as *mut u8, 0x6e, std::mem::size_of::<libc::sockaddr_un>()) };
                let mut block: Box<[u64; 32]> = Box::new([0xC5C5_C5C5_C5C5_C5C5; 32]);
                block[0] = std::mem::size_of::<libc::sockaddr_un>() as u64;
                let (res, got_len): (i64, u64) = match ring.as_mut() {
                    Some((rs, ud)) => {
                        let (ap, lp2): (*mut SocketAddressUnix, *mut u64) = if c.variant { ((&mut *addr as *mut libc::sockaddr_un).cast(), block.as_mut_ptr()) } else { (std::ptr::null_mut(), std::ptr::null_mut()) };
                        let r = ring_one(rs, unsafe { Sqe::new_accept_unix(fd_of(lfd), ap, lp2, SocketFlags::SOCK_CLOEXEC, *ud, IoUringSQEFlags::empty()) }, *ud)?;
                        (r, block[0])
                    }
                    None => {
                        let r = if c.variant {
                            unsafe { libc::accept4(lfd, (&mut *addr as *mut libc::sockaddr_un).cast(), block.as_mut_ptr().cast(), libc::SOCK_CLOEXEC) }
                        } else {
                            unsafe { libc::accept4(lfd, std::ptr::null_mut(), std::ptr::null_mut(), libc::SOCK_CLOEXEC) }
                        };
                        (rk(r as i64), block[0] & 0xffff_ffff)
                    }
                };
                let canary_intact = block[1..].iter().all(|w| *w == 0xC5C5_C5C5_C5C5_C5C5);
                let mut obs = String::new();
                if res >= 0 {
                    close.push(res as i32);
                    obs = format!("data-flows:{}", flows(client, res as i32));
                    if c.variant {
                        let n = (got_len as usize).min(std::mem::size_of::<libc::sockaddr_un>());
                        let bytes: &[u8] = unsafe { std::slice::from_raw_parts(&*addr as *const _ as *const u8, n) };
                        obs += &format!(" address-length:{got_len} equals-the-peer's-name:{} memory-beyond-the-length-word-untouched:{canary_intact} ", bytes == &peer_name[..]);
                        // autobound names differ from bind to bind: everything else is shown literally
                        if c.kind != "abstract-autobound" {
                            obs += &show_bytes(&bytes[..bytes.len().min(40)]);
                        }
                    }
                }
                let _ = std::fs::remove_file(format!("{dir}/listener"));
                Ok((res, obs))
            }
            _ => {
                let ty = if c.kind == "stream" { libc::SOCK_STREAM } else { libc::SOCK_DGRAM };
                let mut sp = [0i32; 2];
                assert_eq!(0, unsafe { libc::socketpair(libc::AF_UNIX, ty | libc::SOCK_CLOEXEC, 0, sp.as_mut_ptr()) });
                close.extend(sp);
                let payload: &'static [u8] = b"addressed-payload";
                let name = ustr("some-name");
                let res = match ring.as_mut() {
                    Some((rs, ud)) => {
                        let ios: Box<[IoSlice<'static>; 1]> = Box::new([IoSlice::new(payload)]);
                        let ios_ref: &'static [IoSlice<'static>] = unsafe { std::slice::from_raw_parts(ios.as_ptr(), 1) };
                        let nm: Option<&UnixStr> = if c.variant { Some(unsafe { &*(&*name as *const UnixStr) }) } else { None };
                        let guard = Box::new(MsgHdrBorrow::create_send(nm, ios_ref, None));
                        ring_one(rs, unsafe { Sqe::new_sendmsg(fd_of(sp[0]), &guard, 0, *ud, IoUringSQEFlags::empty()) }, *ud)?
                    }
                    None => {
                        let mut iov = libc::iovec { iov_base: payload.as_ptr() as *mut _, iov_len: payload.len() };
                        let mut mh: libc::msghdr = unsafe { std::mem::zeroed() };
                        mh.msg_iov = &mut iov;
                        mh.msg_iovlen = 1;
                        if c.variant {
                            mh.msg_name = name.as_ptr() as *mut _;
                            mh.msg_namelen = name.len() as u32;
                        }
                        rk(unsafe { libc::sendmsg(sp[0], &mh, 0) } as i64)
                    }
                };
                let mut b = [0u8; 64];
                let n = unsafe { libc::recv(sp[1], b.as_mut_ptr().cast(), 64, libc::MSG_DONTWAIT) };
                Ok((res, format!("peer-received[{}]", show_bytes(&b[..n.max(0) as usize]))))
            }
        }
    })();
    for fd in close {
        if fd >= 0 {
            unsafe { libc::close(fd) };
        }
    }
    unlink_paths(dir);
    out
}

fn case_json(c: &AddrCase) -> Value {
    json!({"phase": "ops", "scenario": "addr", "op": c.op, "kind": c.kind, "variant": c.variant})
}

pub fn addr_case(dir: &str, rs: &mut RingState, c: &AddrCase, r: &mut Report, verbose: bool) {
    r.eval();
    r.nontrivial_unique();
    let cj = case_json(c);
    set_case(&cj.to_string());
    unsafe { libc::alarm(30) };
    let ud = ud_for(0xadd0_0000 + r.evaluations);
    let u = one_world(c, dir, Some((rs, ud)));
    let d = one_world(c, dir, None);
    unsafe { libc::alarm(0) };
    clear_case();
    let show = |x: i64| if x < 0 { errname(x) } else { x.to_string() };
    if verbose {
        println!("{} {} {}: wrapper {:?}, direct {:?}", c.op, c.kind, c.variant, u, d);
    }
    let what = match c.op {
        "connect" => format!("connect to an address of kind {}", c.kind),
        "accept" => format!("accept of a peer with a {} address, address out-parameters {}", c.kind, if c.variant { "given" } else { "null" }),
        _ => format!("sendmsg on a {} socket pair, {}", c.kind, if c.variant { "with a name" } else { "without a name" }),
    };
    match (u, d) {
        (Ok((ru, ou)), Ok((rd, od))) => {
            r.outcome(&format!("addr:{}:{}", c.op, if rd < 0 { "error" } else { "ok" }));
            let equal = if c.op == "accept" && rd >= 0 { ru >= 0 } else { ru == rd };
            if !equal {
                r.violation(&format!("C18:{}:result-differs", c.op), format!("{what}: completion res {} — the direct call with the same argument gives {}", show(ru), show(rd)), cj);
            } else if ou != od {
                r.violation(&format!("C18:{}:side-effect-differs", c.op), format!("{what}: after the wrapper's operation: {ou}; after the direct call: {od}"), cj);
            }
        }
        (Err(e), Ok(_)) if !e.starts_with("harness:") => r.violation(&format!("C18:{}:missing-completion", c.op), format!("{what}: {e}"), cj),
        (a, b) => {
            // the harness could not set the case up (e.g. the address is taken in this namespace): not a verdict
            r.outcome("addr:not-set-up");
            r.note(format!("addr case {} {} not set up: {:?} / {:?}", c.op, c.kind, a.err(), b.err()));
        }
    }
}

/// all cases, in a network namespace of the shard's own when it may have one
pub fn shard(r: &mut Report, verbose: bool, only: Option<&AddrCase>) {
    crate::ops::install_watchdog();
    let private = unsafe { libc::unshare(libc::CLONE_NEWNET) } == 0;
    r.outcome(if private { "addr:own-network-namespace" } else { "addr:shared-network-namespace" });
    let mut sh = Shard::new("addr");
    let dir = format!("{}/a", sh.base);
    std::fs::create_dir_all(&dir).unwrap();
    let _ = cstr(&dir);
    match sh.make_ring(4, 0) {
        Ok(mut rs) => {
            for c in addr_cases() {
                if only.map(|o| o.op == c.op && o.kind == c.kind && o.variant == c.variant).unwrap_or(true) {
                    addr_case(&dir, &mut rs, &c, r, verbose);
                }
            }
            drop(rs);
        }
        Err(e) => r.cap(format!("addr: ring set-up refused: {e}")),
    }
    let _ = &mut sh;
    sh.finish();
}

pub fn replay(v: &Value, r: &mut Report) {
    let want = (v["op"].as_str().unwrap_or(""), v["kind"].as_str().unwrap_or(""), v["variant"].as_bool().unwrap_or(false));
    match addr_cases().into_iter().find(|c| (c.op, c.kind, c.variant) == want) {
        Some(c) => shard(r, true, Some(&c)),
        None => println!("no such address case"),
    }
}
