//! The operation alphabet of the "ops" phase: per symbol, how the harness prepares the
//! resources of one batch entry (identically in the wrapper world and in the reference
//! world), how the entry becomes an SQE through the rusl constructors, how the
//! equivalent direct system call is made (libc — independent of rusl), and what is
//! observed afterwards (side effects as a canonical string that must be equal in the twins).

use rusl::platform::{
    AddressFamily, ControlMessageSend, Fd, IoSlice, IoSliceMut, IoUringSQEFlags, IoUringSubmissionQueueEntry as Sqe, Mode, MsgHdrBorrow, OpenFlags,
    PollAddMultiFlags, PollEvents, RenameFlags, SendDropGuard, SocketAddressUnix, SocketArgUnix, SocketFlags, SocketOptions, SocketType, StatxFlags,
    StatxMask, TimeSpec,
};
use rusl::string::unix_str::UnixString;
use std::ffi::CString;

#[derive(Clone, Copy, PartialEq, Eq, Debug)]
pub enum Op {
    Readv,
    Writev,
    ReadFixed,
    WriteFixed,
    Openat,
    Close,
    Statx,
    Mkdirat,
    Unlinkat,
    Renameat,
    Socket,
    Connect,
    Accept,
    Sendmsg,
    Recvmsg,
    Timeout,
    PollAdd,
}

impl Op {
    pub fn name(self) -> &'static str {
        match self {
            Op::Readv => "readv",
            Op::Writev => "writev",
            Op::ReadFixed => "read_fixed",
            Op::WriteFixed => "write_fixed",
            Op::Openat => "openat",
            Op::Close => "close",
            Op::Statx => "statx",
            Op::Mkdirat => "mkdirat",
            Op::Unlinkat => "unlinkat",
            Op::Renameat => "renameat",
            Op::Socket => "socket",
            Op::Connect => "connect",
            Op::Accept => "accept",
            Op::Sendmsg => "sendmsg",
            Op::Recvmsg => "recvmsg",
            Op::Timeout => "timeout",
            Op::PollAdd => "poll_add",
        }
    }
    pub fn opcode(self) -> u8 {
        use crate::ops_raw::*;
        match self {
            Op::Readv => OP_READV,
            Op::Writev => OP_WRITEV,
            Op::ReadFixed => OP_READ_FIXED,
            Op::WriteFixed => OP_WRITE_FIXED,
            Op::Openat => OP_OPENAT,
            Op::Close => OP_CLOSE,
            Op::Statx => OP_STATX,
            Op::Mkdirat => OP_MKDIRAT,
            Op::Unlinkat => OP_UNLINKAT,
            Op::Renameat => OP_RENAMEAT,
            Op::Socket => OP_SOCKET,
            Op::Connect => OP_CONNECT,
            Op::Accept => OP_ACCEPT,
            Op::Sendmsg => OP_SENDMSG,
            Op::Recvmsg => OP_RECVMSG,
            Op::Timeout => OP_TIMEOUT,
            Op::PollAdd => OP_POLL_ADD,
        }
    }
    /// the completion result is a new descriptor: compared as "valid new fd", not by number
    pub fn returns_fd(self) -> bool {
        matches!(self, Op::Openat | Op::Socket | Op::Accept)
    }
}

pub struct Sym {
    pub name: &'static str,
    pub op: Op,
    pub v: u8,
}

macro_rules! syms { ($(($n:expr, $o:ident, $v:expr)),* $(,)?) => { &[ $( Sym { name: $n, op: Op::$o, v: $v } ),* ] } }

/// The alphabet.  Variant 0.. are listed per operation; every operation has a failing variant.
pub const SYMS: &[Sym] = syms![
    ("readv:full", Readv, 0),
    ("readv:short", Readv, 1),
    ("readv:badfd", Readv, 2),
    ("writev:ok", Writev, 0),
    ("writev:rdonly-fd", Writev, 1),
    ("read_fixed:ok", ReadFixed, 0),
    ("read_fixed:regfile", ReadFixed, 1),
    ("read_fixed:badfd", ReadFixed, 2),
    ("write_fixed:ok", WriteFixed, 0),
    ("write_fixed:rdonly-fd", WriteFixed, 1),
    ("openat:existing", Openat, 0),
    ("openat:creat-excl", Openat, 1),
    ("openat:missing", Openat, 2),
    ("close:valid", Close, 0),
    ("close:badfd", Close, 1),
    ("statx:existing", Statx, 0),
    ("statx:missing", Statx, 1),
    ("mkdirat:new", Mkdirat, 0),
    ("mkdirat:existing", Mkdirat, 1),
    ("unlinkat:file", Unlinkat, 0),
    ("unlinkat:rmdir", Unlinkat, 1),
    ("unlinkat:missing", Unlinkat, 2),
    ("renameat:ok", Renameat, 0),
    ("renameat:noreplace-existing", Renameat, 1),
    ("renameat:missing", Renameat, 2),
    ("socket:unix-stream", Socket, 0),
    ("socket:inet-dgram", Socket, 1),
    ("socket:bad-proto", Socket, 2),
    ("connect:ok", Connect, 0),
    ("connect:missing", Connect, 1),
    ("accept:ok", Accept, 0),
    ("accept:notsock", Accept, 1),
    ("sendmsg:plain", Sendmsg, 0),
    ("sendmsg:scm-rights", Sendmsg, 1),
    ("sendmsg:notsock", Sendmsg, 2),
    ("recvmsg:plain", Recvmsg, 0),
    ("recvmsg:notsock", Recvmsg, 1),
    ("timeout:1ms", Timeout, 0),
    ("timeout:abs-past", Timeout, 1),
    ("poll_add:pipe-in", PollAdd, 0),
    ("poll_add:pipe-out", PollAdd, 1),
    ("poll_add:badfd", PollAdd, 2),
];

pub fn sym_index(name: &str) -> Option<usize> {
    SYMS.iter().position(|s| s.name == name)
}

pub const DATA: &[u8] = b"hello uring world\n"; // 18 bytes
pub const REG_CONTENT: &[u8] = b"registered-file-content!";
pub const BAD_FD: i32 = 99_999;
pub const FILL: u8 = 0xEE;
pub const FIXED_SLOT: usize = 64;
pub const N_FIXED: usize = 16; // 0..8 read targets, 8..16 write sources

pub fn errno() -> i32 {
    unsafe { *libc::__errno_location() }
}
/// raw-kernel-style result of a libc call
pub fn rk(r: i64) -> i64 {
    if r == -1 {
        -(errno() as i64)
    } else {
        r
    }
}
pub fn cstr(s: &str) -> CString {
    CString::new(s).unwrap()
}
pub fn ustr(s: &str) -> UnixString {
    UnixString::try_from_string(s.to_string()).expect("unix string")
}
pub fn mode(bits: u32) -> Mode {
    // Mode is #[repr(transparent)] over u32 with a crate-private field
    unsafe { std::mem::transmute::<u32, Mode>(bits) }
}
pub fn fd_of(n: i32) -> Fd {
    Fd::try_new(n).expect("non-negative fd")
}

pub fn errname(e: i64) -> String {
    let n = match (-e) as i32 {
        libc::ENOENT => "ENOENT",
        libc::EBADF => "EBADF",
        libc::EEXIST => "EEXIST",
        libc::ETIME => "ETIME",
        libc::ECANCELED => "ECANCELED",
        libc::ENOTSOCK => "ENOTSOCK",
        libc::EPROTONOSUPPORT => "EPROTONOSUPPORT",
        libc::EINVAL => "EINVAL",
        libc::EFAULT => "EFAULT",
        libc::ENOTDIR => "ENOTDIR",
        libc::ECONNREFUSED => "ECONNREFUSED",
        libc::EAGAIN => "EAGAIN",
        libc::EOPNOTSUPP => "EOPNOTSUPP",
        libc::EAFNOSUPPORT => "EAFNOSUPPORT",
        libc::ENOTEMPTY => "ENOTEMPTY",
        libc::EISDIR => "EISDIR",
        _ => return format!("errno{}", -e),
    };
    n.to_string()
}

/// One of the twin directories with its static content.
pub struct World {
    pub dir: String,
    pub dfd: i32,
    pub fd_data: i32,
}

fn write_file(path: &str, content: &[u8], mode: u32) {
    unsafe {
        let c = cstr(path);
        let fd = libc::open(c.as_ptr(), libc::O_WRONLY | libc::O_CREAT | libc::O_TRUNC, mode);
        assert!(fd >= 0, "harness: create {path}: errno {}", errno());
        assert_eq!(content.len() as isize, libc::write(fd, content.as_ptr() as *const _, content.len()));
        libc::fchmod(fd, mode);
        libc::close(fd);
    }
}

impl World {
    /// Creates the directory with the static content and the persistent per-entry files of `batch`.
    pub fn create(dir: &str, batch: &[usize]) -> World {
        unsafe {
            let c = cstr(dir);
            assert_eq!(0, libc::mkdir(c.as_ptr(), 0o755), "harness: mkdir {dir}: errno {}", errno());
            write_file(&format!("{dir}/data.txt"), DATA, 0o644);
            let e = cstr(&format!("{dir}/exdir"));
            assert_eq!(0, libc::mkdir(e.as_ptr(), 0o755));
            for (pos, &s) in batch.iter().enumerate() {
                let sy = &SYMS[s];
                match (sy.op, sy.v) {
                    (Op::Writev, 0) | (Op::WriteFixed, 0) => write_file(&format!("{dir}/w{pos}"), b"", 0o644),
                    (Op::Unlinkat, 0) => write_file(&format!("{dir}/victim{pos}"), b"victim", 0o600),
                    (Op::Unlinkat, 1) => {
                        let p = cstr(&format!("{dir}/rmd{pos}"));
                        assert_eq!(0, libc::mkdir(p.as_ptr(), 0o700));
                    }
                    (Op::Renameat, 0) => write_file(&format!("{dir}/old{pos}"), format!("renamed-{pos}").as_bytes(), 0o640),
                    (Op::Renameat, 1) => write_file(&format!("{dir}/keep{pos}"), b"keep", 0o640),
                    _ => {}
                }
            }
            let dfd = libc::open(c.as_ptr(), libc::O_RDONLY | libc::O_DIRECTORY | libc::O_CLOEXEC);
            assert!(dfd >= 0);
            let d = cstr(&format!("{dir}/data.txt"));
            let fd_data = libc::open(d.as_ptr(), libc::O_RDONLY | libc::O_CLOEXEC);
            assert!(fd_data >= 0);
            World { dir: dir.to_string(), dfd, fd_data }
        }
    }
    /// names, kinds, permission bits, sizes and contents — everything except inode numbers and times
    pub fn tree(&self) -> Vec<String> {
        let mut out = Vec::new();
        fn walk(dir: &str, rel: &str, out: &mut Vec<String>) {
            let Ok(rd) = std::fs::read_dir(dir) else {
                out.push(format!("{rel}: unreadable"));
                return;
            };
            for e in rd.flatten() {
                use std::os::unix::fs::{FileTypeExt, PermissionsExt};
                let name = e.file_name().to_string_lossy().to_string();
                let p = format!("{dir}/{name}");
                let Ok(md) = std::fs::symlink_metadata(&p) else { continue };
                let ft = md.file_type();
                let kind = if ft.is_dir() {
                    "dir"
                } else if ft.is_file() {
                    "file"
                } else if ft.is_socket() {
                    "sock"
                } else if ft.is_symlink() {
                    "link"
                } else {
                    "other"
                };
                let modebits = md.permissions().mode() & 0o7777;
                let content = if ft.is_file() { common::show_bytes(&std::fs::read(&p).unwrap_or_default()) } else { String::new() };
                out.push(format!("{rel}{name} {kind} {modebits:o} {content}"));
                if ft.is_dir() {
                    walk(&p, &format!("{rel}{name}/"), out);
                }
            }
        }
        walk(&self.dir, "", &mut out);
        out.sort();
        out
    }
    pub fn destroy(self) {
        unsafe {
            libc::close(self.dfd);
            libc::close(self.fd_data);
        }
        let _ = std::fs::remove_dir_all(&self.dir);
    }
}

/// Where the wrapper-side fixed-buffer operations of one ring find their registered memory.
#[derive(Clone, Copy)]
pub struct FixedArea {
    pub base: *mut u8,
}
impl FixedArea {
    pub fn slot(&self, i: usize) -> *mut u8 {
        assert!(i < N_FIXED);
        unsafe { self.base.add(i * FIXED_SLOT) }
    }
}

/// Everything one batch entry needs, kept at stable heap addresses until its completion was reaped.
pub struct Slot {
    pub sym: usize,
    pub pos: usize,
    pub ud: u64,
    p1: Option<UnixString>,
    p2: Option<UnixString>,
    c1: CString,
    c2: CString,
    buf: Vec<u8>,
    iov: Vec<libc::iovec>,
    req_len: usize,
    stx: Box<[u64; 32]>,
    ts: Box<TimeSpec>,
    /// operation-specific descriptors: `a` is the one the operation acts on
    a: i32,
    b: i32,
    sockarg: Option<Box<SocketArgUnix>>,
    sun: Box<libc::sockaddr_un>,
    sun_len: u32,
    guard: Option<Box<SendDropGuard<'static>>>,
    ios: Vec<IoSlice<'static>>,
    pass: Vec<Fd>,
    rhdr: Option<Box<MsgHdrBorrow<'static>>>,
    riov: Vec<IoSliceMut<'static>>,
    ctrl: Vec<u8>,
    payload: Vec<u8>,
    close_after: Vec<i32>,
    unlink_after: Vec<String>,
    fixed: Option<FixedArea>,
}

fn sockaddr_un(path: &str) -> (Box<libc::sockaddr_un>, u32) {
    let mut sa: libc::sockaddr_un = unsafe { std::mem::zeroed() };
    sa.sun_family = libc::AF_UNIX as u16;
    assert!(path.len() < 107, "harness: socket path too long");
    for (i, b) in path.bytes().enumerate() {
        sa.sun_path[i] = b as libc::c_char;
    }
    (Box::new(sa), (2 + path.len() + 1) as u32)
}

fn listener(path: &str) -> i32 {
    unsafe {
        let s = libc::socket(libc::AF_UNIX, libc::SOCK_STREAM | libc::SOCK_CLOEXEC, 0);
        assert!(s >= 0, "harness: socket: errno {}", errno());
        let (sa, len) = sockaddr_un(path);
        assert_eq!(0, libc::bind(s, &*sa as *const _ as *const libc::sockaddr, len), "harness: bind {path}: errno {}", errno());
        assert_eq!(0, libc::listen(s, 8));
        s
    }
}
fn unix_socket() -> i32 {
    let s = unsafe { libc::socket(libc::AF_UNIX, libc::SOCK_STREAM | libc::SOCK_CLOEXEC, 0) };
    assert!(s >= 0);
    s
}
fn socketpair() -> (i32, i32) {
    let mut sp = [0i32; 2];
    assert_eq!(0, unsafe { libc::socketpair(libc::AF_UNIX, libc::SOCK_STREAM | libc::SOCK_CLOEXEC, 0, sp.as_mut_ptr()) });
    (sp[0], sp[1])
}
fn pipe_nb() -> (i32, i32) {
    let mut p = [0i32; 2];
    assert_eq!(0, unsafe { libc::pipe2(p.as_mut_ptr(), libc::O_CLOEXEC | libc::O_NONBLOCK) });
    (p[0], p[1])
}

impl Slot {
    /// Harness-side preparation of entry `pos` (symbol `sym`) in world `w`.  `fixed` is Some in the
    /// wrapper world (registered memory of the ring), None in the reference world.
    pub fn prepare(w: &World, pos: usize, sym: usize, ud: u64, fixed: Option<FixedArea>) -> Slot {
        let sy = &SYMS[sym];
        let mut s = Slot {
            sym,
            pos,
            ud,
            p1: None,
            p2: None,
            c1: CString::default(),
            c2: CString::default(),
            buf: vec![FILL; FIXED_SLOT],
            iov: Vec::new(),
            req_len: 0,
            stx: Box::new([0u64; 32]),
            ts: Box::new(TimeSpec::new(0, 1_000_000)),
            a: -1,
            b: -1,
            sockarg: None,
            sun: Box::new(unsafe { std::mem::zeroed() }),
            sun_len: 0,
            guard: None,
            ios: Vec::new(),
            pass: Vec::new(),
            rhdr: None,
            riov: Vec::new(),
            ctrl: vec![0u8; 64],
            payload: Vec::new(),
            close_after: Vec::new(),
            unlink_after: Vec::new(),
            fixed,
        };
        let dir = &w.dir;
        let set1 = |s: &mut Slot, p: String| {
            s.c1 = cstr(&p);
            s.p1 = Some(ustr(&p));
        };
        let set2 = |s: &mut Slot, p: String| {
            s.c2 = cstr(&p);
            s.p2 = Some(ustr(&p));
        };
        let open_w = |s: &mut Slot| {
            let c = cstr(&format!("{dir}/w{pos}"));
            let fd = unsafe { libc::open(c.as_ptr(), libc::O_RDWR | libc::O_CLOEXEC) };
            assert!(fd >= 0, "harness: open w{pos}: errno {}", errno());
            s.a = fd;
            s.close_after.push(fd);
        };
        match (sy.op, sy.v) {
            (Op::Readv, v) => {
                let base = s.buf.as_mut_ptr();
                let (l0, l1) = if v == 1 { (16, 48) } else { (8, DATA.len() - 8) };
                s.iov = vec![
                    libc::iovec { iov_base: base as *mut _, iov_len: l0 },
                    libc::iovec { iov_base: unsafe { base.add(l0) } as *mut _, iov_len: l1 },
                ];
                s.req_len = l0 + l1;
                s.a = if v == 2 { BAD_FD } else { w.fd_data };
            }
            (Op::Writev, v) => {
                s.payload = format!("written-by-entry-{pos}\n").into_bytes();
                let base = s.payload.as_mut_ptr();
                let n = s.payload.len();
                s.iov = vec![
                    libc::iovec { iov_base: base as *mut _, iov_len: 5 },
                    libc::iovec { iov_base: unsafe { base.add(5) } as *mut _, iov_len: n - 5 },
                ];
                s.req_len = n;
                if v == 0 {
                    open_w(&mut s);
                } else {
                    s.a = w.fd_data;
                }
            }
            (Op::ReadFixed, v) => {
                s.req_len = if v == 1 { REG_CONTENT.len() } else { DATA.len() };
                s.a = match v {
                    0 => w.fd_data,
                    1 => -2, // fixed file 0 (wrapper world) / its real descriptor (reference world)
                    _ => BAD_FD,
                };
                if let Some(f) = fixed {
                    unsafe { std::ptr::write_bytes(f.slot(pos), FILL, FIXED_SLOT) };
                }
            }
            (Op::WriteFixed, v) => {
                s.payload = format!("fixed-write-{pos}\n").into_bytes();
                s.req_len = s.payload.len();
                if let Some(f) = fixed {
                    unsafe {
                        std::ptr::write_bytes(f.slot(8 + pos), FILL, FIXED_SLOT);
                        std::ptr::copy_nonoverlapping(s.payload.as_ptr(), f.slot(8 + pos), s.payload.len());
                    }
                }
                if v == 0 {
                    open_w(&mut s);
                } else {
                    s.a = w.fd_data;
                }
            }
            (Op::Openat, 0) => set1(&mut s, "data.txt".into()),
            (Op::Openat, 1) => set1(&mut s, format!("c{pos}")),
            (Op::Openat, _) => set1(&mut s, format!("{dir}/missing")),
            (Op::Close, 0) => {
                let (r, wr) = pipe_nb();
                s.a = wr;
                s.b = r;
                s.close_after.push(r);
            }
            (Op::Close, _) => s.a = BAD_FD,
            (Op::Statx, 0) => set1(&mut s, "data.txt".into()),
            (Op::Statx, _) => set1(&mut s, format!("{dir}/missing")),
            (Op::Mkdirat, 0) => set1(&mut s, format!("nd{pos}")),
            (Op::Mkdirat, _) => set1(&mut s, format!("{dir}/exdir")),
            (Op::Unlinkat, 0) => set1(&mut s, format!("victim{pos}")),
            (Op::Unlinkat, 1) => set1(&mut s, format!("rmd{pos}")),
            (Op::Unlinkat, _) => set1(&mut s, format!("{dir}/missing")),
            (Op::Renameat, 0) => {
                set1(&mut s, format!("old{pos}"));
                set2(&mut s, format!("new{pos}"));
            }
            (Op::Renameat, 1) => {
                set1(&mut s, format!("keep{pos}"));
                set2(&mut s, format!("{dir}/data.txt"));
            }
            (Op::Renameat, _) => {
                set1(&mut s, format!("{dir}/missing"));
                set2(&mut s, format!("{dir}/missing2"));
            }
            (Op::Socket, _) => {}
            (Op::Connect, v) => {
                let lp = format!("{dir}/ls{pos}");
                if v == 0 {
                    s.b = listener(&lp);
                    s.close_after.push(s.b);
                    s.unlink_after.push(lp.clone());
                }
                s.a = unix_socket();
                s.close_after.push(s.a);
                let target = if v == 0 { lp } else { format!("{dir}/nolisten") };
                let (sa, len) = sockaddr_un(&target);
                s.sun = sa;
                s.sun_len = len;
                let up = ustr(&target);
                s.sockarg = Some(Box::new(SocketAddressUnix::try_from_unix(&up).expect("socket address")));
            }
            (Op::Accept, 0) => {
                let lp = format!("{dir}/la{pos}");
                s.a = listener(&lp);
                s.close_after.push(s.a);
                s.unlink_after.push(lp.clone());
                s.b = unix_socket();
                s.close_after.push(s.b);
                let (sa, len) = sockaddr_un(&lp);
                assert_eq!(0, unsafe { libc::connect(s.b, &*sa as *const _ as *const libc::sockaddr, len) }, "harness: pre-connect: errno {}", errno());
            }
            (Op::Accept, _) => s.a = w.fd_data,
            (Op::Sendmsg, v) => {
                s.payload = format!("sendmsg-payload-{pos}").into_bytes();
                s.req_len = s.payload.len();
                if v == 2 {
                    s.a = w.fd_data;
                } else {
                    let (x, y) = socketpair();
                    s.a = x;
                    s.b = y;
                    s.close_after.push(x);
                    s.close_after.push(y);
                }
                if v == 1 {
                    s.pass = vec![fd_of(w.fd_data)];
                }
            }
            (Op::Recvmsg, v) => {
                s.payload = format!("recvmsg-payload-{pos}").into_bytes();
                s.req_len = s.payload.len();
                if v == 1 {
                    s.a = w.fd_data;
                } else {
                    let (x, y) = socketpair();
                    s.a = x;
                    s.b = y;
                    s.close_after.push(x);
                    s.close_after.push(y);
                    let n = unsafe { libc::send(y, s.payload.as_ptr() as *const _, s.payload.len(), 0) };
                    assert_eq!(n as usize, s.payload.len());
                }
            }
            (Op::Timeout, 0) => {}
            (Op::Timeout, _) => {
                let mut now: libc::timespec = unsafe { std::mem::zeroed() };
                unsafe { libc::clock_gettime(libc::CLOCK_MONOTONIC, &mut now) };
                s.ts = Box::new(TimeSpec::new(now.tv_sec, now.tv_nsec));
            }
            (Op::PollAdd, v) => {
                if v == 2 {
                    s.a = BAD_FD;
                } else {
                    let (r, wr) = pipe_nb();
                    s.close_after.push(r);
                    s.close_after.push(wr);
                    if v == 0 {
                        assert_eq!(1, unsafe { libc::write(wr, b"x".as_ptr() as *const _, 1) });
                        s.a = r;
                    } else {
                        s.a = wr;
                    }
                }
            }
        }
        s
    }

    pub fn op(&self) -> Op {
        SYMS[self.sym].op
    }
    fn v(&self) -> u8 {
        SYMS[self.sym].v
    }
    /// bytes a read/write asks for (a shorter transfer severs a link chain)
    pub fn requested_len(&self) -> usize {
        self.req_len
    }
}

// ---------------------------------------------------------------------------
// the entry as a submission queue entry, through the rusl constructors

impl Slot {
    /// `link`: 0 = no link flag, 1 = IOSQE_IO_LINK, 2 = IOSQE_IO_HARDLINK (both taken from the wrapper's table)
    pub fn to_sqe(&mut self, w: &World, link: u8) -> Sqe {
        let lf = match link {
            1 => IoUringSQEFlags::IOSQE_IO_LINK,
            2 => IoUringSQEFlags::IOSQE_IO_HARDLINK,
            _ => IoUringSQEFlags::empty(),
        };
        let ud = self.ud;
        let dfd = Some(fd_of(w.dfd));
        let pos = self.pos;
        let v = self.v();
        unsafe {
            match self.op() {
                Op::Readv => Sqe::new_readv(fd_of(self.a), self.iov.as_ptr() as usize, self.iov.len() as u32, ud, lf),
                Op::Writev => Sqe::new_writev(fd_of(self.a), self.iov.as_ptr() as usize, self.iov.len() as u32, ud, lf),
                Op::ReadFixed => {
                    let f = self.fixed.expect("fixed area");
                    let (fd, fl) = if v == 1 { (fd_of(0), lf | IoUringSQEFlags::IOSQE_FIXED_FILE) } else { (fd_of(self.a), lf) };
                    Sqe::new_readv_fixed(fd, pos as u16, f.slot(pos) as u64, self.req_len as u32, ud, fl)
                }
                Op::WriteFixed => {
                    let f = self.fixed.expect("fixed area");
                    Sqe::new_writev_fixed(fd_of(self.a), (8 + pos) as u16, f.slot(8 + pos) as u64, self.req_len as u32, ud, lf)
                }
                Op::Openat => {
                    let p = self.p1.as_ref().unwrap();
                    match v {
                        0 => Sqe::new_openat(dfd, p, OpenFlags::O_RDONLY | OpenFlags::O_CLOEXEC, Mode::empty(), ud, lf),
                        1 => Sqe::new_openat(dfd, p, OpenFlags::O_CREAT | OpenFlags::O_EXCL | OpenFlags::O_WRONLY, mode(0o640), ud, lf),
                        _ => Sqe::new_openat(None, p, OpenFlags::O_RDONLY, Mode::empty(), ud, lf),
                    }
                }
                Op::Close => Sqe::new_close(fd_of(self.a), ud, lf),
                Op::Statx => {
                    let p = self.p1.as_ref().unwrap();
                    let buf = self.stx.as_mut_ptr() as *mut rusl::platform::Statx;
                    if v == 0 {
                        Sqe::new_statx(dfd, p, StatxFlags::empty(), StatxMask::STATX_BASIC_STATS, buf, ud, lf)
                    } else {
                        Sqe::new_statx(None, p, StatxFlags::empty(), StatxMask::STATX_SIZE, buf, ud, lf)
                    }
                }
                Op::Mkdirat => {
                    let p = self.p1.as_ref().unwrap();
                    if v == 0 {
                        Sqe::new_mkdirat(dfd, p, mode(0o750), ud, lf)
                    } else {
                        Sqe::new_mkdirat(None, p, mode(0o755), ud, lf)
                    }
                }
                Op::Unlinkat => {
                    let p = self.p1.as_ref().unwrap();
                    match v {
                        0 => Sqe::new_unlink_at(dfd, p, false, ud, lf),
                        1 => Sqe::new_unlink_at(dfd, p, true, ud, lf),
                        _ => Sqe::new_unlink_at(None, p, false, ud, lf),
                    }
                }
                Op::Renameat => {
                    let a = self.p1.as_ref().unwrap();
                    let b = self.p2.as_ref().unwrap();
                    match v {
                        0 => Sqe::new_rename_at(dfd, dfd, a, b, RenameFlags::empty(), ud, lf),
                        1 => Sqe::new_rename_at(dfd, None, a, b, RenameFlags::RENAME_NOREPLACE, ud, lf),
                        _ => Sqe::new_rename_at(None, None, a, b, RenameFlags::empty(), ud, lf),
                    }
                }
                Op::Socket => match v {
                    0 => Sqe::new_socket(AddressFamily::AF_UNIX, SocketOptions::new(SocketType::SOCK_STREAM, SocketFlags::SOCK_CLOEXEC), 0, ud, lf),
                    1 => Sqe::new_socket(AddressFamily::AF_INET, SocketOptions::new(SocketType::SOCK_DGRAM, SocketFlags::empty()), 17, ud, lf),
                    _ => Sqe::new_socket(AddressFamily::AF_INET, SocketOptions::new(SocketType::SOCK_STREAM, SocketFlags::empty()), 17, ud, lf),
                },
                Op::Connect => Sqe::new_connect_unix(fd_of(self.a), self.sockarg.as_ref().unwrap(), ud, lf),
                Op::Accept => Sqe::new_accept_unix(fd_of(self.a), std::ptr::null_mut(), std::ptr::null_mut(), SocketFlags::SOCK_CLOEXEC, ud, lf),
                Op::Sendmsg => {
                    // the borrowed slices live in this Slot (heap), which outlives the completion
                    let pl: &'static [u8] = std::slice::from_raw_parts(self.payload.as_ptr(), self.payload.len());
                    self.ios = vec![IoSlice::new(pl)];
                    let ios: &'static [IoSlice<'static>] = std::slice::from_raw_parts(self.ios.as_ptr(), 1);
                    let ctl = if v == 1 {
                        let fds: &'static [Fd] = std::slice::from_raw_parts(self.pass.as_ptr(), self.pass.len());
                        Some(ControlMessageSend::ScmRights(fds))
                    } else {
                        None
                    };
                    self.guard = Some(Box::new(MsgHdrBorrow::create_send(None, ios, ctl)));
                    Sqe::new_sendmsg(fd_of(self.a), self.guard.as_ref().unwrap(), 0, ud, lf)
                }
                Op::Recvmsg => {
                    let b: &'static mut [u8] = std::slice::from_raw_parts_mut(self.buf.as_mut_ptr(), self.buf.len());
                    self.riov = vec![IoSliceMut::new(b)];
                    let riov: &'static mut [IoSliceMut<'static>] = std::slice::from_raw_parts_mut(self.riov.as_mut_ptr(), 1);
                    let ctrl: &'static mut [u8] = std::slice::from_raw_parts_mut(self.ctrl.as_mut_ptr(), self.ctrl.len());
                    self.rhdr = Some(Box::new(MsgHdrBorrow::create_recv(riov, Some(ctrl))));
                    let hp = &mut **self.rhdr.as_mut().unwrap() as *mut MsgHdrBorrow<'static>;
                    Sqe::new_recvmsg(fd_of(self.a), hp.cast(), 0, ud, lf)
                }
                Op::Timeout => Sqe::new_timeout(&self.ts, v == 0, None, ud, lf),
                Op::PollAdd => {
                    let ev = if v == 1 { PollEvents::POLLIN | PollEvents::POLLOUT } else { PollEvents::POLLIN };
                    Sqe::new_poll_add(fd_of(self.a), ev, PollAddMultiFlags::empty(), ud, lf)
                }
            }
        }
    }

    // -----------------------------------------------------------------------
    // the equivalent direct system call (libc), raw kernel result

    pub fn direct(&mut self, w: &World, reg_fd: i32) -> i64 {
        let v = self.v();
        let p1 = self.c1.as_ptr();
        let p2 = self.c2.as_ptr();
        unsafe {
            match self.op() {
                Op::Readv => rk(libc::preadv(self.a, self.iov.as_ptr(), self.iov.len() as i32, 0) as i64),
                Op::Writev => rk(libc::pwritev(self.a, self.iov.as_ptr(), self.iov.len() as i32, 0) as i64),
                Op::ReadFixed => {
                    let fd = if v == 1 { reg_fd } else { self.a };
                    rk(libc::pread(fd, self.buf.as_mut_ptr() as *mut _, self.req_len, 0) as i64)
                }
                Op::WriteFixed => rk(libc::pwrite(self.a, self.payload.as_ptr() as *const _, self.req_len, 0) as i64),
                Op::Openat => match v {
                    0 => rk(libc::openat(w.dfd, p1, libc::O_RDONLY | libc::O_CLOEXEC, 0) as i64),
                    1 => rk(libc::openat(w.dfd, p1, libc::O_CREAT | libc::O_EXCL | libc::O_WRONLY, 0o640) as i64),
                    _ => rk(libc::openat(libc::AT_FDCWD, p1, libc::O_RDONLY, 0) as i64),
                },
                Op::Close => rk(libc::close(self.a) as i64),
                Op::Statx => {
                    let buf = self.stx.as_mut_ptr() as *mut libc::statx;
                    if v == 0 {
                        rk(libc::statx(w.dfd, p1, 0, libc::STATX_BASIC_STATS, buf) as i64)
                    } else {
                        rk(libc::statx(libc::AT_FDCWD, p1, 0, libc::STATX_SIZE, buf) as i64)
                    }
                }
                Op::Mkdirat => {
                    if v == 0 {
                        rk(libc::mkdirat(w.dfd, p1, 0o750) as i64)
                    } else {
                        rk(libc::mkdirat(libc::AT_FDCWD, p1, 0o755) as i64)
                    }
                }
                Op::Unlinkat => match v {
                    0 => rk(libc::unlinkat(w.dfd, p1, 0) as i64),
                    1 => rk(libc::unlinkat(w.dfd, p1, libc::AT_REMOVEDIR) as i64),
                    _ => rk(libc::unlinkat(libc::AT_FDCWD, p1, 0) as i64),
                },
                Op::Renameat => match v {
                    0 => rk(libc::renameat2(w.dfd, p1, w.dfd, p2, 0) as i64),
                    1 => rk(libc::renameat2(w.dfd, p1, libc::AT_FDCWD, p2, libc::RENAME_NOREPLACE) as i64),
                    _ => rk(libc::renameat2(libc::AT_FDCWD, p1, libc::AT_FDCWD, p2, 0) as i64),
                },
                Op::Socket => match v {
                    0 => rk(libc::socket(libc::AF_UNIX, libc::SOCK_STREAM | libc::SOCK_CLOEXEC, 0) as i64),
                    1 => rk(libc::socket(libc::AF_INET, libc::SOCK_DGRAM, 17) as i64),
                    _ => rk(libc::socket(libc::AF_INET, libc::SOCK_STREAM, 17) as i64),
                },
                Op::Connect => rk(libc::connect(self.a, &*self.sun as *const _ as *const libc::sockaddr, self.sun_len) as i64),
                Op::Accept => rk(libc::accept4(self.a, std::ptr::null_mut(), std::ptr::null_mut(), libc::SOCK_CLOEXEC) as i64),
                Op::Sendmsg => {
                    let mut iov = libc::iovec { iov_base: self.payload.as_mut_ptr() as *mut _, iov_len: self.payload.len() };
                    let mut mh: libc::msghdr = std::mem::zeroed();
                    mh.msg_iov = &mut iov;
                    mh.msg_iovlen = 1;
                    let mut cbuf = [0u64; 4];
                    if v == 1 {
                        mh.msg_control = cbuf.as_mut_ptr() as *mut _;
                        mh.msg_controllen = libc::CMSG_SPACE(4) as usize;
                        let c = libc::CMSG_FIRSTHDR(&mh);
                        (*c).cmsg_level = libc::SOL_SOCKET;
                        (*c).cmsg_type = libc::SCM_RIGHTS;
                        (*c).cmsg_len = libc::CMSG_LEN(4) as usize;
                        *(libc::CMSG_DATA(c) as *mut i32) = self.pass[0].value();
                    }
                    rk(libc::sendmsg(self.a, &mh, 0) as i64)
                }
                Op::Recvmsg => {
                    let mut iov = libc::iovec { iov_base: self.buf.as_mut_ptr() as *mut _, iov_len: self.buf.len() };
                    let mut mh: libc::msghdr = std::mem::zeroed();
                    mh.msg_iov = &mut iov;
                    mh.msg_iovlen = 1;
                    mh.msg_control = self.ctrl.as_mut_ptr() as *mut _;
                    mh.msg_controllen = self.ctrl.len();
                    rk(libc::recvmsg(self.a, &mut mh, 0) as i64)
                }
                Op::Timeout => {
                    // no direct call returns -ETIME; the equivalent is a sleep of the same length, after
                    // which io_uring reports -ETIME by definition of IORING_OP_TIMEOUT
                    let ts = libc::timespec { tv_sec: self.ts.seconds(), tv_nsec: self.ts.nanoseconds() };
                    let fl = if v == 0 { 0 } else { libc::TIMER_ABSTIME };
                    let r = libc::clock_nanosleep(libc::CLOCK_MONOTONIC, fl, &ts, std::ptr::null_mut());
                    if r == 0 {
                        -(libc::ETIME as i64)
                    } else {
                        -(r as i64)
                    }
                }
                Op::PollAdd => {
                    let ev = if v == 1 { libc::POLLIN | libc::POLLOUT } else { libc::POLLIN };
                    let mut pf = libc::pollfd { fd: self.a, events: ev, revents: 0 };
                    let r = libc::poll(&mut pf, 1, 0);
                    if r < 0 {
                        rk(r as i64)
                    } else if pf.revents & libc::POLLNVAL != 0 {
                        // poll(2) reports a closed descriptor as POLLNVAL, io_uring as -EBADF: same fact
                        -(libc::EBADF as i64)
                    } else {
                        pf.revents as i64
                    }
                }
            }
        }
    }
}

// ---------------------------------------------------------------------------
// observation of the side effects of one entry (canonical, world-independent text)

unsafe fn ino_of_fd(fd: i32) -> Option<(u64, u64)> {
    let mut st: libc::stat = std::mem::zeroed();
    if libc::fstat(fd, &mut st) == 0 {
        Some((st.st_dev as u64, st.st_ino as u64))
    } else {
        None
    }
}
unsafe fn ino_of_path(dfd: i32, p: *const libc::c_char) -> Option<(u64, u64)> {
    let mut st: libc::stat = std::mem::zeroed();
    if libc::fstatat(dfd, p, &mut st, 0) == 0 {
        Some((st.st_dev as u64, st.st_ino as u64))
    } else {
        None
    }
}
unsafe fn file_content(fd: i32) -> String {
    let mut b = [0u8; 256];
    let n = libc::pread(fd, b.as_mut_ptr() as *mut _, b.len(), 0);
    if n < 0 {
        format!("unreadable(errno {})", errno())
    } else {
        common::show_bytes(&b[..n as usize])
    }
}
unsafe fn sockopt(fd: i32, opt: i32) -> i32 {
    let mut v: i32 = -1;
    let mut l: libc::socklen_t = 4;
    libc::getsockopt(fd, libc::SOL_SOCKET, opt, &mut v as *mut _ as *mut _, &mut l);
    v
}
/// one byte written into `from` arrives at `to`
unsafe fn byte_through(from: i32, to: i32) -> bool {
    if libc::send(from, b"Z".as_ptr() as *const _, 1, libc::MSG_DONTWAIT | libc::MSG_NOSIGNAL) != 1 {
        return false;
    }
    let mut pf = libc::pollfd { fd: to, events: libc::POLLIN, revents: 0 };
    libc::poll(&mut pf, 1, 5000);
    let mut b = [0u8; 1];
    libc::recv(to, b.as_mut_ptr() as *mut _, 1, libc::MSG_DONTWAIT) == 1 && b[0] == b'Z'
}

impl Slot {
    /// `res`: the result reported for this entry (completion in the wrapper world, return value in the
    /// reference world; -ECANCELED for a cancelled chain member).  Also releases what the operation created.
    pub fn observe(&mut self, w: &World, res: i64) -> String {
        let v = self.v();
        unsafe {
            match self.op() {
                Op::Readv | Op::Recvmsg => {
                    let n = res.clamp(0, self.buf.len() as i64) as usize;
                    let tail_intact = self.buf[n..].iter().all(|&b| b == FILL);
                    format!("data[{}] rest-untouched:{tail_intact}", common::show_bytes(&self.buf[..n]))
                }
                Op::ReadFixed => {
                    let n = res.clamp(0, FIXED_SLOT as i64) as usize;
                    let mem: &[u8] = match self.fixed {
                        Some(f) => std::slice::from_raw_parts(f.slot(self.pos), FIXED_SLOT),
                        None => &self.buf,
                    };
                    let tail_intact = mem[n..].iter().all(|&b| b == FILL);
                    format!("data[{}] rest-untouched:{tail_intact}", common::show_bytes(&mem[..n]))
                }
                Op::Writev | Op::WriteFixed => {
                    if v == 0 {
                        format!("file[{}]", file_content(self.a))
                    } else {
                        String::new()
                    }
                }
                Op::Openat => {
                    if res < 0 {
                        return String::new();
                    }
                    let fd = res as i32;
                    let want = if v == 0 || v == 1 { ino_of_path(w.dfd, self.c1.as_ptr()) } else { None };
                    let same = want.is_some() && ino_of_fd(fd) == want;
                    let fl = libc::fcntl(fd, libc::F_GETFL) & (libc::O_ACCMODE | libc::O_APPEND | libc::O_NONBLOCK | libc::O_PATH | libc::O_DIRECTORY);
                    let cx = libc::fcntl(fd, libc::F_GETFD);
                    libc::close(fd);
                    format!("fd same-file:{same} fl:{fl:o} cloexec:{cx}")
                }
                Op::Close => {
                    if v != 0 {
                        return String::new();
                    }
                    // the descriptor was the only write end of a pipe: closed <=> the read end reports hang-up.
                    // The kernel releases the file behind a closed descriptor asynchronously (deferred fput, from a
                    // worker or the SQPOLL thread), possibly well after the completion is visible on a loaded
                    // machine: when the close reported success, wait generously before concluding otherwise.
                    let mut pf = libc::pollfd { fd: self.b, events: libc::POLLIN, revents: 0 };
                    libc::poll(&mut pf, 1, if res == 0 { 10_000 } else { 0 });
                    let closed = pf.revents & libc::POLLHUP != 0;
                    if !closed {
                        self.close_after.push(self.a);
                    }
                    format!("write-end-closed:{closed}")
                }
                Op::Statx => {
                    if res != 0 {
                        return String::new();
                    }
                    let s = &*(self.stx.as_ptr() as *const libc::statx);
                    let same = if v == 0 {
                        let mut d: libc::statx = std::mem::zeroed();
                        libc::statx(w.dfd, self.c1.as_ptr(), 0, libc::STATX_BASIC_STATS, &mut d);
                        d.stx_ino == s.stx_ino && d.stx_dev_major == s.stx_dev_major && d.stx_dev_minor == s.stx_dev_minor && d.stx_mtime.tv_sec == s.stx_mtime.tv_sec
                    } else {
                        false
                    };
                    format!(
                        "mask:{:x} mode:{:o} size:{} nlink:{} uid:{} gid:{} same-inode:{same}",
                        s.stx_mask & 0x7ff,
                        s.stx_mode,
                        s.stx_size,
                        s.stx_nlink,
                        s.stx_uid,
                        s.stx_gid
                    )
                }
                Op::Mkdirat | Op::Unlinkat | Op::Renameat | Op::Timeout | Op::PollAdd => String::new(),
                Op::Socket => {
                    if res < 0 {
                        return String::new();
                    }
                    let fd = res as i32;
                    let s = format!(
                        "sock dom:{} type:{} proto:{} cloexec:{}",
                        sockopt(fd, libc::SO_DOMAIN),
                        sockopt(fd, libc::SO_TYPE),
                        sockopt(fd, libc::SO_PROTOCOL),
                        libc::fcntl(fd, libc::F_GETFD)
                    );
                    libc::close(fd);
                    s
                }
                Op::Connect => {
                    if v != 0 {
                        return String::new();
                    }
                    let mut pf = libc::pollfd { fd: self.b, events: libc::POLLIN, revents: 0 };
                    libc::poll(&mut pf, 1, 0);
                    if pf.revents & libc::POLLIN == 0 {
                        return "connection-pending:false".into();
                    }
                    let acc = libc::accept4(self.b, std::ptr::null_mut(), std::ptr::null_mut(), libc::SOCK_CLOEXEC);
                    let ok = acc >= 0 && byte_through(self.a, acc);
                    if acc >= 0 {
                        libc::close(acc);
                    }
                    format!("connection-pending:true data-flows:{ok}")
                }
                Op::Accept => {
                    if res < 0 || v != 0 {
                        return String::new();
                    }
                    let fd = res as i32;
                    let ok = byte_through(self.b, fd);
                    let cx = libc::fcntl(fd, libc::F_GETFD);
                    let nb = libc::fcntl(fd, libc::F_GETFL) & libc::O_NONBLOCK;
                    libc::close(fd);
                    format!("accepted data-flows:{ok} cloexec:{cx} nonblock:{nb}")
                }
                Op::Sendmsg => {
                    if v == 2 {
                        return String::new();
                    }
                    let mut b = [0u8; 64];
                    let mut iov = libc::iovec { iov_base: b.as_mut_ptr() as *mut _, iov_len: b.len() };
                    let mut cbuf = [0u64; 8];
                    let mut mh: libc::msghdr = std::mem::zeroed();
                    mh.msg_iov = &mut iov;
                    mh.msg_iovlen = 1;
                    mh.msg_control = cbuf.as_mut_ptr() as *mut _;
                    mh.msg_controllen = 64;
                    let n = libc::recvmsg(self.b, &mut mh, libc::MSG_DONTWAIT | libc::MSG_CMSG_CLOEXEC);
                    if n < 0 {
                        return format!("peer-received:nothing({})", errname(-(errno() as i64)));
                    }
                    let mut fdinfo = "no-fd".to_string();
                    let c = libc::CMSG_FIRSTHDR(&mh);
                    if !c.is_null() && (*c).cmsg_level == libc::SOL_SOCKET && (*c).cmsg_type == libc::SCM_RIGHTS {
                        let nfd = ((*c).cmsg_len - libc::CMSG_LEN(0) as usize) / 4;
                        let got = *(libc::CMSG_DATA(c) as *const i32);
                        let same = ino_of_fd(got) == ino_of_fd(w.fd_data);
                        for i in 0..nfd {
                            libc::close(*(libc::CMSG_DATA(c) as *const i32).add(i));
                        }
                        fdinfo = format!("fds:{nfd} same-file:{same}");
                    }
                    format!("peer-received[{}] {fdinfo}", common::show_bytes(&b[..n as usize]))
                }
            }
        }
    }

    pub fn cleanup(self) {
        unsafe {
            for fd in &self.close_after {
                libc::close(*fd);
            }
        }
        for p in &self.unlink_after {
            let _ = std::fs::remove_file(p);
        }
    }
}
