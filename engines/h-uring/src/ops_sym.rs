//! The operation alphabet of the "ops" phase: per symbol, how the harness prepares the
//! resources of one batch entry (identically in the wrapper world and in the reference
//! world), how the entry becomes an SQE through the rusl constructors, how the
//! equivalent direct system call is made (libc — independent of rusl), and what is
//! observed afterwards (side effects as a canonical string that must be equal in the twins).

use rusl::platform::{
    AddressFamily, ControlMessageSend, Fd, IoSlice, IoSliceMut, IoUringSQEFlags, IoUringSubmissionQueueEntry as Sqe, Mode, MsgHdrBorrow, OpenFlags,
    PollAddMultiFlags, PollEvents, RenameFlags, SendDropGuard, SocketAddressUnix, SocketArgUnix, SocketFlags, SocketOptions, SocketType, StatxFlags,
    StatxMask, TimeSpec,
};
use rusl::string::unix_str::UnixString;
use std::ffi::CString;

#[derive(Clone, Copy, PartialEq, Eq, Debug)]
pub enum Op {
    Readv,
    Writev,
    ReadFixed,
    WriteFixed,
    Openat,
    Close,
    Statx,
    Mkdirat,
    Unlinkat,
    Renameat,
    Socket,
    Connect,
    Accept,
    Sendmsg,
    Recvmsg,
    Timeout,
    PollAdd,
}

impl Op {
    pub fn name(self) -> &'static str {
        match self {
            Op::Readv => "readv",
            Op::Writev => "writev",
            Op::ReadFixed => "read_fixed",
            Op::WriteFixed => "write_fixed",
            Op::Openat => "openat",
            Op::Close => "close",
            Op::Statx => "statx",
            Op::Mkdirat => "mkdirat",
            Op::Unlinkat => "unlinkat",
            Op::Renameat => "renameat",
            Op::Socket => "socket",
            Op::Connect => "connect",
            Op::Accept => "accept",
            Op::Sendmsg => "sendmsg",
            Op::Recvmsg => "recvmsg",
            Op::Timeout => "timeout",
            Op::PollAdd => "poll_add",
        }
    }
    pub fn opcode(self) -> u8 {
        use crate::ops_raw::*;
        match self {
            Op::Readv => OP_READV,
            Op::Writev => OP_WRITEV,
            Op::ReadFixed => OP_READ_FIXED,
            Op::WriteFixed => OP_WRITE_FIXED,
            Op::Openat => OP_OPENAT,
            Op::Close => OP_CLOSE,
            Op::Statx => OP_STATX,
            Op::Mkdirat => OP_MKDIRAT,
            Op::Unlinkat => OP_UNLINKAT,
            Op::Renameat => OP_RENAMEAT,
            Op::Socket => OP_SOCKET,
            Op::Connect => OP_CONNECT,
            Op::Accept => OP_ACCEPT,
            Op::Sendmsg => OP_SENDMSG,
            Op::Recvmsg => OP_RECVMSG,
            Op::Timeout => OP_TIMEOUT,
            Op::PollAdd => OP_POLL_ADD,
        }
    }
    /// the completion result is a new descriptor: compared as "valid new fd", not by number
    pub fn returns_fd(self) -> bool {
        matches!(self, Op::Openat | Op::Socket | Op::Accept)
    }
}

pub struct Sym {
    pub name: &'static str,
    pub op: Op,
    pub v: u8,
}

macro_rules! syms { ($(($n:expr, $o:ident, $v:expr)),* $(,)?) => { &[ $( Sym { name: $n, op: Op::$o, v: $v } ),* ] } }

/// The alphabet.  Variant 0.. are listed per operation; every operation has a failing variant.
pub const SYMS: &[Sym] = syms![
    ("readv:full", Readv, 0),
    ("readv:short", Readv, 1),
    ("readv:badfd", Readv, 2),
    ("writev:ok", Writev, 0),
    ("writev:rdonly-fd", Writev, 1),
    ("read_fixed:ok", ReadFixed, 0),
    ("read_fixed:regfile", ReadFixed, 1),
    ("read_fixed:badfd", ReadFixed, 2),
    ("write_fixed:ok", WriteFixed, 0),
    ("write_fixed:rdonly-fd", WriteFixed, 1),
    ("openat:existing", Openat, 0),
    ("openat:creat-excl", Openat, 1),
    ("openat:missing", Openat, 2),
    ("close:valid", Close, 0),
    ("close:badfd", Close, 1),
    ("statx:existing", Statx, 0),
    ("statx:missing", Statx, 1),
    ("mkdirat:new", Mkdirat, 0),
    ("mkdirat:existing", Mkdirat, 1),
    ("unlinkat:file", Unlinkat, 0),
    ("unlinkat:rmdir", Unlinkat, 1),
    ("unlinkat:missing", Unlinkat, 2),
    ("renameat:ok", Renameat, 0),
    ("renameat:noreplace-existing", Renameat, 1),
    ("renameat:missing", Renameat, 2),
    ("socket:unix-stream", Socket, 0),
    ("socket:inet-dgram", Socket, 1),
    ("socket:bad-proto", Socket, 2),
    ("connect:ok", Connect, 0),
    ("connect:missing", Connect, 1),
    ("accept:ok", Accept, 0),
    ("accept:notsock", Accept, 1),
    ("sendmsg:plain", Sendmsg, 0),
    ("sendmsg:scm-rights", Sendmsg, 1),
    ("sendmsg:notsock", Sendmsg, 2),
    ("recvmsg:plain", Recvmsg, 0),
    ("recvmsg:notsock", Recvmsg, 1),
    ("timeout:1ms", Timeout, 0),
    ("timeout:abs-past", Timeout, 1),
    ("poll_add:pipe-in", PollAdd, 0),
    ("poll_add:pipe-out", PollAdd, 1),
    ("poll_add:badfd", PollAdd, 2),
];

pub fn sym_index(name: &str) -> Option<usize> {
    SYMS.iter().position(|s| s.name == name)
}

pub const DATA: &[u8] = b"hello uring world\n"; // 18 bytes
pub const REG_CONTENT: &[u8] = b"registered-file-content!";
pub const BAD_FD: i32 = 99_999;
pub const FILL: u8 = 0xEE;
pub const FIXED_SLOT: usize = 64;
pub const N_FIXED: usize = 16; // 0..8 read targets, 8..16 write sources

pub fn errno() -> i32 {
    unsafe { *libc::__errno_location() }
}
/// raw-kernel-style result of a libc call
pub fn rk(r: i64) -> i64 {
    if r == -1 {
        -(errno() as i64)
    } else {
        r
    }
}
pub fn cstr(s: &str) -> CString {
    CString::new(s).unwrap()
}
pub fn ustr(s: &str) -> UnixString {
    UnixString::try_from_string(s.to_string()).expect("unix string")
}
pub fn mode(bits: u32) -> Mode {
    // Mode is #[repr(transparent)] over u32 with a crate-private field
    unsafe { std::mem::transmute::<u32, Mode>(bits) }
}
pub fn fd_of(n: i32) -> Fd {
    Fd::try_new(n).expect("non-negative fd")
}

pub fn errname(e: i64) -> String {
    let n = match (-e) as i32 {
        libc::ENOENT => "ENOENT",
        libc::EBADF => "EBADF",
        libc::EEXIST => "EEXIST",
        libc::ETIME => "ETIME",
        libc::ECANCELED => "ECANCELED",
        libc::ENOTSOCK => "ENOTSOCK",
        libc::EPROTONOSUPPORT => "EPROTONOSUPPORT",
        libc::EINVAL => "EINVAL",
        libc::EFAULT => "EFAULT",
        libc::ENOTDIR => "ENOTDIR",
        libc::ECONNREFUSED => "ECONNREFUSED",
        libc::EAGAIN => "EAGAIN",
        libc::EOPNOTSUPP => "EOPNOTSUPP",
        libc::EAFNOSUPPORT => "EAFNOSUPPORT",
        libc::ENOTEMPTY => "ENOTEMPTY",
        libc::EISDIR => "EISDIR",
        _ => return format!("errno{}", -e),
    };
    n.to_string()
}

/// One of the twin directories with its static content.
pub struct World {
    pub dir: String,
    pub dfd: i32,
    pub fd_data: i32,
}

fn write_file(path: &str, content: &[u8], mode: u32) {
    unsafe {
        let c = cstr(path);
        let fd = libc::open(c.as_ptr(), libc::O_WRONLY | libc::O_CREAT | libc::O_TRUNC, mode);
        assert!(fd >= 0, "harness: create {path}: errno {}", errno());
        assert_eq!(content.len() as isize, libc::write(fd, content.as_ptr() as *const _, content.len()));
        libc::fchmod(fd, mode);
        libc::close(fd);
    }
}

impl World {
    /// Creates the directory with the static content and the persistent per-entry files of `batch`.
    pub fn create(dir: &str, batch: &[usize]) -> World {
        unsafe {
            let c = cstr(dir);
            assert_eq!(0, libc::mkdir(c.as_ptr(), 0o755), "harness: mkdir {dir}: errno {}", errno());
            write_file(&format!("{dir}/data.txt"), DATA, 0o644);
            let e = cstr(&format!("{dir}/exdir"));
            assert_eq!(0, libc::mkdir(e.as_ptr(), 0o755));
            for (pos, &s) in batch.iter().enumerate() {
                let sy = &SYMS[s];
                match (sy.op, sy.v) {
                    (Op::Writev, 0) | (Op::WriteFixed, 0) => write_file(&format!("{dir}/w{pos}"), b"", 0o644),
                    (Op::Unlinkat, 0) => write_file(&format!("{dir}/victim{pos}"), b"victim", 0o600),
                    (Op::Unlinkat, 1) => {
                        let p = cstr(&format!("{dir}/rmd{pos}"));
                        assert_eq!(0, libc::mkdir(p.as_ptr(), 0o700));
                    }
                    (Op::Renameat, 0) => write_file(&format!("{dir}/old{pos}"), format!("renamed-{pos}").as_bytes(), 0o640),
                    (Op::Renameat, 1) => write_file(&format!("{dir}/keep{pos}"), b"keep", 0o640),
                    _ => {}
                }
            }
            let dfd = libc::open(c.as_ptr(), libc::O_RDONLY | libc::O_DIRECTORY | libc::O_CLOEXEC);
            assert!(dfd >= 0);
            let d = cstr(&format!("{dir}/data.txt"));
            let fd_data = libc::open(d.as_ptr(), libc::O_RDONLY | libc::O_CLOEXEC);
            assert!(fd_data >= 0);
            World { dir: dir.to_string(), dfd, fd_data }
        }
    }
    /// names, kinds, permission bits, sizes and contents — everything except inode numbers and times
    pub fn tree(&self) -> Vec<String> {
        let mut out = Vec::new();
        fn walk(dir: &str, rel: &str, out: &mut Vec<String>) {
            let Ok(rd) = std::fs::read_dir(dir) else {
                out.push(format!("{rel}: unreadable"));
                return;
            };
            for e in rd.flatten() {
                use std::os::unix::fs::{FileTypeExt, PermissionsExt};
                let name = e.file_name().to_string_lossy().to_string();
                let p = format!("{dir}/{name}");
                let Ok(md) = std::fs::symlink_metadata(&p) else { continue };
                let ft = md.file_type();
                let kind = if ft.is_dir() {
                    "dir"
                } else if ft.is_file() {
                    "file"
                } else if ft.is_socket() {
                    "sock"
                } else if ft.is_symlink() {
                    "link"
                } else {
                    "other"
                };
                let modebits = md.permissions().mode() & 0o7777;
                let content = if ft.is_file() { common::show_bytes(&std::fs::read(&p).unwrap_or_default()) } else { String::new() };
                out.push(format!("{rel}{name} {kind} {modebits:o} {content}"));
                if ft.is_dir() {
                    walk(&p, &format!("{rel}{name}/"), out);
                }
            }
        }
        walk(&self.dir, "", &mut out);
        out.sort();
        out
    }
    pub fn destroy(self) {
        unsafe {
            libc::close(self.dfd);
            libc::close(self.fd_data);
        }
        let _ = std::fs::remove_dir_all(&self.dir);
    }
}

/// Where the wrapper-side fixed-buffer operations of one ring find their registered memory.
#[derive(Clone, Copy)]
pub struct FixedArea {
    pub base: *mut u8,
    /// real descriptor of the file registered as fixed file 0
    pub reg_fd: i32,
}
impl FixedArea {
    pub fn slot(&self, i: usize) -> *mut u8 {
        assert!(i < N_FIXED);
        unsafe { self.base.add(i * FIXED_SLOT) }
    }
}

/// Everything one batch entry needs, kept at stable heap addresses until its completion was reaped.
pub struct Slot {
    pub sym: usize,
    pub pos: usize,
    pub ud: u64,
    p1: Option<UnixString>,
    p2: Option<UnixString>,
    c1: CString,
    c2: CString,
    buf: Vec<u8>,
    iov: Vec<libc::iovec>,
    req_len: usize,
    stx: Box<[u64; 32]>,
    ts: Box<TimeSpec>,
    /// operation-specific descriptors: `a` is the one the operation acts on
    a: i32,
    b: i32,
    c: i32,
    sockarg: Option<Box<SocketArgUnix>>,
    sun: Box<libc::sockaddr_un>,
    sun_len: u32,
    guard: Option<Box<SendDropGuard<'static>>>,
    ios: Vec<IoSlice<'static>>,
    pass: Vec<Fd>,
    rhdr: Option<Box<MsgHdrBorrow<'static>>>,
    riov: Vec<IoSliceMut<'static>>,
    ctrl: Vec<u8>,
    payload: Vec<u8>,
    close_after: Vec<i32>,
    unlink_after: Vec<String>,
    fixed: Option<FixedArea>,
}

fn sockaddr_un(path: &str) -> (Box<libc::sockaddr_un>, u32) {
    let mut sa: libc::sockaddr_un = unsafe { std::mem::zeroed() };
    sa.sun_family = libc::AF_UNIX as u16;
    assert!(path.len() < 107, "harness: socket path too long");
    for (i, b) in path.bytes().enumerate() {
        sa.sun_path[i] = b as libc::c_char;
    }
    (Box::new(sa), (2 + path.len() + 1) as u32)
}

fn listener(path: &str) -> i32 {
    unsafe {
        let s = libc::socket(libc::AF_UNIX, libc::SOCK_STREAM | libc::SOCK_CLOEXEC, 0);
        assert!(s >= 0, "harness: socket: errno {}", errno());
        let (sa, len) = sockaddr_un(path);
        assert_eq!(0, libc::bind(s, &*sa as *const _ as *const libc::sockaddr, len), "harness: bind {path}: errno {}", errno());
        assert_eq!(0, libc::listen(s, 8));
        s
    }
}
fn unix_socket() -> i32 {
    let s = unsafe { libc::socket(libc::AF_UNIX, libc::SOCK_STREAM | libc::SOCK_CLOEXEC, 0) };
    assert!(s >= 0);
    s
}
fn socketpair() -> (i32, i32) {
    let mut sp = [0i32; 2];
    assert_eq!(0, unsafe { libc::socketpair(libc::AF_UNIX, libc::SOCK_STREAM | libc::SOCK_CLOEXEC, 0, sp.as_mut_ptr()) });
    (sp[0], sp[1])
}
fn pipe_nb() -> (i32, i32) {
    let mut p = [0i32; 2];
    assert_eq!(0, unsafe { libc::pipe2(p.as_mut_ptr(), libc::O_CLOEXEC | libc::O_NONBLOCK) });
    (p[0], p[1])
}

impl Slot {
    /// Harness-side preparation of entry `pos` (symbol `sym`) in world `w`.  `fixed` is Some in the
    /// wrapper world (registered memory of the ring), None in the reference world.
    pub fn prepare(w: &World, pos: usize, sym: usize, ud: u64, fixed: Option<FixedArea>) -> Slot {
        let sy = &SYMS[sym];
        let mut s = Slot {
            sym,
            pos,
            ud,
            p1: None,
            p2: None,
            c1: CString::default(),
            c2: CString::default(),
            buf: vec![FILL; FIXED_SLOT],
            iov: Vec::new(),
            req_len: 0,
            stx: Box::new([0u64; 32]),
            ts: Box::new(TimeSpec::new(0, 1_000_000)),
            a: -1,
            b: -1,
            c: -1,
            sockarg: None,
            sun: Box::new(unsafe { std::mem::zeroed() }),
            sun_len: 0,
            guard: None,
            ios: Vec::new(),
            pass: Vec::new(),
            rhdr: None,
            riov: Vec::new(),
            ctrl: vec![0u8; 64],
            payload: Vec::new(),
            close_after: Vec::new(),
            unlink_after: Vec::new(),
            fixed,
        };
        let dir = &w.dir;
        let set1 = |s: &mut Slot, p: String| {
            s.c1 = cstr(&p);
            s.p1 = Some(ustr(&p));
        };
        let set2 = |s: &mut Slot, p: String| {
            s.c2 = cstr(&p);
            s.p2 = Some(ustr(&p));
        };
        let open_w = |s: &mut Slot| {
            let c = cstr(&format!("{dir}/w{pos}"));
            let fd = unsafe { libc::open(c.as_ptr(), libc::O_RDWR | libc::O_CLOEXEC) };
            assert!(fd >= 0, "harness: open w{pos}: errno {}", errno());
            s.a = fd;
            s.close_after.push(fd);
        };
        match (sy.op, sy.v) {
            (Op::Readv, v) => {
                let base = s.buf.as_mut_ptr();
                let (l0, l1) = if v == 1 { (16, 48) } else { (8, DATA.len() - 8) };
                s.iov = vec![
                    libc::iovec { iov_base: base as *mut _, iov_len: l0 },
                    libc::iovec { iov_base: unsafe { base.add(l0) } as *mut _, iov_len: l1 },
                ];
                s.req_len = l0 + l1;
                s.a = if v == 2 { BAD_FD } else { w.fd_data };
            }
            (Op::Writev, v) => {
                s.payload = format!("written-by-entry-{pos}\n").into_bytes();
                let base = s.payload.as_mut_ptr();
                let n = s.payload.len();
                s.iov = vec![
                    libc::iovec { iov_base: base as *mut _, iov_len: 5 },
                    libc::iovec { iov_base: unsafe { base.add(5) } as *mut _, iov_len: n - 5 },
                ];
                s.req_len = n;
                if v == 0 {
                    open_w(&mut s);
                } else {
                    s.a = w.fd_data;
                }
            }
            (Op::ReadFixed, v) => {
                s.req_len = if v == 1 { REG_CONTENT.len() } else { DATA.len() };
                s.a = match v {
                    0 => w.fd_data,
                    1 => -2, // fixed file 0 (wrapper world) / its real descriptor (reference world)
                    _ => BAD_FD,
                };
                if let Some(f) = fixed {
                    unsafe { std::ptr::write_bytes(f.slot(pos), FILL, FIXED_SLOT) };
                }
            }
            (Op::WriteFixed, v) => {
                s.payload = format!("fixed-write-{pos}\n").into_bytes();
                s.req_len = s.payload.len();
                if let Some(f) = fixed {
                    unsafe {
                        std::ptr::write_bytes(f.slot(8 + pos), FILL, FIXED_SLOT);
                        std::ptr::copy_nonoverlapping(s.payload.as_ptr(), f.slot(8 + pos), s.payload.len());
                    }
                }
                if v == 0 {
                    open_w(&mut s);
                } else {
                    s.a = w.fd_data;
                }
            }
            (Op::Openat, 0) => set1(&mut s, "data.txt".into()),
            (Op::Openat, 1) => set1(&mut s, format!("c{pos}")),
            (Op::Openat, _) => set1(&mut s, format!("{dir}/missing")),
            (Op::Close, 0) => {
                let (r, wr) = pipe_nb();
                s.a = wr;
                s.b = r;
                s.close_after.push(r);
            }
            (Op::Close, _) => s.a = BAD_FD,
            (Op::Statx, 0) => set1(&mut s, "data.txt".into()),
            (Op::Statx, _) => set1(&mut s, format!("{dir}/missing")),
            (Op::Mkdirat, 0) => set1(&mut s, format!("nd{pos}")),
            (Op::Mkdirat, _) => set1(&mut s, format!("{dir}/exdir")),
            (Op::Unlinkat, 0) => set1(&mut s, format!("victim{pos}")),
            (Op::Unlinkat, 1) => set1(&mut s, format!("rmd{pos}")),
            (Op::Unlinkat, _) => set1(&mut s, format!("{dir}/missing")),
            (Op::Renameat, 0) => {
                set1(&mut s, format!("old{pos}"));
                set2(&mut s, format!("new{pos}"));
            }
            (Op::Renameat, 1) => {
                set1(&mut s, format!("keep{pos}"));
                set2(&mut s, format!("{dir}/data.txt"));
            }
            (Op::Renameat, _) => {
                set1(&mut s, format!("{dir}/missing"));
                set2(&mut s, format!("{dir}/missing2"));
            }
            (Op::Socket, _) => {}
            (Op::Connect, v) => {
                let lp = format!("{dir}/ls{pos}");
                if v == 0 {
                    s.b = listener(&lp);
                    s.close_after.push(s.b);
                    s.unlink_after.push(lp.clone());
                }
                s.a = unix_socket();
                s.close_after.push(s.a);
                let target = if v == 0 { lp } else { format!("{dir}/nolisten") };
                let (sa, len) = sockaddr_un(&target);
                s.sun = sa;
                s.sun_len = len;
                let up = ustr(&target);
                s.sockarg = Some(Box::new(SocketAddressUnix::try_from_unix(&up).expect("socket address")));
            }
            (Op::Accept, 0) => {
                let lp = format!("{dir}/la{pos}");
                s.a = listener(&lp);
                s.close_after.push(s.a);
                s.unlink_after.push(lp.clone());
                s.b = unix_socket();
                s.close_after.push(s.b);
                let (sa, len) = sockaddr_un(&lp);
                assert_eq!(0, unsafe { libc::connect(s.b, &*sa as *const _ as *const libc::sockaddr, len) }, "harness: pre-connect: errno {}", errno());
            }
            (Op::Accept, _) => s.a = w.fd_data,
            (Op::Sendmsg, v) => {
                s.payload = format!("sendmsg-payload-{pos}").into_bytes();
                s.req_len = s.payload.len();
                if v == 2 {
                    s.a = w.fd_data;
                } else {
                    let (x, y) = socketpair();
                    s.a = x;
                    s.b = y;
                    s.close_after.push(x);
                    s.close_after.push(y);
                }
                if v == 1 {
                    s.pass = vec![fd_of(w.fd_data)];
                }
            }
            (Op::Recvmsg, v) => {
                s.payload = format!("recvmsg-payload-{pos}").into_bytes();
                s.req_len = s.payload.len();
                if v == 1 {
                    s.a = w.fd_data;
                } else {
                    let (x, y) = socketpair();
                    s.a = x;
                    s.b = y;
                    s.close_after.push(x);
                    s.close_after.push(y);
                    let n = unsafe { libc::send(y, s.payload.as_ptr() as *const _, s.payload.len(), 0) };
                    assert_eq!(n as usize, s.payload.len());
                }
            }
            (Op::Timeout, 0) => {}
            (Op::Timeout, _) => {
                let mut now: libc::timespec = unsafe { std::mem::zeroed() };
                unsafe { libc::clock_gettime(libc::CLOCK_MONOTONIC, &mut now) };
                s.ts = Box::new(TimeSpec::new(now.tv_sec, now.tv_nsec));
            }
            (Op::PollAdd, v) => {
                if v == 2 {
                    s.a = BAD_FD;
                } else {
                    let (r, wr) = pipe_nb();
                    s.close_after.push(r);
                    s.close_after.push(wr);
                    if v == 0 {
                        assert_eq!(1, unsafe { libc::write(wr, b"x".as_ptr() as *const _, 1) });
                        s.a = r;
                    } else {
                        s.a = wr;
                    }
                }
            }
        }
        s
    }

    pub fn op(&self) -> Op {
        SYMS[self.sym].op
    }
    fn v(&self) -> u8 {
        SYMS[self.sym].v
    }
    /// bytes a read/write asks for (a shorter transfer severs a link chain)
    pub fn requested_len(&self) -> usize {
        self.req_len
    }
}
