// (included into ops.rs) — one case = one batch on one ring for `rounds` rounds, with the oracle

#[derive(Clone, Debug)]
pub struct Case {
    pub entries: u32,
    pub flags: u32,
    pub linked: bool,
    pub batch: Vec<usize>,
    pub rounds: u32,
    /// per-entry link flag (0 none, 1 IOSQE_IO_LINK, 2 IOSQE_IO_HARDLINK) for mixed chains; None: `linked` decides
    pub links: Option<Vec<u8>>,
}
impl Case {
    /// the link flag entry `i` is submitted with (the last entry of a submission never links on)
    pub fn link_of(&self, i: usize) -> u8 {
        if i + 1 >= self.batch.len() {
            return 0;
        }
        match &self.links {
            Some(l) => l.get(i).copied().unwrap_or(0),
            None => self.linked as u8,
        }
    }
    pub fn any_link(&self) -> bool {
        (0..self.batch.len()).any(|i| self.link_of(i) != 0)
    }
    pub fn mode_name(&self) -> String {
        match &self.links {
            Some(_) => format!("chain-flags {:?}", (0..self.batch.len()).map(|i| ["none", "LINK", "HARDLINK"][self.link_of(i) as usize]).collect::<Vec<_>>()),
            None => (if self.linked { "linked" } else { "independent" }).to_string(),
        }
    }
}

/// What the running kernel does with a failing member of a link chain, per opcode
/// (learned through the wrapper-independent raw ring, see ops_raw.rs).
#[derive(Clone, Debug)]
pub struct Calib {
    pub error_severs: [bool; 64],
    pub short_read_severs: bool,
}
impl Calib {
    pub fn documented() -> Calib {
        Calib { error_severs: [true; 64], short_read_severs: true }
    }
    fn severs(&self, s: &Slot, res: i64) -> bool {
        if res < 0 {
            return self.error_severs[s.op().opcode() as usize];
        }
        matches!(s.op(), Op::Readv | Op::Writev | Op::ReadFixed | Op::WriteFixed) && (res as usize) != s.requested_len() && self.short_read_severs
    }
}

pub fn case_json(c: &Case, prior: u64, op: &str, round: u32, pos: Option<usize>) -> Value {
    json!({
        "phase": "ops",
        "op": op,
        "ring": c.entries,
        "kernel_ring_entries": c.entries.next_power_of_two(),
        "flags": c.flags,
        "flags_name": flags_name(c.flags),
        "linked": c.linked,
        "links": c.links,
        "batch": c.batch.iter().map(|&s| SYMS[s].name).collect::<Vec<_>>(),
        "rounds": c.rounds,
        "prior_submissions": prior,
        "round": round,
        "pos": pos,
    })
}

fn lowest_free_fd() -> i32 {
    unsafe {
        let fd = libc::dup(0);
        if fd >= 0 {
            libc::close(fd);
        }
        fd
    }
}

fn res_class(op: Op, res: i64) -> String {
    if res < 0 {
        return errname(res);
    }
    if op.returns_fd() {
        "ok-fd".into()
    } else if matches!(op, Op::PollAdd) {
        "ok-mask".into()
    } else if res == 0 {
        "ok-0".into()
    } else {
        "ok-count".into()
    }
}

extern "C" fn on_alarm(_: libc::c_int) {
    // a case that does not finish is attributed like a crash (SIGABRT -> common's handler)
    unsafe { libc::abort() }
}
pub fn install_watchdog() {
    unsafe {
        let mut sa: libc::sigaction = std::mem::zeroed();
        sa.sa_sigaction = on_alarm as *const () as usize;
        libc::sigemptyset(&mut sa.sa_mask);
        libc::sigaction(libc::SIGALRM, &sa, std::ptr::null_mut());
    }
}

/// position of the entry a tree line belongs to (per-entry names end in the position)
fn pos_of_tree_line(l: &str) -> Option<usize> {
    let name = l.split(' ').next()?;
    let name = name.rsplit('/').next()?;
    let digits: String = name.chars().rev().take_while(|c| c.is_ascii_digit()).collect();
    if digits.is_empty() || digits.len() == name.len() {
        return None;
    }
    digits.chars().rev().collect::<String>().parse().ok()
}

/// Runs the case; returns false when the ring had to be abandoned.
pub fn run_case(sh: &mut Shard, rs: &mut RingState, case: &Case, cal: &Calib, r: &mut Report, verbose: bool) {
    r.eval();
    r.nontrivial_unique();
    sh.case_no += 1;
    let n = case.batch.len();
    let first_op = SYMS[case.batch[0]].op.name();
    let prior0 = rs.submitted;
    set_case(&case_json(case, prior0, first_op, 0, None).to_string());
    unsafe { libc::alarm(sh.watchdog_s) };
    let pair = format!("{}/c{}", sh.base, sh.case_no);
    std::fs::create_dir(&pair).expect("harness: pair dir");
    let wu = World::create(&format!("{pair}/u"), &case.batch);
    let wr = World::create(&format!("{pair}/r"), &case.batch);
    let fd0 = lowest_free_fd();
    let any_link = case.any_link();
    r.outcome(if case.links.is_some() { "batch:mixed-link-flags" } else if !case.linked { "batch:independent" } else { "batch:linked" });
    let mut resync = false;

    for round in 0..case.rounds {
        let prior = rs.submitted;
        let uds: Vec<u64> = (0..n).map(|i| ud_for(sh.seq + i as u64)).collect();
        sh.seq += n as u64;
        let _ = prior;
        let mut su: Vec<Slot> = (0..n).map(|i| Slot::prepare(&wu, i, case.batch[i], uds[i], Some(rs.fixed))).collect();
        let mut sr: Vec<Slot> = (0..n).map(|i| Slot::prepare(&wr, i, case.batch[i], uds[i], None)).collect();
        let viol = |r: &mut Report, key: String, desc: String, op: &str, pos: Option<usize>| {
            if verbose {
                println!("  VIOLATION {key}: {desc}");
            }
            r.violation(&key, desc, case_json(case, prior0, op, round, pos));
        };

        // --- wrapper world
        let mut sqes = Vec::new();
        let mut ctor_panic = false;
        for (i, s) in su.iter_mut().enumerate() {
            let link = case.link_of(i);
            match catch(|| s.to_sqe(&wu, link)) {
                Ok(q) => sqes.push(q),
                Err(p) => {
                    let op = s.op().name();
                    viol(r, format!("C18:{op}:panic"), format!("constructing the entry for {} panicked: {p}", SYMS[s.sym].name), op, Some(i));
                    ctor_panic = true;
                }
            }
        }
        let got = if ctor_panic {
            Got::default()
        } else {
            match catch(|| submit_and_reap(rs, sqes)) {
                Ok(g) => g,
                Err(p) => {
                    viol(r, "C18:submit:panic".into(), format!("submitting/reaping panicked: {p}"), "submit", None);
                    resync = true;
                    Got::default()
                }
            }
        };
        if let Some((kind, d)) = &got.problem {
            viol(r, format!("C18:submit:{kind}"), d.clone(), "submit", None);
            resync = true;
        }

        // --- reference world: the same sequence as direct calls
        // A chain is a maximal run of entries joined by link flags.  A member that fails in the kernel's sense
        // (calibrated per opcode) and carries IOSQE_IO_LINK cancels the whole rest of its chain; one that carries
        // IOSQE_IO_HARDLINK (or no flag: it is the last of its chain) does not: what follows runs exactly as the
        // direct calls one after the other would.
        let mut want: Vec<i64> = Vec::with_capacity(n);
        let mut severed = false;
        let mut cancel_rest_of_chain = false;
        for (i, s) in sr.iter_mut().enumerate() {
            if cancel_rest_of_chain {
                want.push(-(libc::ECANCELED as i64));
            } else {
                let x = s.direct(&wr, sh.reg_fd);
                if case.link_of(i) == 1 && cal.severs(s, x) {
                    severed = true;
                    cancel_rest_of_chain = true;
                }
                want.push(x);
            }
            if case.link_of(i) == 0 {
                cancel_rest_of_chain = false; // the chain ends here
            }
        }
        if any_link && round == 0 {
            r.outcome(if severed { "chain:severed" } else { "chain:ran-through" });
        }

        // --- one completion per submission, carrying its user data
        let mut res_u: Vec<Option<i64>> = vec![None; n];
        let mut strangers: Vec<(u64, i32)> = Vec::new();
        for &(ud, res) in &got.cqes {
            match uds.iter().position(|&u| u == ud) {
                Some(p) if res_u[p].is_none() => res_u[p] = Some(res as i64),
                Some(p) => {
                    let op = su[p].op().name();
                    viol(r, format!("C18:{op}:extra-completion"), format!("second completion for entry {p} ({}) user_data {ud:#x} res {res}", SYMS[su[p].sym].name), op, Some(p));
                    resync = true;
                }
                None => strangers.push((ud, res)),
            }
        }
        if !ctor_panic && got.problem.is_none() {
            let missing: Vec<usize> = (0..n).filter(|&p| res_u[p].is_none()).collect();
            // pair every unanswered entry with a completion nobody was stamped with: first by equal low halves
            // (a truncated user_data), then in order of arrival
            let mut pool: Vec<Option<(u64, i32)>> = strangers.iter().map(|x| Some(*x)).collect();
            let mut paired: Vec<Option<(u64, i32)>> = vec![None; missing.len()];
            for (k, &p) in missing.iter().enumerate() {
                if let Some(j) = pool.iter().position(|x| x.map(|x| x.0 as u32 == uds[p] as u32).unwrap_or(false)) {
                    paired[k] = pool[j].take();
                }
            }
            for k in 0..missing.len() {
                if paired[k].is_none() {
                    if let Some(j) = pool.iter().position(|x| x.is_some()) {
                        paired[k] = pool[j].take();
                    }
                }
            }
            for (k, &p) in missing.iter().enumerate() {
                let op = su[p].op().name();
                if let Some((ud, res)) = paired[k] {
                    viol(
                        r,
                        format!("C18:{op}:user-data-differs"),
                        format!("entry {p} ({}) was stamped user_data {:#018x}; a completion carries {ud:#018x} (res {res}) instead", SYMS[su[p].sym].name, uds[p]),
                        op,
                        Some(p),
                    );
                    res_u[p] = Some(res as i64);
                } else {
                    viol(r, format!("C18:{op}:missing-completion"), format!("no completion for entry {p} ({}) of {n}; got {:?}", SYMS[su[p].sym].name, got.cqes), op, Some(p));
                }
                resync = true;
            }
            for &(ud, res) in strangers.iter().skip(missing.len()) {
                viol(r, "C18:batch:extra-completion".into(), format!("completion with user_data {ud:#x} res {res} that no entry of the batch was stamped with"), "batch", None);
                resync = true;
            }
        }

        if verbose {
            println!("  round {round}: waited {} ns, completions in arrival order {:x?}", got.wait_ns, got.cqes);
        }
        if got.sq_full_waits > 0 {
            r.outcome("submit:sqpoll-queue-looked-full(waited)");
        }
        if got.partial {
            r.outcome("submit:taken-in-several-calls(prep-rejection)");
        }
        // --- results and side effects
        let canc = -(libc::ECANCELED as i64);
        // in a chain, a member whose own result differs (its completion is not a cancellation: either the reference
        // is not one either, or the member reports an error of its own where the reference has it cancelled —
        // the kernel rejected it while preparing it, which fails the whole chain) is the root cause;
        // the cancellations it provokes in the other members are its consequences and are not reported separately
        let differs = |p: usize| match res_u[p] {
            Some(g) => {
                let (op, w) = (su[p].op(), want[p]);
                !(if op.returns_fd() && w >= 0 { g >= 0 } else { g == w })
            }
            None => false,
        };
        let strong: Vec<usize> = (0..n).filter(|&p| differs(p) && res_u[p] != Some(canc) && want[p] != canc).collect();
        let weak: Vec<usize> = (0..n).filter(|&p| differs(p) && want[p] == canc && res_u[p].map(|g| g < 0 && g != canc).unwrap_or(false)).collect();
        let root: Vec<usize> = if !strong.is_empty() { strong } else { weak.into_iter().take(1).collect() };
        let consequence = |p: usize| any_link && !root.is_empty() && !root.contains(&p);
        for p in 0..n {
            let op = su[p].op();
            let opn = op.name();
            let w = want[p];
            if let Some(g) = res_u[p] {
                r.outcome(&format!("res:{}", res_class(op, g)));
                let equal = if op.returns_fd() && w >= 0 { g >= 0 } else { g == w };
                if !equal && !consequence(p) {
                    let key = if any_link && !root.contains(&p) { "C18:linked:cancel-propagation-differs".to_string() } else { format!("C18:{opn}:result-differs") };
                    viol(
                        r,
                        key,
                        format!(
                            "entry {p} ({}) of {} batch {:?}: completion res {g} ({}), direct call gives {w} ({})",
                            SYMS[su[p].sym].name,
                            case.mode_name(),
                            case.batch.iter().map(|&s| SYMS[s].name).collect::<Vec<_>>(),
                            res_class(op, g),
                            res_class(op, w)
                        ),
                        opn,
                        Some(p),
                    );
                }
                if SYMS[su[p].sym].name == "timeout:1ms" && g == -(libc::ETIME as i64) && got.problem.is_none() && got.wait_ns < 1_000_000 {
                    viol(r, "C18:timeout:side-effect-differs".into(), format!("a 1 ms timeout completed with -ETIME after {} ns", got.wait_ns), opn, Some(p));
                }
            }
            let ou = su[p].observe(&wu, res_u[p].unwrap_or(i64::MIN));
            let or = sr[p].observe(&wr, w);
            if verbose {
                println!("  round {round} entry {p} {:<28} wrapper res {:?} direct {w}  | {ou} | {or}", SYMS[su[p].sym].name, res_u[p]);
            }
            if ou != or && res_u[p].is_some() && !consequence(p) {
                viol(
                    r,
                    format!("C18:{opn}:side-effect-differs"),
                    format!("entry {p} ({}): after the wrapper's operation (res {:?}): {ou}; after the direct call (res {w}): {or}", SYMS[su[p].sym].name, res_u[p]),
                    opn,
                    Some(p),
                );
            }
        }
        if r.samples.len() < 2 && n >= 2 && round == 0 {
            r.sample(json!({"case": case_json(case, prior0, first_op, 0, None), "wrapper_results": res_u, "direct_results": want}));
        }
        if resync {
            // completions are unaccounted for: the kernel may still write into these buffers — leak them
            std::mem::forget(su);
        } else {
            for s in su {
                s.cleanup();
            }
        }
        for s in sr {
            s.cleanup();
        }

        // --- twin trees
        let (tu, tr) = (wu.tree(), wr.tree());
        if tu != tr && !(any_link && !root.is_empty()) && got.problem.is_none() && !ctor_panic {
            let diff: Vec<&String> = tu.iter().filter(|l| !tr.contains(l)).chain(tr.iter().filter(|l| !tu.contains(l))).collect();
            let pos = diff.first().and_then(|l| pos_of_tree_line(l)).filter(|&p| p < n);
            let opn = pos.map(|p| SYMS[case.batch[p]].op.name()).unwrap_or("batch");
            viol(r, format!("C18:{opn}:side-effect-differs"), format!("twin trees differ after round {round}: wrapper world {tu:?} / reference world {tr:?}"), opn, pos);
        }
        // --- nothing more arrives
        let extra = reap_extra(rs);
        for (ud, res) in extra {
            let pos = uds.iter().position(|&u| u == ud);
            let opn = pos.map(|p| SYMS[case.batch[p]].op.name()).unwrap_or("batch");
            viol(r, format!("C18:{opn}:extra-completion"), format!("late completion user_data {ud:#x} res {res} after all {n} completions of the batch had been reaped"), opn, pos);
            resync = true;
        }
        let fd1 = lowest_free_fd();
        if fd1 != fd0 {
            viol(r, "C18:batch:side-effect-differs".into(), format!("descriptor table differs after the batch was cleaned up: lowest free descriptor {fd0} before, {fd1} after"), "batch", None);
            resync = true;
        }
        if resync {
            break;
        }
    }
    wu.destroy();
    wr.destroy();
    let _ = std::fs::remove_dir_all(&pair);
    if resync {
        // do not let one desynchronised ring spoil the following cases
        rs.uring = None;
        match sh.make_ring(case.entries, case.flags) {
            Ok(mut n) => {
                n.rings_made = rs.rings_made + 1;
                *rs = n;
            }
            Err(e) => panic!("harness: cannot re-create the ring: {e}"),
        }
        r.outcome("ring-recreated-after-violation");
    }
    unsafe { libc::alarm(0) };
    clear_case();
}

include!("ops_run.rs");
