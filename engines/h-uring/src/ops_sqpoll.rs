//! Part of phase "ops": the SQPOLL submission protocol through the wrapper.
//!
//!  * pure:     `IoUring::needs_wakeup()` over harness-owned ring memory (rusl feature
//!              `verif-hooks`, `IoUring::verif_from_raw_parts`) for every value of the SQ flags
//!              word in a grid — it must be exactly `word & IORING_SQ_NEED_WAKEUP != 0`.
//!  * kernel:   on a real SQPOLL ring with a short idle time, (a) let the poll thread fall asleep,
//!              submit one operation following the documented protocol (flush, consult
//!              `needs_wakeup()`, enter with IORING_ENTER_SQ_WAKEUP iff it says so): it must
//!              complete; (b) the same after the completion queue has overflowed (the kernel then
//!              also raises IORING_SQ_CQ_OVERFLOW in the same word).  Afterwards every submission
//!              must have completed exactly once with the direct call's result.
//!              The harness reads the raw flags word through its own libc-side view of the ring
//!              memory (ops_raw::RingView), never through the wrapper.

use crate::ops::{flags_name, ud_for};
use crate::ops_raw::{self, RingView};
use crate::ops_sym::{cstr, fd_of, REG_CONTENT};
use common::*;
use rusl::io_uring::{io_uring_enter, setup_io_uring};
use rusl::platform::{IoUring, IoUringEnterFlags, IoUringParamFlags, IoUringSQEFlags, IoUringSubmissionQueueEntry as Sqe, VerifRingParts};
use serde_json::{json, Value};
use std::time::{Duration, Instant};

const NEED_WAKEUP: u32 = 1; // IORING_SQ_NEED_WAKEUP
const CQ_OVERFLOW: u32 = 2; // IORING_SQ_CQ_OVERFLOW
pub const IDLE_MS: u32 = 50;
const DEADLINE: Duration = Duration::from_secs(5);

// ---------------------------------------------------------------------------
// pure function

pub fn words() -> Vec<u32> {
    let mut v = Vec::new();
    for hi in [0u32, 0x10, 0x8000_0000, 0xFFFF_FFF0] {
        for lo in 0..16u32 {
            v.push(hi | lo);
        }
    }
    v
}

pub fn pure_case(word: u32, r: &mut Report, verbose: bool) {
    r.eval();
    r.nontrivial_unique();
    let cj = json!({"phase": "ops", "scenario": "needs_wakeup-pure", "op": "needs_wakeup", "word": word});
    set_case(&cj.to_string());
    // one-entry queues in harness memory
    let mut words = Box::new([0u32; 16]);
    let mut sqe: Box<[u8; 128]> = Box::new([0; 128]);
    let mut cqe: Box<[u8; 32]> = Box::new([0; 32]);
    words[2] = word;
    let w = words.as_mut_ptr();
    let got = catch(|| unsafe {
        let parts = VerifRingParts {
            fd: fd_of(0),
            flags: IoUringParamFlags::IORING_SETUP_SQPOLL,
            sq_khead: w,
            sq_ktail: w.add(1),
            sq_kflags: w.add(2),
            sq_kdropped: w.add(3),
            sq_array: w.add(4),
            sq_entries: sqe.as_mut_ptr().cast(),
            sq_ring_entries: 1,
            sq_local_head: 0,
            sq_local_tail: 0,
            cq_khead: w.add(5),
            cq_ktail: w.add(6),
            cq_koverflow: w.add(7),
            cq_entries: cqe.as_mut_ptr().cast(),
            cq_ring_entries: 1,
        };
        let ring = IoUring::verif_from_raw_parts(parts);
        ring.needs_wakeup()
    });
    clear_case();
    let want = word & NEED_WAKEUP != 0;
    match got {
        Err(p) => r.violation("C18:needs_wakeup:panic", format!("needs_wakeup() with SQ flags word {word:#x} panicked: {p}"), cj),
        Ok(g) => {
            if verbose {
                println!("SQ flags word {word:#010x}: needs_wakeup() = {g}, IORING_SQ_NEED_WAKEUP bit = {want}");
            }
            r.outcome(match (want, word & !NEED_WAKEUP != 0) {
                (true, false) => "pure:only-wakeup-bit",
                (true, true) => "pure:wakeup-bit-and-others",
                (false, true) => "pure:other-bits-only",
                (false, false) => "pure:zero",
            });
            if g != want {
                let key = if want { "C18:needs_wakeup:ignores-bit-when-other-flags-set" } else { "C18:needs_wakeup:true-without-bit" };
                r.violation(key, format!("SQ flags word {word:#x} (IORING_SQ_NEED_WAKEUP {}): needs_wakeup() = {g}", if want { "set" } else { "clear" }), cj);
            }
        }
    }
}

// ---------------------------------------------------------------------------
// kernel scenario

fn wait_until(deadline: Duration, mut f: impl FnMut() -> bool) -> bool {
    let t = Instant::now();
    while t.elapsed() < deadline {
        if f() {
            return true;
        }
        std::thread::sleep(Duration::from_millis(1));
    }
    f()
}

struct Sc {
    ring: IoUring,
    view: RingView,
    fd: i32,
    iov: Box<[libc::iovec; 1]>,
    _buf: Box<[u8; 64]>,
    stamped: Vec<u64>,
    got: Vec<(u64, i32)>,
    seq: u64,
}

impl Sc {
    /// one readv of the known file through the wrapper, following the SQPOLL protocol to the letter;
    /// returns (raw flags word seen by the harness just before, what needs_wakeup() said)
    fn submit_one(&mut self) -> Result<(u32, bool), String> {
        let t = Instant::now();
        let slot = loop {
            if let Some(s) = self.ring.get_next_sqe_slot() {
                break s;
            }
            if t.elapsed() > DEADLINE {
                return Err("no free SQ slot within the deadline".into());
            }
            // a full queue with a sleeping poller: the protocol is to wake it
            if self.ring.needs_wakeup() {
                let _ = io_uring_enter(self.ring.fd, 0, 0, IoUringEnterFlags::IORING_ENTER_SQ_WAKEUP);
            }
            std::thread::sleep(Duration::from_millis(1));
        };
        let ud = ud_for(0x5100_0000 + self.seq);
        self.seq += 1;
        self.stamped.push(ud);
        unsafe { slot.write(Sqe::new_readv(fd_of(self.fd), self.iov.as_ptr() as usize, 1, ud, IoUringSQEFlags::empty())) };
        self.ring.flush_submission_queue();
        let raw = self.view.sq_flags();
        let nw = self.ring.needs_wakeup();
        if nw {
            io_uring_enter(self.ring.fd, 1, 0, IoUringEnterFlags::IORING_ENTER_SQ_WAKEUP).map_err(|e| format!("enter(SQ_WAKEUP): {e}"))?;
        }
        Ok((raw, nw))
    }
    fn reap(&mut self) {
        for _ in 0..4096 {
            match self.ring.get_next_cqe() {
                Some(c) => self.got.push((c.0.user_data, c.0.res)),
                None => break,
            }
        }
    }
    /// reap, flushing overflowed completions into the ring — WITHOUT waking the poll thread
    fn reap_flush(&mut self) {
        self.reap();
        let _ = io_uring_enter(self.ring.fd, 0, 0, IoUringEnterFlags::IORING_ENTER_GETEVENTS);
        self.reap();
    }
    fn has(&self, ud: u64) -> bool {
        self.got.iter().any(|c| c.0 == ud)
    }
}

fn scen_json(entries: u32, overflow: bool, rep: u32) -> Value {
    json!({"phase": "ops", "scenario": "sqpoll-protocol", "op": "sqpoll", "ring": entries, "flags_name": flags_name(IoUringParamFlags::IORING_SETUP_SQPOLL.bits()), "overflow_first": overflow, "sq_thread_idle_ms": IDLE_MS, "rep": rep})
}

/// Returns false when SQPOLL rings are not available here.
pub fn kernel_case(base: &str, entries: u32, overflow: bool, rep: u32, r: &mut Report, verbose: bool) -> bool {
    let cj = scen_json(entries, overflow, rep);
    let sqpoll = IoUringParamFlags::IORING_SETUP_SQPOLL;
    let Some(p) = ops_raw::raw_params(entries, sqpoll.bits(), IDLE_MS) else {
        r.outcome("sqpoll:not-available");
        return false;
    };
    r.eval();
    r.nontrivial_unique();
    set_case(&cj.to_string());
    unsafe { libc::alarm(60) };
    let path = format!("{base}/sqpoll-data.txt");
    std::fs::write(&path, REG_CONTENT).unwrap();
    let c = cstr(&path);
    let fd = unsafe { libc::open(c.as_ptr(), libc::O_RDONLY | libc::O_CLOEXEC) };
    assert!(fd >= 0);
    let ring = match catch(|| setup_io_uring(entries, sqpoll, 0, IDLE_MS)) {
        Ok(Ok(u)) => u,
        other => {
            r.outcome("sqpoll:not-available");
            if verbose {
                println!("SQPOLL set-up: {:?}", other.map(|x| x.map(|_| ()).map_err(|e| format!("{e}"))));
            }
            unsafe {
                libc::close(fd);
                libc::alarm(0);
            }
            clear_case();
            return false;
        }
    };
    let Some(view) = RingView::find(p) else {
        r.cap("sqpoll scenario: ring memory not found in /proc/self/maps");
        drop(ring);
        unsafe {
            libc::close(fd);
            libc::alarm(0);
        }
        clear_case();
        return false;
    };
    let cq_entries = view.p.cq_entries;
    let mut buf = Box::new([0u8; 64]);
    let iov = Box::new([libc::iovec { iov_base: buf.as_mut_ptr() as *mut _, iov_len: 64 }]);
    let mut sc = Sc { ring, view, fd, iov, _buf: buf, stamped: Vec::new(), got: Vec::new(), seq: (rep as u64) << 8 };
    let mut log: Vec<String> = Vec::new();
    let want_res = unsafe { libc::preadv(fd, sc.iov.as_ptr(), 1, 0) } as i32;
    let mut fail: Option<(String, String)> = None;

    let body = catch(|| {
        if overflow {
            // 2*cq_entries + 2 completions left unreaped: the completion queue overflows
            for i in 0..(2 * cq_entries + 2) {
                match sc.submit_one() {
                    Ok((raw, nw)) => log.push(format!("fill {i}: flags word {raw:#x}, needs_wakeup {nw}")),
                    Err(e) => {
                        fail = Some(("C18:sqpoll:protocol-stalls".into(), format!("while filling the completion queue (entry {i}): {e}")));
                        return;
                    }
                }
            }
            // all consumed and the kernel says "overflow"
            let ok = wait_until(DEADLINE, || sc.view.sq_head() == sc.view.sq_tail() && sc.view.sq_flags() & CQ_OVERFLOW != 0);
            log.push(format!("after filling: sq head {} tail {}, cq head {} tail {}, flags word {:#x}, overflow counter {}", sc.view.sq_head(), sc.view.sq_tail(), sc.view.cq_head(), sc.view.cq_tail(), sc.view.sq_flags(), sc.view.cq_overflow()));
            if !ok {
                // the precondition of the scenario was not reached: not a verdict about the wrapper
                log.push("the kernel did not flag a completion queue overflow".into());
                r.outcome("sqpoll:overflow-not-reached");
            }
        }
        // the poll thread falls asleep
        let asleep = wait_until(DEADLINE, || sc.view.sq_flags() & NEED_WAKEUP != 0);
        log.push(format!("idle: flags word {:#x}", sc.view.sq_flags()));
        if !asleep {
            r.outcome("sqpoll:poller-never-slept");
            return;
        }
        r.outcome(if sc.view.sq_flags() & CQ_OVERFLOW != 0 { "sqpoll:asleep-with-overflow-flag(word=3)" } else { "sqpoll:asleep(word=1)" });
        // one more submission, by the book
        let (raw, nw) = match sc.submit_one() {
            Ok(x) => x,
            Err(e) => {
                fail = Some(("C18:sqpoll:protocol-stalls".into(), format!("submission after idling: {e}")));
                return;
            }
        };
        log.push(format!("submission after idling: flags word {raw:#x}, needs_wakeup() = {nw}"));
        let last = *sc.stamped.last().unwrap();
        let t = Instant::now();
        let done = wait_until(DEADLINE, || {
            sc.reap_flush();
            sc.has(last)
        });
        log.push(format!("its completion {} after {} ms", if done { "arrived" } else { "did NOT arrive" }, t.elapsed().as_millis()));
        if !done {
            let key = if overflow { "C18:sqpoll:no-completion-after-cq-overflow" } else { "C18:sqpoll:no-completion-after-idle" };
            fail = Some((
                key.into(),
                format!(
                    "SQPOLL ring of {entries} entries, poll thread asleep (flags word {raw:#x}): needs_wakeup() answered {nw}, so the protocol {} IORING_ENTER_SQ_WAKEUP; the submission did not complete within {} s (sq head {} tail {})",
                    if nw { "sent" } else { "did not send" },
                    DEADLINE.as_secs(),
                    sc.view.sq_head(),
                    sc.view.sq_tail()
                ),
            ));
            // let the ring finish before it is torn down
            let _ = io_uring_enter(sc.ring.fd, 0, 0, IoUringEnterFlags::IORING_ENTER_SQ_WAKEUP);
        }
        // everything, exactly once
        let all = wait_until(DEADLINE, || {
            sc.reap_flush();
            sc.stamped.iter().all(|u| sc.has(*u))
        });
        let _ = all;
    });
    if let Err(pn) = body {
        fail = Some(("C18:sqpoll:panic".into(), format!("panicked: {pn}")));
    }
    if verbose {
        for l in &log {
            println!("  {l}");
        }
    }
    if let Some((k, d)) = fail {
        r.violation(&k, format!("{d}; trace: {}", log.join(" | ")), cj.clone());
    } else {
        // exactly once, right result
        for u in &sc.stamped {
            let n = sc.got.iter().filter(|c| c.0 == *u).count();
            if n == 0 {
                r.violation("C18:sqpoll:missing-completion", format!("submission stamped {u:#x} never completed; trace: {}", log.join(" | ")), cj.clone());
            } else if n > 1 {
                r.violation("C18:sqpoll:extra-completion", format!("submission stamped {u:#x} completed {n} times"), cj.clone());
            }
        }
        for c in &sc.got {
            if !sc.stamped.contains(&c.0) {
                r.violation("C18:sqpoll:user-data-differs", format!("completion with user_data {:#x} that nothing was stamped with", c.0), cj.clone());
            } else if c.1 != want_res {
                r.violation("C18:sqpoll:result-differs", format!("readv completed with {} — the direct preadv gives {want_res}", c.1), cj.clone());
            }
        }
        r.outcome("sqpoll:all-completed-exactly-once");
    }
    if r.samples.len() < 2 {
        r.sample(json!({"case": cj, "trace": log}));
    }
    let Sc { ring, .. } = sc;
    drop(ring);
    unsafe {
        libc::close(fd);
        libc::alarm(0);
    }
    let _ = std::fs::remove_file(&path);
    clear_case();
    true
}

pub fn replay(v: &Value, r: &mut Report) {
    crate::ops::install_watchdog();
    match v["scenario"].as_str() {
        Some("needs_wakeup-pure") => pure_case(v["word"].as_u64().unwrap_or(3) as u32, r, true),
        _ => {
            let base = format!("/dev/shm/hur-{}-replay-sqpoll", unsafe { libc::getpid() });
            let base = if std::path::Path::new("/dev/shm").is_dir() { base } else { std::env::temp_dir().join("hur-replay-sqpoll").to_string_lossy().to_string() };
            let _ = std::fs::create_dir_all(&base);
            let ok = kernel_case(&base, v["ring"].as_u64().unwrap_or(2) as u32, v["overflow_first"].as_bool().unwrap_or(true), 0, r, true);
            println!("SQPOLL available: {ok}");
            let _ = std::fs::remove_dir_all(&base);
        }
    }
}
