//! Phase "ops" of C18: every batch (sequence of 1..L alphabet symbols, independent or as one
//! IOSQE_IO_LINK chain) is submitted through the rusl wrapper to the real kernel and, as the
//! same sequence of direct system calls, executed in a twin directory / twin sockets.
//! Oracle: one completion per submission, user_data preserved, result equal to the direct
//! call's, equal side effects, equal trees, no extra completion.

use crate::ops_raw;
use crate::ops_sym::*;
use common::*;
use rusl::io_uring::{io_uring_enter, io_uring_register_buffers, io_uring_register_files, setup_io_uring};
use rusl::platform::{IoSliceMut, IoUring, IoUringEnterFlags, IoUringParamFlags, IoUringSQEFlags, IoUringSubmissionQueueEntry as Sqe, TimeSpec};
use serde_json::{json, Value};

// ---------------------------------------------------------------------------
// set-up flags offered by the wrapper's type

pub fn flag_table() -> Vec<(&'static str, IoUringParamFlags)> {
    use IoUringParamFlags as F;
    vec![
        ("IOPOLL", F::IORING_SETUP_IOPOLL),
        ("SQPOLL", F::IORING_SETUP_SQPOLL),
        ("SQ_AFF", F::IORING_SETUP_SQ_AFF),
        ("CQSIZE", F::IORING_SETUP_CQSIZE),
        ("CLAMP", F::IORING_SETUP_CLAMP),
        ("ATTACH_WQ", F::IORING_SETUP_ATTACH_WQ),
        ("R_DISABLED", F::IORING_SETUP_R_DISABLED),
        ("SUBMIT_ALL", F::IORING_SETUP_SUBMIT_ALL),
        ("COOP_TASKRUN", F::IORING_SETUP_COOP_TASKRUN),
        ("TASKRUN_FLAG", F::IORING_SETUP_TASKRUN_FLAG),
        ("SQE128", F::IORING_SETUP_SQE128),
        ("CQE32", F::IORING_SETUP_CQE32),
        ("SINGLE_ISSUER", F::IORING_SETUP_SINGLE_ISSUER),
        ("DEFER_TASKRUN", F::IORING_SETUP_DEFER_TASKRUN),
    ]
}

pub fn flags_from_bits(bits: u32) -> IoUringParamFlags {
    let mut f = IoUringParamFlags::empty();
    for (_, x) in flag_table() {
        if bits & x.bits() != 0 {
            f = f | x;
        }
    }
    f
}
pub fn flags_name(bits: u32) -> String {
    let v: Vec<&str> = flag_table().into_iter().filter(|(_, x)| bits & x.bits() != 0).map(|(n, _)| n).collect();
    if v.is_empty() {
        "DEFAULT".into()
    } else {
        v.join("|")
    }
}

/// Every single flag plus the pairs whose members the kernel only accepts together.
pub fn flag_candidates() -> Vec<u32> {
    let t: std::collections::HashMap<&str, u32> = flag_table().into_iter().map(|(n, f)| (n, f.bits())).collect();
    let mut v = vec![0u32];
    for (_, f) in flag_table() {
        v.push(f.bits());
    }
    v.push(t["SQPOLL"] | t["SQ_AFF"]);
    v.push(t["COOP_TASKRUN"] | t["TASKRUN_FLAG"]);
    v.push(t["SINGLE_ISSUER"] | t["DEFER_TASKRUN"]);
    v.push(t["SINGLE_ISSUER"] | t["DEFER_TASKRUN"] | t["TASKRUN_FLAG"]);
    v.push(t["SQE128"] | t["CQE32"]);
    v
}
pub const SQ_IDLE_MS: u32 = 20;

pub fn is_sqpoll(bits: u32) -> bool {
    bits & IoUringParamFlags::IORING_SETUP_SQPOLL.bits() != 0
}

// ---------------------------------------------------------------------------
// one ring with its registered memory / file, used for many batches

pub struct RingState {
    pub uring: Option<IoUring>,
    /// requested size
    pub entries: u32,
    /// SQ slots the kernel allocated for that request (next power of two)
    pub kernel_entries: u32,
    pub flags: u32,
    pub fixed: FixedArea,
    /// submissions made on this ring so far
    pub submitted: u64,
    pub rings_made: u32,
}

pub struct Shard {
    pub base: String,
    reg_fd: i32,
    fixed_mem: *mut u8,
    case_no: u64,
    /// entries stamped so far in this shard (source of the unique user_data values)
    seq: u64,
    pub watchdog_s: u32,
}

fn tmp_root() -> String {
    if std::path::Path::new("/dev/shm").is_dir() {
        "/dev/shm".into()
    } else {
        std::env::temp_dir().to_string_lossy().to_string()
    }
}

impl Shard {
    pub fn new(tag: &str) -> Shard {
        let base = format!("{}/hur-{}-{}", tmp_root(), unsafe { libc::getpid() }, tag);
        let _ = std::fs::remove_dir_all(&base);
        std::fs::create_dir_all(&base).expect("harness: shard dir");
        std::fs::write(format!("{base}/registered.txt"), REG_CONTENT).unwrap();
        let c = cstr(&format!("{base}/registered.txt"));
        let reg_fd = unsafe { libc::open(c.as_ptr(), libc::O_RDONLY | libc::O_CLOEXEC) };
        assert!(reg_fd >= 0);
        let fixed_mem = unsafe { libc::mmap(std::ptr::null_mut(), 4096, libc::PROT_READ | libc::PROT_WRITE, libc::MAP_PRIVATE | libc::MAP_ANONYMOUS, -1, 0) };
        assert!(fixed_mem != libc::MAP_FAILED);
        Shard { base, reg_fd, fixed_mem: fixed_mem as *mut u8, case_no: 0, seq: 0, watchdog_s: 30 }
    }
    pub fn finish(self) {
        unsafe {
            libc::close(self.reg_fd);
            libc::munmap(self.fixed_mem as *mut _, 4096);
        }
        let _ = std::fs::remove_dir_all(&self.base);
    }
    /// A fresh ring with the shard's buffers and file registered.  Err: the text of the refusal.
    pub fn make_ring(&self, entries: u32, flags: u32) -> Result<RingState, String> {
        let uring = match catch(|| setup_io_uring(entries, flags_from_bits(flags), 0, SQ_IDLE_MS)) {
            Err(p) => return Err(format!("panic: {p}")),
            Ok(Err(e)) => return Err(format!("{e}")),
            Ok(Ok(u)) => u,
        };
        let fixed = FixedArea { base: self.fixed_mem };
        let slices: Vec<IoSliceMut> =
            (0..N_FIXED).map(|i| IoSliceMut::new(unsafe { std::slice::from_raw_parts_mut(fixed.slot(i), FIXED_SLOT) })).collect();
        if let Err(e) = unsafe { io_uring_register_buffers(uring.fd, &slices) } {
            return Err(format!("register buffers: {e}"));
        }
        if let Err(e) = io_uring_register_files(uring.fd, &[fd_of(self.reg_fd)]) {
            return Err(format!("register files: {e}"));
        }
        let kernel_entries = ops_raw::kernel_ring_entries(entries).map(|x| x.0).unwrap_or_else(|| entries.next_power_of_two());
        Ok(RingState { uring: Some(uring), entries, kernel_entries, flags, fixed, submitted: 0, rings_made: 1 })
    }
}

#[derive(Default, Debug)]
pub struct Got {
    pub cqes: Vec<(u64, i32)>,
    pub problem: Option<(&'static str, String)>,
    pub wait_ns: u128,
    /// the kernel took the batch in more than one call (an entry was rejected at preparation)
    pub partial: bool,
    pub sq_full_waits: u32,
}

fn reap(ring: &mut IoUring, out: &mut Vec<(u64, i32)>, cap: usize) {
    while out.len() < cap {
        match ring.get_next_cqe() {
            Some(c) => out.push((c.0.user_data, c.0.res)),
            None => break,
        }
    }
}

/// Writes the entries into the ring through the wrapper, submits, waits for as many completions.
pub fn submit_and_reap(rs: &mut RingState, sqes: Vec<Sqe>) -> Got {
    let mut g = Got::default();
    let n = sqes.len() as u32;
    let sqpoll = is_sqpoll(rs.flags);
    let ring = rs.uring.as_mut().expect("ring");
    for (i, s) in sqes.into_iter().enumerate() {
        let mut slot = ring.get_next_sqe_slot();
        if slot.is_none() && sqpoll {
            // On an SQPOLL ring the kernel thread publishes the consumed SQ head only after it has issued the
            // entries, so completions can be visible while the queue still looks full: "full" is a legitimate
            // answer there and the caller waits (bounded here).
            let t = std::time::Instant::now();
            while slot.is_none() && t.elapsed().as_millis() < 2000 {
                std::thread::yield_now();
                slot = ring.get_next_sqe_slot();
            }
            g.sq_full_waits += 1;
        }
        match slot {
            Some(p) => unsafe { p.write(s) },
            None => {
                g.problem = Some(("slot-refused", format!("get_next_sqe_slot() = None for entry {i} of {n} on a ring of {} entries with nothing in flight", rs.entries)));
                return g;
            }
        }
    }
    let t_flush = std::time::Instant::now();
    let pending = ring.flush_submission_queue();
    if !sqpoll && pending != n {
        g.problem = Some(("flush-count-differs", format!("flush_submission_queue() = {pending} after writing {n} entries")));
    }
    let mut fl = IoUringEnterFlags::IORING_ENTER_GETEVENTS;
    if sqpoll && ring.needs_wakeup() {
        fl = fl | IoUringEnterFlags::IORING_ENTER_SQ_WAKEUP;
    }
    let t0 = std::time::Instant::now();
    // The kernel stops consuming the queue at an entry it rejects while preparing it (that entry still
    // gets its completion); the rest stays queued and is submitted by the next call.
    let mut done = 0u32;
    while done < n {
        match io_uring_enter(ring.fd, n - done, n, fl) {
            Err(e) => {
                g.problem = Some(("enter-failed", format!("io_uring_enter(to_submit={}, min_complete={n}) failed: {e}", n - done)));
                rs.submitted += done as u64;
                return g;
            }
            Ok(0) => {
                g.problem = Some(("nothing-submitted", format!("io_uring_enter(to_submit={}) = 0 although {} entries were written and flushed", n - done, n - done)));
                break;
            }
            Ok(k) => {
                if (k as u32) < n - done {
                    g.partial = true;
                }
                if k as u32 > n - done {
                    g.problem = Some(("submitted-count-differs", format!("io_uring_enter(to_submit={}) = {k}", n - done)));
                    break;
                }
                done += k as u32;
            }
        }
    }
    rs.submitted += n as u64;
    let cap = 4 * n as usize + 8;
    reap(ring, &mut g.cqes, cap);
    // The kernel cuts a wait short whenever a timeout fires while it waits ("for timeouts, we always want to
    // return to userspace"), so fewer than min_complete may be there: wait for the rest, a bounded number of times.
    let mut tries = 0;
    while g.cqes.len() < n as usize && tries < n + 3 {
        let missing = n as usize - g.cqes.len();
        let _ = io_uring_enter(ring.fd, 0, missing as u32, IoUringEnterFlags::IORING_ENTER_GETEVENTS);
        reap(ring, &mut g.cqes, cap);
        tries += 1;
    }
    g.wait_ns = if sqpoll { t_flush.elapsed().as_nanos() } else { t0.elapsed().as_nanos() };
    g
}

/// a last non-blocking look for completions nobody asked for
pub fn reap_extra(rs: &mut RingState) -> Vec<(u64, i32)> {
    let mut v = Vec::new();
    if let Some(ring) = rs.uring.as_mut() {
        let _ = io_uring_enter(ring.fd, 0, 0, IoUringEnterFlags::IORING_ENTER_GETEVENTS);
        reap(ring, &mut v, 64);
    }
    v
}

/// `n` short timeouts through the wrapper, so that the ring indices are well past their start
pub fn warm_up(rs: &mut RingState, n: u64) -> Result<(), String> {
    let ts = Box::new(TimeSpec::new(0, 1));
    let mut left = n;
    while left > 0 {
        let k = left.min(rs.entries as u64);
        let sqes: Vec<Sqe> = (0..k).map(|i| unsafe { Sqe::new_timeout(&ts, true, None, 0x7700_0000_0000_0000 | i, IoUringSQEFlags::empty()) }).collect();
        let g = submit_and_reap(rs, sqes);
        if g.cqes.len() != k as usize || g.problem.is_some() {
            return Err(format!("warm-up: {:?}", g));
        }
        left -= k;
    }
    Ok(())
}

pub fn ud_for(seq: u64) -> u64 {
    // odd multiplier: a bijection on u64, so distinct per submission, and every byte of the field is exercised
    0x9E37_79B9_7F4A_7C15u64.wrapping_mul(seq + 1)
}

include!("ops_case.rs");
