//! `h-uring-spin` — the straight-line user program (C17 keys).  What makes the optimiser treat the
//! wrapper's ring loads differently from the other shapes: the program has exactly ONE call site of
//! `setup_io_uring`, with constant flags, and the polling loop sits in the same function — after
//! whole-program inlining the ring's flags are a compile-time constant there, the SQPOLL branch in
//! `get_next_cqe` disappears and the load of the completion tail stands unconditionally in the loop
//! header (where a non-atomic load is hoisted out).  Meant for `--profile ltofat-abort`.
//!
//! Cases: {timeout 60 ms, poll on a pipe written 50 ms later} x ring sizes {2, 8}, each in a forked
//! child; a watchdog thread reads the ring memory after 3 s.

#![allow(dead_code)]

use common::*;
use rusl::io_uring::{io_uring_enter, setup_io_uring};
use rusl::platform::{Fd, IoUringEnterFlags, IoUringParamFlags, IoUringSQEFlags, IoUringSubmissionQueueEntry as Sqe, PollAddMultiFlags, PollEvents, TimeSpec};
use serde_json::json;
use std::sync::atomic::{AtomicBool, Ordering};
use std::time::{Duration, Instant};

#[path = "ops_raw.rs"]
mod ops_raw;

static DONE: AtomicBool = AtomicBool::new(false);
const EXIT_SEEN: i32 = 0;
const EXIT_NEVER_OBSERVED: i32 = 42;
const EXIT_NOT_POSTED: i32 = 43;
const EXIT_SETUP_REFUSED: i32 = 44;
const EXIT_WRONG_COMPLETION: i32 = 45;
const EXIT_SEEN_WITHOUT_WAITING: i32 = 47;

/// THE program.  Everything from set-up to the polling loop in one function; the only call of
/// `setup_io_uring` in this binary.
fn straight(pipe_kind: bool, entries: u32) -> ! {
    unsafe { libc::alarm(20) };
    let Ok(mut uring) = setup_io_uring(entries, IoUringParamFlags::empty(), 0, 0) else { unsafe { libc::_exit(EXIT_SETUP_REFUSED) } };
    let ts = TimeSpec::new(0, 60_000_000);
    let mut pipe = [0i32; 2];
    unsafe { libc::pipe2(pipe.as_mut_ptr(), libc::O_CLOEXEC) };
    let ud = 0xC17u64;
    let Some(slot) = uring.get_next_sqe_slot() else { unsafe { libc::_exit(EXIT_WRONG_COMPLETION) } };
    unsafe {
        if pipe_kind {
            slot.write(Sqe::new_poll_add(Fd::try_new(pipe[0]).unwrap(), PollEvents::POLLIN, PollAddMultiFlags::empty(), ud, IoUringSQEFlags::empty()));
        } else {
            slot.write(Sqe::new_timeout(&ts, true, None, ud, IoUringSQEFlags::empty()));
        }
    }
    let n = uring.flush_submission_queue();
    if io_uring_enter(uring.fd, n, 0, IoUringEnterFlags::empty()).is_err() {
        unsafe { libc::_exit(EXIT_WRONG_COMPLETION) };
    }
    let ring_fd = uring.fd.value();
    let wfd = pipe[1];
    std::thread::spawn(move || {
        std::thread::sleep(Duration::from_millis(50));
        if pipe_kind {
            unsafe { libc::write(wfd, b"x".as_ptr().cast(), 1) };
        }
        let t = Instant::now();
        while t.elapsed() < Duration::from_secs(3) {
            if DONE.load(Ordering::SeqCst) {
                return;
            }
            std::thread::sleep(Duration::from_millis(5));
        }
        // still spinning: is the completion there?  (read from the ring memory, libc-side view)
        unsafe { libc::syscall(libc::SYS_io_uring_enter, ring_fd, 0u32, 0u32, 1u32, 0usize, 0usize) };
        let present = ops_raw::raw_params(entries, 0, 0).and_then(ops_raw::RingView::find).map(|v| v.cq_tail() != v.cq_head());
        unsafe { libc::_exit(if present == Some(true) { EXIT_NEVER_OBSERVED } else { EXIT_NOT_POSTED }) };
    });
    let mut polls = 0u64;
    let (user_data, res) = loop {
        if let Some(cqe) = uring.get_next_cqe() {
            break (cqe.0.user_data, cqe.0.res);
        }
        polls = polls.wrapping_add(1);
    };
    DONE.store(true, Ordering::SeqCst);
    let want = if pipe_kind { 1 } else { -libc::ETIME };
    unsafe { libc::_exit(if (user_data, res) != (ud, want) { EXIT_WRONG_COMPLETION } else if polls == 0 { EXIT_SEEN_WITHOUT_WAITING } else { EXIT_SEEN }) };
}

fn profile() -> &'static str {
    match (cfg!(debug_assertions), cfg!(panic = "abort")) {
        (true, _) => "dev(debug-assertions)",
        (false, true) => "optimised, panic=abort (ltofat-abort when built so)",
        (false, false) => "optimised, unwinding (ltofat when built so)",
    }
}

fn main() {
    let args = parse_args();
    let one: Option<(bool, u32)> = args.replay.as_ref().map(|p| {
        let v = read_replay(p);
        (v["kind"].as_str() == Some("pipe"), v["ring"].as_u64().unwrap_or(8) as u32)
    });
    let reps = if args.thorough { 5 } else { 1 };
    let mut cases: Vec<(bool, u32, u32)> = Vec::new();
    match one {
        Some((k, e)) => cases.push((k, e, 0)),
        None => {
            for rep in 0..reps {
                for e in [2u32, 8] {
                    cases.push((false, e, rep));
                    cases.push((true, e, rep));
                }
            }
        }
    }
    let t0 = Instant::now();
    let mut r = Report::new();
    let mut kids = Vec::new();
    for (i, c) in cases.iter().enumerate() {
        let pid = unsafe { libc::fork() };
        if pid == 0 {
            straight(c.0, c.1);
        }
        assert!(pid > 0, "fork failed");
        kids.push((pid, i));
    }
    for (pid, i) in kids {
        let (pipe_kind, e, rep) = cases[i];
        let kind = if pipe_kind { "pipe" } else { "timeout" };
        let mut st = 0;
        unsafe { libc::waitpid(pid, &mut st, 0) };
        r.eval();
        r.nontrivial_unique();
        let cj = json!({"phase": "spin", "op": "real-ring", "kind": kind, "ring": e, "flags": 0, "rep": rep, "loop_shape": "straight-line-program(one setup call site, constant flags)", "profile": profile()});
        let what = format!("{kind} on a ring of {e} entries made and polled in one straight-line function, build profile {}", profile());
        if !libc::WIFEXITED(st) {
            r.violation("C17:real-ring:crash", format!("{what}: child wait status {st:#x}"), cj);
            continue;
        }
        match libc::WEXITSTATUS(st) {
            EXIT_SEEN => r.outcome(&format!("{kind}:observed-by-the-spinning-loop")),
            EXIT_SEEN_WITHOUT_WAITING => r.outcome(&format!("{kind}:seen-at-the-first-look(no waiting happened)")),
            EXIT_NEVER_OBSERVED => {
                r.outcome(&format!("{kind}:never-observed"));
                r.violation(
                    "C17:real-ring:completion-never-observed-by-polling-reaper",
                    format!("{what}: the completion is in the completion queue (tail != head in the ring memory) but the loop spinning on get_next_cqe() without a system call did not return it within 3 s"),
                    cj,
                );
            }
            EXIT_NOT_POSTED => {
                r.outcome(&format!("{kind}:kernel-side-did-not-happen"));
                r.cap(format!("{what}: nothing arrived from the kernel within 3 s"));
            }
            EXIT_SETUP_REFUSED => r.outcome("ring-set-up-refused(skipped)"),
            EXIT_WRONG_COMPLETION => r.violation("C17:real-ring:result-differs", format!("{what}: the loop returned something else than the stamped completion"), cj),
            other => r.violation("C17:real-ring:crash", format!("{what}: child exit status {other}"), cj),
        }
    }
    r.rule = "every (scenario in {timeout, pipe poll} x ring size {2,8}) once (thorough: 5 repetitions) in the straight-line program shape: set-up with constant flags, submission and the \
              polling loop in one function, one call site of setup_io_uring in the binary"
        .into();
    r.bound("build_profile", profile());
    r.bound("cases", cases.len());
    r.note(format!("wall {:.1}s", t0.elapsed().as_secs_f64()));
    if one.is_some() {
        for v in r.violations.values() {
            println!("VIOLATED {}: {}", v.key, v.desc);
        }
        println!("{}", serde_json::to_string_pretty(&r.to_json()).unwrap());
        std::process::exit(if r.violations.is_empty() { 0 } else { 1 });
    }
    r.write(&args.out);
}
