//! Phase "sqebytes" (C18 keys; self-contained so that it can also be compiled into the small binary
//! and built with `--profile o0`, where nothing is optimised away):
//!
//!  * bytes oracle: every SQE constructor of the wrapper is called twice with the same arguments, once
//!    after the stack was filled with 0x00 and once after 0xFF (and 0xA5).  The kernel reads the whole
//!    entry, so every one of its 64 bytes must be determined by the arguments: a byte that follows
//!    the stack filler was never written by the constructor (a partially initialised union) —
//!    `C18:<ctor>:sqe-has-uninitialised-bytes`.
//!  * behaviour: two poll entries on the same descriptor, built over a 0xFF / 0x00 filled stack, one
//!    byte written to the peer: both must complete with POLLIN (stray upper event bits such as
//!    EPOLLEXCLUSIVE make the kernel wake only one of them).

use common::*;
use rusl::io_uring::{io_uring_enter, setup_io_uring};
use rusl::platform::{
    AddressFamily, Fd, IoSlice, IoUringEnterFlags, IoUringParamFlags, IoUringSQEFlags, IoUringSubmissionQueueEntry as Sqe, Mode, MsgHdrBorrow, OpenFlags, PollAddMultiFlags,
    PollEvents, RenameFlags, SendDropGuard, SocketAddressUnix, SocketArgUnix, SocketFlags, SocketOptions, SocketType, StatxFlags, StatxMask, TimeSpec,
};
use rusl::string::unix_str::UnixStr;
use serde_json::json;

pub const CTORS: &[&str] = &[
    "new_readv", "new_readv_fixed", "new_writev", "new_writev_fixed", "new_openat", "new_close", "new_statx", "new_unlink_at", "new_rename_at", "new_mkdirat", "new_socket",
    "new_connect_unix", "new_accept_unix", "new_accept_inet", "new_timeout", "new_sendmsg", "new_sendmsg_raw", "new_recvmsg", "new_poll_add",
];

/// arguments at fixed addresses, the same for every build of an entry
struct A {
    fd: Fd,
    p1: &'static UnixStr,
    p2: &'static UnixStr,
    ts: TimeSpec,
    arg: SocketArgUnix,
    guard: SendDropGuard<'static>,
    buf: [u64; 40],
}

#[inline(never)]
fn fill_stack(b: u8) {
    let mut a = [0u8; 24 * 1024];
    for x in a.iter_mut() {
        unsafe { std::ptr::write_volatile(x, b) };
    }
    std::hint::black_box(&mut a);
}

#[inline(never)]
fn build(id: usize, a: &A) -> [u8; 64] {
    let f = IoUringSQEFlags::IOSQE_ASYNC;
    let ud = 0x1122_3344_5566_7788u64;
    let bp = a.buf.as_ptr() as usize;
    let s: Sqe = unsafe {
        match CTORS[id] {
            "new_readv" => Sqe::new_readv(a.fd, bp, 2, ud, f),
            "new_readv_fixed" => Sqe::new_readv_fixed(a.fd, 3, bp as u64, 17, ud, f),
            "new_writev" => Sqe::new_writev(a.fd, bp, 2, ud, f),
            "new_writev_fixed" => Sqe::new_writev_fixed(a.fd, 3, bp as u64, 17, ud, f),
            "new_openat" => Sqe::new_openat(Some(a.fd), a.p1, OpenFlags::O_RDWR | OpenFlags::O_CREAT, Mode::S_IRUSR, ud, f),
            "new_close" => Sqe::new_close(a.fd, ud, f),
            "new_statx" => Sqe::new_statx(None, a.p1, StatxFlags::AT_EMPTY_PATH, StatxMask::STATX_BASIC_STATS, bp as *mut _, ud, f),
            "new_unlink_at" => Sqe::new_unlink_at(Some(a.fd), a.p1, true, ud, f),
            "new_rename_at" => Sqe::new_rename_at(Some(a.fd), None, a.p1, a.p2, RenameFlags::RENAME_NOREPLACE, ud, f),
            "new_mkdirat" => Sqe::new_mkdirat(Some(a.fd), a.p1, Mode::S_IRWXU, ud, f),
            "new_socket" => Sqe::new_socket(AddressFamily::AF_UNIX, SocketOptions::new(SocketType::SOCK_STREAM, SocketFlags::SOCK_CLOEXEC), 0, ud, f),
            "new_connect_unix" => Sqe::new_connect_unix(a.fd, &a.arg, ud, f),
            "new_accept_unix" => Sqe::new_accept_unix(a.fd, bp as *mut _, (bp + 160) as *mut u64, SocketFlags::SOCK_NONBLOCK, ud, f),
            "new_accept_inet" => Sqe::new_accept_inet(a.fd, bp as *mut _, (bp + 160) as *mut u64, SocketFlags::SOCK_NONBLOCK, ud, f),
            "new_timeout" => Sqe::new_timeout(&a.ts, false, Some(3), ud, f),
            "new_sendmsg" => Sqe::new_sendmsg(a.fd, &a.guard, 0x40, ud, f),
            "new_sendmsg_raw" => Sqe::new_sendmsg_raw(a.fd, bp as *const _, 0x40, ud, f),
            "new_recvmsg" => Sqe::new_recvmsg(a.fd, bp as *mut _, 0x40, ud, f),
            _ => Sqe::new_poll_add(a.fd, PollEvents::POLLIN | PollEvents::POLLOUT, PollAddMultiFlags::empty(), ud, f),
        }
    };
    assert_eq!(std::mem::size_of::<Sqe>(), 64);
    let mut out = [0u8; 64];
    unsafe { std::ptr::copy_nonoverlapping(&s as *const Sqe as *const u8, out.as_mut_ptr(), 64) };
    out
}

#[inline(never)]
fn build_over(filler: u8, id: usize, a: &A) -> [u8; 64] {
    fill_stack(filler);
    build(id, a)
}

fn args() -> A {
    static PAYLOAD: [u8; 4] = *b"abcd";
    static mut IOS: Option<[IoSlice<'static>; 1]> = None;
    let ios: &'static [IoSlice<'static>] = unsafe {
        let p = std::ptr::addr_of_mut!(IOS);
        if (*p).is_none() {
            *p = Some([IoSlice::new(&PAYLOAD)]);
        }
        (*p).as_ref().unwrap()
    };
    A {
        fd: Fd::try_new(5).unwrap(),
        p1: UnixStr::from_str_checked("some/path\0"),
        p2: UnixStr::from_str_checked("other/path\0"),
        ts: TimeSpec::new(1, 2),
        arg: SocketAddressUnix::try_from_unix(UnixStr::from_str_checked("/tmp/sock\0")).unwrap(),
        guard: MsgHdrBorrow::create_send(None, ios, None),
        buf: [0; 40],
    }
}

fn profile() -> &'static str {
    if cfg!(debug_assertions) {
        "debug-assertions on (dev: opt-level 2 — or o0 when built with --profile o0)"
    } else {
        "optimised"
    }
}

pub fn bytes_oracle(r: &mut Report, verbose: bool) {
    let a = args();
    for (id, name) in CTORS.iter().enumerate() {
        r.eval();
        r.nontrivial_unique();
        let cj = json!({"phase": "sqebytes", "scenario": "bytes", "op": name, "profile": profile()});
        set_case(&cj.to_string());
        let b0 = build_over(0x00, id, &a);
        let b1 = build_over(0xFF, id, &a);
        let b2 = build_over(0xA5, id, &a);
        clear_case();
        let diff: Vec<usize> = (0..64).filter(|&i| b0[i] != b1[i] || b0[i] != b2[i]).collect();
        if verbose {
            println!("{name:18} {}", b0.iter().map(|b| format!("{b:02x}")).collect::<String>());
        }
        if diff.is_empty() {
            r.outcome("bytes:all-64-determined-by-the-arguments");
        } else {
            r.outcome("bytes:some-follow-the-stack-filler");
            r.violation(
                &format!("C18:{name}:sqe-has-uninitialised-bytes"),
                format!(
                    "{name}: bytes {diff:?} of the entry differ between two builds with identical arguments over a stack filled with 0x00 / 0xFF / 0xA5: {} / {} / {} — the constructor never writes them (offsets 28..32 are the operation's 32 bit flags word, e.g. poll32_events) [{}]",
                    diff.iter().map(|&i| format!("{:02x}", b0[i])).collect::<String>(),
                    diff.iter().map(|&i| format!("{:02x}", b1[i])).collect::<String>(),
                    diff.iter().map(|&i| format!("{:02x}", b2[i])).collect::<String>(),
                    profile()
                ),
                cj,
            );
        }
    }
}

#[inline(never)]
fn poll_entry_over(filler: u8, fd: Fd, ud: u64) -> Sqe {
    fill_stack(filler);
    Sqe::new_poll_add(fd, PollEvents::POLLIN, PollAddMultiFlags::empty(), ud, IoUringSQEFlags::empty())
}

pub fn poll_pair(r: &mut Report, verbose: bool) {
    for filler in [0xFFu8, 0x00, 0xA5] {
        r.eval();
        r.nontrivial_unique();
        let cj = json!({"phase": "sqebytes", "scenario": "poll-pair", "op": "poll_add", "stack_filler": filler, "profile": profile()});
        set_case(&cj.to_string());
        unsafe { libc::alarm(30) };
        let mut sp = [0i32; 2];
        assert_eq!(0, unsafe { libc::socketpair(libc::AF_UNIX, libc::SOCK_STREAM | libc::SOCK_CLOEXEC, 0, sp.as_mut_ptr()) });
        let res = (|| -> Result<Vec<(u64, i32)>, String> {
            let mut ring = setup_io_uring(4, IoUringParamFlags::empty(), 0, 0).map_err(|e| format!("set-up: {e}"))?;
            let fd = Fd::try_new(sp[0]).unwrap();
            for ud in [1u64, 2] {
                let e = poll_entry_over(filler, fd, ud);
                let slot = ring.get_next_sqe_slot().ok_or("no slot")?;
                unsafe { slot.write(e) };
            }
            ring.flush_submission_queue();
            io_uring_enter(ring.fd, 2, 0, IoUringEnterFlags::empty()).map_err(|e| format!("enter: {e}"))?;
            assert_eq!(1, unsafe { libc::write(sp[1], b"x".as_ptr().cast(), 1) });
            let mut got = Vec::new();
            let t = std::time::Instant::now();
            while got.len() < 2 && t.elapsed().as_millis() < 2000 {
                let _ = io_uring_enter(ring.fd, 0, 0, IoUringEnterFlags::IORING_ENTER_GETEVENTS);
                while let Some(c) = ring.get_next_cqe() {
                    got.push((c.0.user_data, c.0.res));
                }
                std::thread::sleep(std::time::Duration::from_millis(1));
            }
            Ok(got)
        })();
        // the direct twin: poll(2) twice on the same descriptor
        let mut direct = Vec::new();
        for ud in [1u64, 2] {
            let mut pf = libc::pollfd { fd: sp[0], events: libc::POLLIN, revents: 0 };
            unsafe { libc::poll(&mut pf, 1, 0) };
            direct.push((ud, pf.revents as i32));
        }
        unsafe {
            libc::close(sp[0]);
            libc::close(sp[1]);
            libc::alarm(0);
        }
        clear_case();
        if verbose {
            println!("poll pair over a {filler:#04x} stack: ring {res:?}, direct {direct:?}");
        }
        match res {
            Err(e) => r.cap(format!("poll-pair: {e}")),
            Ok(mut got) => {
                got.sort();
                if got == direct {
                    r.outcome("poll-pair:both-complete");
                } else if got.len() < 2 {
                    r.outcome("poll-pair:one-never-completes");
                    r.violation(
                        "C18:poll_add:missing-completion",
                        format!("two poll entries (POLLIN) on one descriptor, built over a stack filled with {filler:#04x}, one byte written to the peer: completions {got:?} within 2 s — two direct poll(2) calls give {direct:?} [{}]", profile()),
                        cj,
                    );
                } else {
                    r.violation("C18:poll_add:result-differs", format!("two poll entries on one readable descriptor (stack filler {filler:#04x}): completions {got:?}, direct poll(2) {direct:?} [{}]", profile()), cj);
                }
            }
        }
    }
}

pub fn run_all(r: &mut Report, verbose: bool) {
    bytes_oracle(r, verbose);
    poll_pair(r, verbose);
}

pub fn run(args: &Args) -> Report {
    let t0 = now();
    let items = vec![isolated("sqebytes", move || {
        let mut r = Report::new();
        run_all(&mut r, false);
        r
    })];
    let mut r = run_isolated(items, &args.out, "C18");
    r.rule = "every SQE constructor once (three builds with identical arguments over differently filled stacks), plus the pair of poll entries on one descriptor per stack filler; each case generated once".into();
    r.bound("constructors", CTORS.to_vec());
    r.bound("build_profile", profile());
    r.note(format!("wall {:.2}s", t0.elapsed().as_secs_f64()));
    r
}

pub fn replay(v: &serde_json::Value, r: &mut Report) {
    let _ = v;
    run_all(r, true);
}
