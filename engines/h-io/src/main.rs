//! C15 — the provided methods of `tiny_std::io::{Read, Write}`:
//! `read_to_end`, `read_to_string`, `read_exact`, `write_all`, `write_fmt`.
//!
//! Bounded-exhaustive enumeration (engine E4) of *scripts*: a scripted reader /
//! writer answers every `read` / `write` call of the real default method from the
//! next script entry.  All scripts up to a length bound over a small menu are run
//! against every payload length / initial buffer state of a fixed grid.
//!
//! Scripted reader (payload P, cursor pos):
//!   `D<k>`  deliver min(k, buf.len(), remaining) bytes of P (`DALL`: k = infinity);
//!           when nothing remains this is `Ok(0)`
//!   `Z`     `Ok(0)` (even when bytes remain: a reader may report end of data whenever it likes)
//!   `I`     `Err(Os{EINTR})`
//!   `F`     `Err(Os{EIO})`
//!   `P`     the call panics (unwinds through the helper); last entry of a script only
//!   after the script: deliver everything that remains, then `Ok(0)` for ever.
//! The reference is plain concatenation: the bytes the reader handed out during the
//! call, `P[..pos]`.  (For a helper that stops at the first `Ok(0)`/error — as every
//! sane one does — this is "the bytes delivered before the first `Ok(0)`".)
//!
//! Scripted writer: `A<k>` accept min(k, buf.len()) bytes, `I` EINTR, `F` EIO and
//! `Z` `Ok(0)`; `F` and `Z` are *sticky* (a broken / full sink stays so), therefore a
//! helper that swallows them never finishes and runs into the call horizon
//! (`…:livelock`).  After the script the writer accepts everything.
//!
//! The print path (`unix/print.rs`, `try_print`) writes through a raw syscall and is
//! NOT covered here; it needs the syscall seam (S2).

use common::*;
use serde_json::{json, Value};
use tiny_std::io::{Read, Write};
use tiny_std::{Errno, Error};

const ALL: usize = usize::MAX;
/// ladder scripts only: half of the requested length (at least 1)
const HALF: usize = usize::MAX - 1;
const HORIZON_MSG: &str = "C15-call-horizon-exceeded";
const SCRIPTED_PANIC_MSG: &str = "C15-scripted-panic";

/// menu of delivery sizes of the reader (besides ALL)
const RMENU: [usize; 5] = [1, 2, 31, 32, 33];
/// menu of accepted sizes of the writer (besides ALL)
const WMENU: [usize; 3] = [1, 2, 4];
/// size ladder: chunk sizes of the reader (besides HALF and ALL) / accepted sizes of the writer (besides ALL)
const LMENU: [usize; 4] = [1, 10, 1000, 4096];
const LWMENU: [usize; 2] = [1, 100];
/// size ladder: spare capacities / buffer sizes; payload lengths are these plus two large ones
const LADDER: [usize; 19] = [0, 1, 31, 32, 33, 127, 128, 129, 1023, 1024, 1025, 4095, 4096, 4097, 8191, 8192, 8193, 16384, 65536];
const LADDER_EXTRA_LENS: [usize; 2] = [3 * 8192 + 5, 100_000];
/// payload lengths above this are the expensive ones (a 1-byte chunk tail means that many calls)
const LADDER_BIG: usize = 3 * 8192 + 5;
/// size ladder: lengths of the formatted pieces
const PIECE_LENS: [usize; 9] = [0, 1, 2, 127, 128, 129, 300, 4096, 5000];

const OLD: [u8; 5] = [0xE0, 0xE1, 0xE2, 0xE3, 0xE4];
const OLD_STR: &str = "ab\u{20ac}"; // 5 bytes, ends in a 3-byte character
const SENTINEL: u8 = 0xAA;
const UNIT: &str = "a\u{e9}\u{20ac}\u{1f600}"; // 1+2+3+4 bytes

#[derive(Clone, Copy, PartialEq, Eq, Debug)]
enum Step {
    /// reader: deliver k bytes; writer: accept k bytes
    Deliver(usize),
    /// Ok(0)
    Zero,
    Eintr,
    Fail,
    /// another error than EIO: 1 EAGAIN, 2 `Error::Timeout`, 3 `Error::Uncategorized` (tokens FA, FT, FU)
    FailK(u8),
    /// the reader / writer panics (unwinds) in this call; only ever the last entry of a script
    Panic,
}

fn rsym(i: usize) -> Step {
    match i {
        0..=4 => Step::Deliver(RMENU[i]),
        5 => Step::Deliver(ALL),
        6 => Step::Zero,
        7 => Step::Eintr,
        8 => Step::Fail,
        _ => Step::Panic,
    }
}
/// symbols of the reader menu; index N_RSYM is the panic entry (see `for_each_script`)
const N_RSYM: usize = 9;

fn wsym(i: usize) -> Step {
    match i {
        0..=2 => Step::Deliver(WMENU[i]),
        3 => Step::Deliver(ALL),
        4 => Step::Eintr,
        5 => Step::Zero,
        6 => Step::Fail,
        _ => Step::Panic,
    }
}
const N_WSYM: usize = 7;

fn lsym(i: usize) -> Step {
    match i {
        0..=3 => Step::Deliver(LMENU[i]),
        4 => Step::Deliver(HALF),
        5 => Step::Deliver(ALL),
        6 => Step::Eintr,
        _ => Step::Panic,
    }
}
const N_LSYM: usize = 7;

fn lwsym(i: usize) -> Step {
    match i {
        0..=1 => Step::Deliver(LWMENU[i]),
        2 => Step::Deliver(ALL),
        3 => Step::Eintr,
        _ => Step::Panic,
    }
}
const N_LWSYM: usize = 4;

/// error-kind scripts (small payloads, every start capacity): reader and writer alphabets with all four error kinds
const EMENU: [usize; 3] = [1, 2, 4];
fn esym(i: usize) -> Step {
    match i {
        0..=2 => Step::Deliver(EMENU[i]),
        3 => Step::Deliver(ALL),
        4 => Step::Zero,
        5 => Step::Eintr,
        6 => Step::Fail,
        7..=9 => Step::FailK(i as u8 - 6),
        _ => Step::Panic,
    }
}
const N_ESYM: usize = 10;
const EWMENU: [usize; 2] = [1, 2];
fn ewsym(i: usize) -> Step {
    match i {
        0..=1 => Step::Deliver(EWMENU[i]),
        2 => Step::Deliver(ALL),
        3 => Step::Eintr,
        4 => Step::Zero,
        5 => Step::Fail,
        6..=8 => Step::FailK(i as u8 - 5),
        _ => Step::Panic,
    }
}
const N_EWSYM: usize = 9;

/// Every sequence of length <= `l` over the symbols `0..n_sym`, then every sequence of length < `lp` followed by the
/// panic symbol (index `n_sym`): a panicking call ends the helper, so it is only ever the last entry.
fn for_each_script(n_sym: usize, l: usize, lp: usize, mut f: impl FnMut(&[usize])) {
    for_each_seq(n_sym, l, &mut f);
    if lp >= 1 {
        let mut buf: Vec<usize> = Vec::new();
        for_each_seq(n_sym, lp - 1, |idx| {
            buf.clear();
            buf.extend_from_slice(idx);
            buf.push(n_sym);
            f(&buf);
        });
    }
}

fn script_string(script: &[Step], writer: bool, out: &mut String) {
    use std::fmt::Write as _;
    for (i, s) in script.iter().enumerate() {
        if i > 0 {
            out.push(' ');
        }
        match s {
            Step::Deliver(ALL) => out.push_str(if writer { "AALL" } else { "DALL" }),
            Step::Deliver(HALF) => out.push_str("DHALF"),
            Step::Deliver(k) => {
                let _ = write!(out, "{}{k}", if writer { 'A' } else { 'D' });
            }
            Step::Zero => out.push('Z'),
            Step::Eintr => out.push('I'),
            Step::Fail => out.push('F'),
            Step::FailK(k) => out.push_str(["F", "FA", "FT", "FU"][*k as usize & 3]),
            Step::Panic => out.push('P'),
        }
    }
}

fn parse_script(s: &str) -> Vec<Step> {
    s.split_whitespace()
        .map(|t| match t {
            "Z" => Step::Zero,
            "I" => Step::Eintr,
            "F" => Step::Fail,
            "FA" => Step::FailK(1),
            "FT" => Step::FailK(2),
            "FU" => Step::FailK(3),
            "P" => Step::Panic,
            "DALL" | "AALL" => Step::Deliver(ALL),
            "DHALF" => Step::Deliver(HALF),
            _ => Step::Deliver(t[1..].parse().expect("script token")),
        })
        .collect()
}

fn eintr() -> Error {
    Error::Os { msg: "scripted EINTR", code: Errno::EINTR }
}
fn eio() -> Error {
    Error::Os { msg: "scripted EIO", code: Errno::EIO }
}
const UNCAT_MSG: &str = "scripted uncategorized error";
const KIND_NAMES: [&str; 4] = ["EIO", "EAGAIN", "Error::Timeout", "Error::Uncategorized"];
/// the scripted error of kind `k` (0 EIO, 1 EAGAIN, 2 Timeout, 3 Uncategorized)
fn fail_error(k: u8) -> Error {
    match k {
        0 => eio(),
        1 => Error::Os { msg: "scripted EAGAIN", code: Errno::EAGAIN },
        2 => Error::Timeout,
        _ => Error::Uncategorized(UNCAT_MSG),
    }
}
/// is `e` the scripted error of kind `k`
fn same_error(e: &Error, k: u8) -> bool {
    match k {
        0 => e.matches_errno(Errno::EIO),
        1 => e.matches_errno(Errno::EAGAIN),
        2 => matches!(e, Error::Timeout),
        _ => matches!(e, Error::Uncategorized(m) if *m == UNCAT_MSG),
    }
}

#[inline]
fn mix(h: u64, x: u64) -> u64 {
    (h ^ x).wrapping_mul(0x100000001b3)
}

// ---------------------------------------------------------------------------
// scripted reader

struct SReader<'a> {
    payload: &'a [u8],
    pos: usize,
    script: &'a [Step],
    cur: usize,
    menu: &'a [usize],
    calls: usize,
    horizon: usize,
    saw_eof: bool,
    saw_fail: bool,
    saw_eintr: bool,
    saw_panic: bool,
    /// kind of the first non-EINTR error returned, and the read calls made after it
    fail_kind: Option<u8>,
    calls_after_fail: usize,
    /// the script is the canonical representative of the response trace it produced
    canonical: bool,
    thash: u64,
    /// bit p set: a delivery ended at payload offset p with bytes still remaining
    cuts: u128,
    trace: Option<Vec<String>>,
    /// what the reader does once the script is used up
    tail: Step,
    /// size-ladder mode: the tail repeats the last scripted chunk size; `HALF` is a menu entry
    ladder: bool,
}

const TRACE_CAP: usize = 48;

impl<'a> SReader<'a> {
    /// size-ladder reader: after the script it keeps delivering with the last scripted chunk size until the data ends
    fn new_ladder(payload: &'a [u8], script: &'a [Step], verbose: bool) -> Self {
        let mut rd = SReader::new(payload, script, &LMENU, verbose);
        rd.ladder = true;
        rd.tail = script.iter().rev().find(|s| matches!(s, Step::Deliver(_))).copied().unwrap_or(Step::Deliver(ALL));
        // a script whose last entry is the chunk size the shorter script would repeat anyway is that shorter script
        if let Some((Step::Deliver(k), rest)) = script.split_last() {
            let prev = rest.iter().rev().find(|s| matches!(s, Step::Deliver(_))).copied().unwrap_or(Step::Deliver(ALL));
            if prev == Step::Deliver(*k) {
                rd.canonical = false;
            }
        }
        rd
    }
    fn with_mode(payload: &'a [u8], script: &'a [Step], ladder: bool, verbose: bool) -> Self {
        if ladder {
            SReader::new_ladder(payload, script, verbose)
        } else {
            let menu: &'a [usize] = MENU_OVERRIDE.with(|m| m.get()).unwrap_or(&RMENU);
            SReader::new(payload, script, menu, verbose)
        }
    }
    fn new(payload: &'a [u8], script: &'a [Step], menu: &'a [usize], verbose: bool) -> Self {
        SReader {
            payload,
            pos: 0,
            script,
            cur: 0,
            menu,
            calls: 0,
            horizon: script.len() + payload.len() + 64,
            saw_eof: false,
            saw_fail: false,
            saw_eintr: false,
            saw_panic: false,
            fail_kind: None,
            calls_after_fail: 0,
            canonical: true,
            thash: 0xcbf29ce484222325,
            cuts: 0,
            trace: if verbose { Some(Vec::new()) } else { None },
            tail: Step::Deliver(ALL),
            ladder: false,
        }
    }
    fn delivered(&self) -> &'a [u8] {
        &self.payload[..self.pos]
    }
    /// every script entry was consumed and no shorter/other script of the enumeration gives the same responses
    fn counts_as_distinct(&self) -> bool {
        self.canonical && self.cur == self.script.len()
    }
    fn livelocked(&self) -> bool {
        self.calls > self.horizon
    }
}

impl Read for SReader<'_> {
    fn read(&mut self, buf: &mut [u8]) -> tiny_std::Result<usize> {
        self.calls += 1;
        if self.calls > self.horizon {
            panic!("{HORIZON_MSG}");
        }
        if self.fail_kind.is_some() {
            self.calls_after_fail += 1;
        }
        if buf.is_empty() {
            // not an answer of the script: an empty buffer can only receive 0 bytes
            if let Some(t) = &mut self.trace {
                t.push("read(len 0) -> Ok(0) [empty buffer]".into());
            }
            return Ok(0);
        }
        let remaining = self.payload.len() - self.pos;
        let avail = remaining.min(buf.len());
        let (step, scripted) = if self.cur < self.script.len() {
            self.cur += 1;
            (self.script[self.cur - 1], true)
        } else {
            (self.tail, false)
        };
        let last = scripted && self.cur == self.script.len();
        let res = match step {
            Step::Deliver(k) => {
                let half = (buf.len() / 2).max(1);
                let k = if k == HALF { half } else { k };
                let n = k.min(avail);
                if scripted && self.ladder {
                    // counted once per script whose deliveries were honoured as written: a clipped delivery, or a
                    // HALF/ALL that coincides with a smaller menu entry, duplicates the script with that entry
                    let dup = match self.script[self.cur - 1] {
                        Step::Deliver(ALL) => n == 0 || self.menu.contains(&n) || n == half,
                        Step::Deliver(HALF) => n != half || self.menu.contains(&n),
                        _ => n != k,
                    };
                    if dup {
                        self.canonical = false;
                    }
                } else if scripted {
                    if n == 0 {
                        self.canonical = false; // `Z` stands for this response
                    } else if k == ALL {
                        if self.menu.contains(&n) {
                            self.canonical = false; // `D<n>` stands for it
                        }
                    } else if n != k {
                        self.canonical = false; // `D<n>` or `DALL` stands for it
                    }
                    if last && n == avail {
                        self.canonical = false; // same as the behaviour after the script
                    }
                }
                buf[..n].copy_from_slice(&self.payload[self.pos..self.pos + n]);
                self.pos += n;
                if n == 0 {
                    self.saw_eof = true;
                } else if self.pos < self.payload.len() {
                    self.cuts |= 1u128 << (self.pos & 127);
                }
                Ok(n)
            }
            Step::Zero => {
                if last && remaining == 0 {
                    self.canonical = false;
                }
                self.saw_eof = true;
                Ok(0)
            }
            Step::Eintr => {
                self.saw_eintr = true;
                Err(eintr())
            }
            Step::Fail | Step::FailK(_) => {
                let k = if let Step::FailK(k) = step { k } else { 0 };
                self.saw_fail = true;
                self.fail_kind.get_or_insert(k);
                self.thash = mix(self.thash, 0x1000 + k as u64);
                Err(fail_error(k))
            }
            Step::Panic => {
                self.saw_panic = true;
                self.thash = mix(self.thash, u64::MAX);
                if let Some(t) = &mut self.trace {
                    t.push(format!("read(len {}) -> panics", buf.len()));
                }
                panic!("{SCRIPTED_PANIC_MSG}");
            }
        };
        self.thash = mix(
            self.thash,
            match &res {
                Ok(n) => *n as u64 + 3,
                Err(e) if e.matches_errno(Errno::EINTR) => 1,
                Err(_) => 2,
            },
        );
        if let Some(t) = &mut self.trace {
            if t.len() < TRACE_CAP {
                t.push(format!("read(len {}) -> {:?}{}", buf.len(), res, if scripted { "" } else { " [after script]" }));
            } else if t.len() == TRACE_CAP {
                t.push("... (further calls not shown)".into());
            }
        }
        res
    }
}

// ---------------------------------------------------------------------------
// scripted writer

struct SWriter<'a> {
    script: &'a [Step],
    cur: usize,
    menu: &'a [usize],
    accepted: Vec<u8>,
    calls: usize,
    horizon: usize,
    saw_fail: bool,
    saw_zero: bool,
    saw_eintr: bool,
    saw_panic: bool,
    fail_kind: Option<u8>,
    short: bool,
    sticky: Option<Step>,
    canonical: bool,
    trace: Option<Vec<String>>,
}

impl<'a> SWriter<'a> {
    fn new(script: &'a [Step], menu: &'a [usize], expect_len: usize, verbose: bool) -> Self {
        SWriter {
            script,
            cur: 0,
            menu,
            accepted: Vec::with_capacity(expect_len + 8),
            calls: 0,
            horizon: script.len() + expect_len + 64,
            saw_fail: false,
            saw_zero: false,
            saw_eintr: false,
            saw_panic: false,
            fail_kind: None,
            short: false,
            sticky: None,
            canonical: true,
            trace: if verbose { Some(Vec::new()) } else { None },
        }
    }
    fn counts_as_distinct(&self) -> bool {
        self.canonical && self.cur == self.script.len()
    }
    fn livelocked(&self) -> bool {
        self.calls > self.horizon
    }
}

impl Write for SWriter<'_> {
    fn write(&mut self, buf: &[u8]) -> tiny_std::Result<usize> {
        self.calls += 1;
        if self.calls > self.horizon {
            panic!("{HORIZON_MSG}");
        }
        if buf.is_empty() {
            if let Some(t) = &mut self.trace {
                t.push("write(len 0) -> Ok(0) [empty buffer]".into());
            }
            return Ok(0);
        }
        let (step, scripted) = if let Some(s) = self.sticky {
            (s, false)
        } else if self.cur < self.script.len() {
            self.cur += 1;
            (self.script[self.cur - 1], true)
        } else {
            (Step::Deliver(ALL), false)
        };
        let last = scripted && self.cur == self.script.len();
        let res = match step {
            Step::Deliver(k) => {
                let n = k.min(buf.len());
                if scripted {
                    if k == ALL {
                        if self.menu.contains(&n) {
                            self.canonical = false;
                        }
                    } else if n != k {
                        self.canonical = false;
                    }
                    if last && n == buf.len() {
                        self.canonical = false;
                    }
                }
                if n < buf.len() {
                    self.short = true;
                }
                self.accepted.extend_from_slice(&buf[..n]);
                Ok(n)
            }
            Step::Zero => {
                self.saw_zero = true;
                self.sticky = Some(Step::Zero);
                Ok(0)
            }
            Step::Eintr => {
                self.saw_eintr = true;
                Err(eintr())
            }
            Step::Fail | Step::FailK(_) => {
                let k = if let Step::FailK(k) = step { k } else { 0 };
                self.saw_fail = true;
                self.fail_kind.get_or_insert(k);
                self.sticky = Some(step);
                Err(fail_error(k))
            }
            Step::Panic => {
                self.saw_panic = true;
                if let Some(t) = &mut self.trace {
                    t.push(format!("write(len {}) -> panics", buf.len()));
                }
                panic!("{SCRIPTED_PANIC_MSG}");
            }
        };
        if let Some(t) = &mut self.trace {
            if t.len() < TRACE_CAP {
                t.push(format!("write(len {}) -> {:?}{}", buf.len(), res, if scripted { "" } else { " [sticky / after script]" }));
            } else if t.len() == TRACE_CAP {
                t.push("... (further calls not shown)".into());
            }
        }
        res
    }
    fn flush(&mut self) -> tiny_std::Result<()> {
        Ok(())
    }
}

// ---------------------------------------------------------------------------
// case plumbing

/// `{"op":..,..` without the closing brace; `case_string` appends the script.
fn case_prefix(v: Value) -> String {
    let mut s = v.to_string();
    s.pop();
    s.push_str(",\"script\":\"");
    s
}

fn case_string(out: &mut String, prefix: &str, script: &[Step], writer: bool) {
    out.clear();
    out.push_str(prefix);
    script_string(script, writer, out);
    out.push_str("\"}");
}

fn case_json(case: &str) -> Value {
    serde_json::from_str(case).unwrap_or_else(|_| Value::String(case.to_string()))
}

fn viol(r: &mut Report, op: &str, kind: &str, desc: String, case: &str) {
    r.violation(&format!("C15:{op}:{kind}"), desc, case_json(case));
}

/// `show_bytes`, shortened for long operands
fn brief(b: &[u8]) -> String {
    if b.len() <= 128 {
        show_bytes(b)
    } else {
        format!("{}...[{} bytes]", show_bytes(&b[..32]), b.len())
    }
}

/// where two byte strings part
fn diff_desc(got: &[u8], want: &[u8]) -> String {
    let i = got.iter().zip(want.iter()).take_while(|(a, b)| a == b).count();
    format!(
        "got {} bytes {}, expected {} bytes {}; first difference at offset {i}: got {} expected {}",
        got.len(),
        brief(got),
        want.len(),
        brief(want),
        show_bytes(&got[i..got.len().min(i + 12)]),
        show_bytes(&want[i..want.len().min(i + 12)])
    )
}

fn print_trace(t: &Option<Vec<String>>) {
    if let Some(t) = t {
        for l in t {
            println!("    {l}");
        }
    }
}

fn rd_summary(rd: &SReader) -> String {
    format!(
        "reader handed out {} of {} payload bytes in {} calls (saw Ok(0): {}, EINTR: {}, other error: {})",
        rd.pos,
        rd.payload.len(),
        rd.calls,
        rd.saw_eof,
        rd.saw_eintr,
        rd.saw_fail
    )
}

// ---------------------------------------------------------------------------
// read_to_end

#[allow(clippy::too_many_arguments)]
fn run_rte(r: &mut Report, case: &str, payload: &[u8], script: &[Step], len0: usize, cap0: usize, ladder: bool, verbose: bool) {
    const OP: &str = "read_to_end";
    r.eval();
    let mut v: Vec<u8> = Vec::with_capacity(cap0);
    v.extend_from_slice(&OLD[..len0]);
    if v.capacity() != cap0 {
        r.outcome("setup:capacity-differs-from-request");
    }
    let cap_before = v.capacity();
    let mut rd = SReader::with_mode(payload, script, ladder, verbose);
    let res = catch(|| rd.read_to_end(&mut v));
    if rd.counts_as_distinct() {
        r.nontrivial_unique();
    }
    if verbose {
        print_trace(&rd.trace);
        println!("  result: {res:?}; vec len {} cap {}; {}", v.len(), v.capacity(), rd_summary(&rd));
    }
    let want = rd.delivered();
    match res {
        Err(p) if rd.saw_panic && p.contains(SCRIPTED_PANIC_MSG) => {
            // the reader's own panic unwound through the helper: nothing is stated beyond "appended after existing content"
            r.outcome("read_to_end:reader-panic-unwound");
            if v.len() < len0 || v[..len0] != OLD[..len0] {
                viol(r, OP, "existing-content-clobbered", format!("after the reader's panic unwound, the first {len0} bytes are {}", show_bytes(&v[..len0.min(v.len())])), case);
            }
        }
        Err(p) => {
            if rd.livelocked() {
                r.outcome("read_to_end:livelock");
                viol(r, OP, "livelock", format!("more than {} read calls; {}", rd.horizon, rd_summary(&rd)), case);
            } else {
                r.outcome("read_to_end:panic");
                viol(r, OP, "panic", format!("panicked: {p}; {}", rd_summary(&rd)), case);
            }
        }
        Ok(Ok(n)) => {
            if rd.saw_fail {
                r.outcome("read_to_end:error-swallowed");
                viol(r, OP, "error-swallowed", format!("returned Ok({n}) although the reader returned an error; {}", rd_summary(&rd)), case);
                return;
            }
            if !rd.saw_eof {
                r.outcome("read_to_end:premature-return");
                viol(r, OP, "premature-return", format!("returned Ok({n}) without ever seeing Ok(0); {}", rd_summary(&rd)), case);
                return;
            }
            r.outcome(match (rd.saw_eintr, rd.pos < payload.len()) {
                (false, false) => "read_to_end:ok",
                (true, false) => "read_to_end:ok-after-eintr",
                (false, true) => "read_to_end:ok-early-eof",
                (true, true) => "read_to_end:ok-early-eof-after-eintr",
            });
            r.outcome(if v.capacity() == cap_before { "read_to_end:capacity-kept" } else { "read_to_end:capacity-grew" });
            if v.len() < len0 || v[..len0] != OLD[..len0] {
                viol(r, OP, "existing-content-clobbered", format!("first {len0} bytes are now {}", show_bytes(&v[..len0.min(v.len())])), case);
            } else if &v[len0..] != want {
                viol(
                    r,
                    OP,
                    "wrong-bytes",
format!("appended vs delivered: {}", diff_desc(&v[len0..], want)),
                    case,
                );
            }
            if n != want.len() {
                viol(r, OP, "wrong-count", format!("returned Ok({n}), reader delivered {} bytes (vec grew by {})", want.len(), v.len() as isize - len0 as isize), case);
            }
        }
        Ok(Err(e)) => {
            if rd.saw_fail {
                let k = rd.fail_kind.unwrap_or(0);
                if same_error(&e, k) {
                    r.outcome(if k == 0 { "read_to_end:error-surfaced" } else { "read_to_end:error-surfaced(non-EIO kind)" });
                } else {
                    r.outcome("read_to_end:wrong-error");
                    viol(r, OP, "wrong-error", format!("reader failed with {}, helper returned {e:?}", KIND_NAMES[k as usize]), case);
                }
                if rd.calls_after_fail > 0 {
                    viol(r, OP, "read-after-error", format!("{} read calls after the reader returned {}; {}", rd.calls_after_fail, KIND_NAMES[k as usize], rd_summary(&rd)), case);
                }
                // what was read before the error is kept, after the existing content
                if v.len() < len0 || v[..len0] != OLD[..len0] || &v[len0..] != want {
                    viol(r, OP, "data-before-error-lost", format!("after Err({e:?}): vector minus its {len0} old bytes vs delivered: {}", diff_desc(&v[len0.min(v.len())..], want)), case);
                }
            } else if e.matches_errno(Errno::EINTR) {
                r.outcome("read_to_end:eintr-surfaced");
                viol(r, OP, "eintr-surfaced", format!("returned {e:?} instead of retrying; {}", rd_summary(&rd)), case);
            } else {
                r.outcome("read_to_end:spurious-error");
                viol(r, OP, "spurious-error", format!("returned {e:?} although the reader reported no error; {}", rd_summary(&rd)), case);
            }
        }
    }
}

thread_local! {
    /// menu override for the canonical-script rule (error-kind scripts use their own delivery menu)
    static MENU_OVERRIDE: std::cell::Cell<Option<&'static [usize]>> = const { std::cell::Cell::new(None) };
}
fn run_rte_menu(r: &mut Report, case: &str, payload: &[u8], script: &[Step], len0: usize, cap0: usize, menu: &'static [usize]) {
    MENU_OVERRIDE.with(|m| m.set(Some(menu)));
    run_rte(r, case, payload, script, len0, cap0, false, false);
    MENU_OVERRIDE.with(|m| m.set(None));
}
fn run_rex_menu(r: &mut Report, case: &str, payload: &[u8], script: &[Step], bufsize: usize, menu: &'static [usize]) {
    MENU_OVERRIDE.with(|m| m.set(Some(menu)));
    run_rex(r, case, payload, script, bufsize, false, false);
    MENU_OVERRIDE.with(|m| m.set(None));
}

// ---------------------------------------------------------------------------
// read_to_string

/// `ident` identifies (payload, initial state) for the distinct-case hash.
#[allow(clippy::too_many_arguments)]
fn run_rts(r: &mut Report, case: &str, payload: &[u8], script: &[Step], menu: &[usize], old: &str, spare: usize, ident: u64, ladder: bool, verbose: bool) -> u128 {
    const OP: &str = "read_to_string";
    r.eval();
    let mut s = String::with_capacity(old.len() + spare);
    s.push_str(old);
    let mut rd = if ladder { SReader::new_ladder(payload, script, verbose) } else { SReader::new(payload, script, menu, verbose) };
    let res = catch(|| rd.read_to_string(&mut s));
    if ladder || ident == u64::MAX {
        // generated once per (state, script): counted by the canonical-script rule
        if rd.counts_as_distinct() {
            r.nontrivial_unique();
        }
    } else {
        // several sub-enumerations of read_to_string overlap: distinct cases are counted by response trace
        r.nontrivial(&(ident, rd.thash, rd.calls));
    }
    // look at the raw bytes first: a String holding invalid UTF-8 must not be touched through str APIs
    let raw: Vec<u8> = s.as_bytes().to_vec();
    if verbose {
        print_trace(&rd.trace);
        println!("  result: {res:?}; string bytes now {}; {}", brief(&raw), rd_summary(&rd));
    }
    let delivered = rd.delivered();
    let delivered_utf8 = std::str::from_utf8(delivered).is_ok();
    let unchanged = raw == old.as_bytes();
    if std::str::from_utf8(&raw).is_err() {
        // the type invariant of String, whatever way the call ended
        let unwound = res.is_err() && rd.saw_panic;
        viol(
            r,
            OP,
            if unwound { "invalid-utf8-left-after-unwind" } else { "string-holds-invalid-utf8" },
            format!("String bytes after the call: {} (result {res:?}); {}", brief(&raw), rd_summary(&rd)),
            case,
        );
        std::mem::forget(s);
        r.outcome("read_to_string:string-corrupted");
        return rd.cuts;
    }
    match res {
        Err(p) if rd.saw_panic && p.contains(SCRIPTED_PANIC_MSG) => {
            // the reader's own panic unwound through the helper; the String is valid UTF-8 (checked above) and must be
            // unchanged when what was appended so far is not UTF-8
            r.outcome(if delivered_utf8 { "read_to_string:reader-panic-unwound" } else { "read_to_string:reader-panic-unwound-over-invalid-utf8" });
            if !delivered_utf8 && !unchanged {
                viol(
                    r,
                    OP,
                    "string-modified-on-invalid-utf8",
                    format!("delivered bytes {} are not UTF-8, the reader then panicked; string changed from {:?} to bytes {}", brief(delivered), old, brief(&raw)),
                    case,
                );
            }
        }
        Err(p) => {
            if rd.livelocked() {
                r.outcome("read_to_string:livelock");
                viol(r, OP, "livelock", format!("more than {} read calls; {}", rd.horizon, rd_summary(&rd)), case);
            } else {
                r.outcome("read_to_string:panic");
                viol(r, OP, "panic", format!("panicked: {p}; {}", rd_summary(&rd)), case);
            }
        }
        Ok(Ok(n)) => {
            if rd.saw_fail {
                r.outcome("read_to_string:error-swallowed");
                viol(r, OP, "error-swallowed", format!("returned Ok({n}) although the reader returned an error; {}", rd_summary(&rd)), case);
                return rd.cuts;
            }
            if !rd.saw_eof {
                r.outcome("read_to_string:premature-return");
                viol(r, OP, "premature-return", format!("returned Ok({n}) without ever seeing Ok(0); {}", rd_summary(&rd)), case);
                return rd.cuts;
            }
            if !delivered_utf8 {
                r.outcome("read_to_string:accepted-invalid-utf8");
                viol(r, OP, "accepted-invalid-utf8", format!("returned Ok({n}) for delivered bytes {}", brief(delivered)), case);
                return rd.cuts;
            }
            r.outcome(match (rd.saw_eintr, rd.pos < payload.len()) {
                (false, false) => "read_to_string:ok",
                (true, false) => "read_to_string:ok-after-eintr",
                (false, true) => "read_to_string:ok-early-eof",
                (true, true) => "read_to_string:ok-early-eof-after-eintr",
            });
            let mut want = old.as_bytes().to_vec();
            want.extend_from_slice(delivered);
            if raw != want {
                viol(r, OP, "wrong-bytes", format!("string vs old + delivered: {}", diff_desc(&raw, &want)), case);
            }
            if n != delivered.len() {
                viol(r, OP, "wrong-count", format!("returned Ok({n}), reader delivered {} bytes", delivered.len()), case);
            }
        }
        Ok(Err(e)) => {
            if rd.saw_fail {
                // "surface any other error": the reader's own error, also when the bytes read so far end inside a
                // character (another error in its place means the reader's was not surfaced); the string stays
                let k = rd.fail_kind.unwrap_or(0);
                if rd.calls_after_fail > 0 {
                    viol(r, OP, "read-after-error", format!("{} read calls after the reader returned {}; {}", rd.calls_after_fail, KIND_NAMES[k as usize], rd_summary(&rd)), case);
                }
                if delivered_utf8 {
                    // what was read before the error is kept (it is valid UTF-8), after the existing content
                    let mut want = old.as_bytes().to_vec();
                    want.extend_from_slice(delivered);
                    if raw != want {
                        viol(r, OP, "data-before-error-lost", format!("after Err({e:?}): string vs old + delivered: {}", diff_desc(&raw, &want)), case);
                    }
                }
                if same_error(&e, k) {
                    r.outcome(if delivered_utf8 { "read_to_string:error-surfaced" } else { "read_to_string:error-surfaced-over-invalid-utf8" });
                } else {
                    r.outcome("read_to_string:wrong-error");
                    viol(
                        r,
                        OP,
                        "wrong-error",
                        format!("reader failed with {} after delivering {} ({}UTF-8), helper returned {e:?}", KIND_NAMES[k as usize], brief(delivered), if delivered_utf8 { "" } else { "not " }),
                        case,
                    );
                }
                if !delivered_utf8 && !unchanged {
                    viol(
                        r,
                        OP,
                        "string-modified-on-invalid-utf8",
                        format!("delivered bytes {} are not UTF-8, result {e:?}, string changed from {:?} to bytes {}", brief(delivered), old, brief(&raw)),
                        case,
                    );
                }
            } else if e.matches_errno(Errno::EINTR) {
                r.outcome("read_to_string:eintr-surfaced");
                viol(r, OP, "eintr-surfaced", format!("returned {e:?} instead of retrying; {}", rd_summary(&rd)), case);
            } else if !delivered_utf8 {
                // the data is not UTF-8: an error is due and the string stays
                r.outcome("read_to_string:invalid-utf8");
                if !unchanged {
                    viol(
                        r,
                        OP,
                        "string-modified-on-invalid-utf8",
                        format!("delivered bytes {} are not UTF-8, result {e:?}, string changed from {:?} to bytes {}", brief(delivered), old, brief(&raw)),
                        case,
                    );
                }
            } else {
                r.outcome("read_to_string:spurious-error");
                viol(r, OP, "spurious-error", format!("returned {e:?}; delivered bytes {} are UTF-8 and the reader reported no error", brief(delivered)), case);
            }
        }
    }
    rd.cuts
}

// ---------------------------------------------------------------------------
// read_exact

fn run_rex(r: &mut Report, case: &str, payload: &[u8], script: &[Step], bufsize: usize, ladder: bool, verbose: bool) {
    const OP: &str = "read_exact";
    r.eval();
    let mut b = vec![SENTINEL; bufsize];
    let mut rd = SReader::with_mode(payload, script, ladder, verbose);
    let res = catch(|| rd.read_exact(&mut b));
    if rd.counts_as_distinct() {
        r.nontrivial_unique();
    }
    if verbose {
        print_trace(&rd.trace);
        println!("  result: {res:?}; buffer {}; {}", brief(&b), rd_summary(&rd));
    }
    match res {
        Err(p) if rd.saw_panic && p.contains(SCRIPTED_PANIC_MSG) => {
            // the reader's own panic unwound through the helper: nothing is stated about the buffer
            r.outcome("read_exact:reader-panic-unwound");
        }
        Err(p) => {
            if rd.livelocked() {
                r.outcome("read_exact:livelock");
                viol(r, OP, "livelock", format!("more than {} read calls; {}", rd.horizon, rd_summary(&rd)), case);
            } else {
                r.outcome("read_exact:panic");
                viol(r, OP, "panic", format!("panicked: {p}; {}", rd_summary(&rd)), case);
            }
        }
        Ok(Ok(())) => {
            if rd.saw_fail {
                r.outcome("read_exact:error-swallowed");
                viol(r, OP, "error-swallowed", format!("returned Ok although the reader returned an error; {}", rd_summary(&rd)), case);
            } else if rd.pos < bufsize {
                r.outcome("read_exact:ok-on-short-read");
                viol(r, OP, "ok-on-short-read", format!("returned Ok for a {bufsize}-byte buffer; {}", rd_summary(&rd)), case);
            } else if rd.pos > bufsize {
                r.outcome("read_exact:over-consumed");
                viol(r, OP, "over-consumed", format!("took {} bytes from the reader for a {bufsize}-byte buffer", rd.pos), case);
            } else {
                r.outcome(match (bufsize == 0, rd.saw_eintr) {
                    (true, _) => "read_exact:ok-empty-buffer",
                    (false, false) => "read_exact:ok",
                    (false, true) => "read_exact:ok-after-eintr",
                });
                if b[..] != payload[..bufsize] {
                    viol(r, OP, "wrong-bytes", format!("buffer vs the first {bufsize} delivered bytes: {}", diff_desc(&b, &payload[..bufsize])), case);
                }
            }
        }
        Ok(Err(e)) => {
            if rd.saw_fail {
                let k = rd.fail_kind.unwrap_or(0);
                if same_error(&e, k) {
                    r.outcome("read_exact:error-surfaced");
                } else {
                    r.outcome("read_exact:wrong-error");
                    viol(r, OP, "wrong-error", format!("reader failed with {}, helper returned {e:?}", KIND_NAMES[k as usize]), case);
                }
                if rd.calls_after_fail > 0 {
                    viol(r, OP, "read-after-error", format!("{} read calls after the reader returned {}; {}", rd.calls_after_fail, KIND_NAMES[k as usize], rd_summary(&rd)), case);
                }
            } else if e.matches_errno(Errno::EINTR) {
                r.outcome("read_exact:eintr-surfaced");
                viol(r, OP, "eintr-surfaced", format!("returned {e:?} instead of retrying; {}", rd_summary(&rd)), case);
            } else if rd.saw_eof && rd.pos < bufsize {
                r.outcome("read_exact:eof-short");
            } else {
                r.outcome("read_exact:spurious-error");
                viol(r, OP, "spurious-error", format!("returned {e:?} for a {bufsize}-byte buffer; {}", rd_summary(&rd)), case);
            }
        }
    }
}

// ---------------------------------------------------------------------------
// write_all / write_fmt

struct FmtCase {
    name: &'static str,
    expect: String,
    run: for<'a, 'b> fn(&'a mut SWriter<'b>) -> tiny_std::Result<()>,
}

macro_rules! fmt_case {
    ($($t:tt)*) => {{
        fn run(w: &mut SWriter<'_>) -> tiny_std::Result<()> {
            w.write_fmt(format_args!($($t)*))
        }
        FmtCase { name: stringify!($($t)*), expect: format!($($t)*), run }
    }};
}

/// keeps the compiler from folding literal arguments into the format string (which would leave one fragment)
fn bb<T>(t: T) -> T {
    std::hint::black_box(t)
}

fn fmt_cases() -> Vec<FmtCase> {
    vec![
        fmt_case!(""),
        fmt_case!("abc"),
        fmt_case!("{}", bb("x")),
        fmt_case!("{}-{}{}", bb(""), bb(0u32), bb("")),
        fmt_case!("{}-{}{}", bb("h\u{e9}llo"), bb(12345u32), bb("yz")),
        fmt_case!("{}{}{}{}{}{}", bb('a'), bb('b'), bb('c'), bb('d'), bb('e'), bb('f')),
        fmt_case!("{:>4}|{:<3}|{:^5}", bb("\u{e9}"), bb(7u8), bb("ab")),
        fmt_case!("{:?} {:#x}", bb("a\"b\n"), bb(255u32)),
        fmt_case!("{}{}", bb("0123456789abcdef0123456789abcdef"), bb("!")),
    ]
}

// ---- size ladder: formatted pieces of chosen lengths

/// reference sink: what `core::fmt` itself hands to a `fmt::Write`, piece by piece
#[derive(Default)]
struct Pieces {
    out: String,
    nonempty: usize,
}
impl core::fmt::Write for Pieces {
    fn write_str(&mut self, s: &str) -> core::fmt::Result {
        if !s.is_empty() {
            self.nonempty += 1;
        }
        self.out.push_str(s);
        Ok(())
    }
}

enum Sink<'a, 'b> {
    Tiny(&'a mut SWriter<'b>),
    Std(&'a mut Pieces),
}

macro_rules! emit {
    ($sink:expr, $($t:tt)*) => {
        match $sink {
            Sink::Tiny(w) => w.write_fmt(format_args!($($t)*)),
            Sink::Std(p) => {
                let _ = core::fmt::Write::write_fmt(p, format_args!($($t)*));
                Ok(())
            }
        }
    };
}

/// a 130-byte literal piece (larger than any small staging buffer)
macro_rules! long130 {
    () => {
        "0123456789012345678901234567890123456789012345678901234567890123456789012345678901234567890123456789012345678901234567890123456789"
    };
}

/// piece `i` of length `len`: its own 6-letter window of the alphabet, so that pieces cannot be mistaken for each other
fn piece(i: usize, len: usize) -> String {
    (0..len).map(|j| (b'A' + 6 * i as u8 + (j % 6) as u8) as char).collect()
}

const N_SHAPES: usize = 3;
/// literal pieces of shape `shape` with `n` arguments (None: shape not defined for that n)
fn shape_literals(shape: usize, n: usize) -> Option<usize> {
    match (shape, n) {
        (0, 1..=4) => Some(0),
        (1, 1..=4) => Some(n),
        (2, 1..=2) => Some(1),
        _ => None,
    }
}

/// Format the pieces `p` with shape 0: "{}{}.." (arguments only), 1: "a={} b={}.." (a short literal before each
/// argument), 2: "{}<130-byte literal>" / "{}<130-byte literal>{}".  The arguments go through `black_box`, so each
/// stays a fragment of its own.
fn ladder_fmt(shape: usize, p: &[&str], sink: Sink<'_, '_>) -> tiny_std::Result<()> {
    match (shape, p.len()) {
        (0, 1) => emit!(sink, "{}", bb(p[0])),
        (0, 2) => emit!(sink, "{}{}", bb(p[0]), bb(p[1])),
        (0, 3) => emit!(sink, "{}{}{}", bb(p[0]), bb(p[1]), bb(p[2])),
        (0, 4) => emit!(sink, "{}{}{}{}", bb(p[0]), bb(p[1]), bb(p[2]), bb(p[3])),
        (1, 1) => emit!(sink, "a={}", bb(p[0])),
        (1, 2) => emit!(sink, "a={} b={}", bb(p[0]), bb(p[1])),
        (1, 3) => emit!(sink, "a={} b={} c={}", bb(p[0]), bb(p[1]), bb(p[2])),
        (1, 4) => emit!(sink, "a={} b={} c={} d={}", bb(p[0]), bb(p[1]), bb(p[2]), bb(p[3])),
        (2, 1) => emit!(sink, concat!("{}", long130!()), bb(p[0])),
        (2, 2) => emit!(sink, concat!("{}", long130!(), "{}"), bb(p[0]), bb(p[1])),
        _ => panic!("undefined format shape {shape} for {} pieces", p.len()),
    }
}

/// One (shape, piece lengths) point of the write_fmt ladder through every writer script of length <= `l`.
fn run_fmt_ladder_point(r: &mut Report, shape: usize, lens: &[usize], l: usize, max_frags: &mut usize) {
    let strs: Vec<String> = lens.iter().enumerate().map(|(i, &n)| piece(i, n)).collect();
    let p: Vec<&str> = strs.iter().map(|s| s.as_str()).collect();
    let mut reference = Pieces::default();
    let _ = ladder_fmt(shape, &p, Sink::Std(&mut reference));
    let expect_frags = lens.iter().filter(|&&n| n > 0).count() + shape_literals(shape, lens.len()).unwrap_or(0);
    if reference.nonempty != expect_frags {
        r.cap(format!("write_fmt ladder: shape {shape} pieces {lens:?} reached fmt::Write as {} fragments, {expect_frags} intended", reference.nonempty));
    }
    *max_frags = (*max_frags).max(reference.nonempty);
    let payload = reference.out.as_bytes();
    let prefix = case_prefix(json!({"op":"write_fmt","ladder":true,"shape":shape,"pieces":lens}));
    let mut cs = String::new();
    let mut steps: Vec<Step> = Vec::new();
    for_each_script(N_LWSYM, l, l, |idx| {
        steps.clear();
        steps.extend(idx.iter().map(|&i| lwsym(i)));
        case_string(&mut cs, &prefix, &steps, true);
        set_case(&cs);
        run_write(r, "write_fmt", &cs, payload, &steps, &LWMENU, &|w| ladder_fmt(shape, &p, Sink::Tiny(w)), false);
        clear_case();
    });
}

/// deterministic, aperiodic-looking bytes for the large payloads
fn ladder_payload(n: usize) -> Vec<u8> {
    (0..n).map(|i| ((i as u64 + 1).wrapping_mul(0x9E37_79B9_7F4A_7C15) >> 56) as u8).collect()
}

/// `n` bytes of multi-byte text: units "<letter>\u{e9}\u{20ac}\u{1f600}" with a rotating letter, then digits
fn ladder_text(n: usize) -> String {
    let mut s = String::with_capacity(n);
    for k in 0..n / 10 {
        s.push((b'a' + (k % 26) as u8) as char);
        s.push_str(&UNIT[1..]);
    }
    for j in 0..n % 10 {
        s.push((b'0' + j as u8) as char);
    }
    assert_eq!(s.len(), n);
    s
}

fn ladder_lens() -> Vec<usize> {
    dedup_sorted(LADDER.iter().chain(LADDER_EXTRA_LENS.iter()).copied().collect())
}

/// `call` runs the helper on the writer; `payload` is what must arrive.
#[allow(clippy::too_many_arguments)]
fn run_write(
    r: &mut Report,
    op: &'static str,
    case: &str,
    payload: &[u8],
    script: &[Step],
    menu: &[usize],
    call: &dyn Fn(&mut SWriter<'_>) -> tiny_std::Result<()>,
    verbose: bool,
) {
    r.eval();
    let mut w = SWriter::new(script, menu, payload.len(), verbose);
    let res = catch(|| call(&mut w));
    if w.counts_as_distinct() {
        r.nontrivial_unique();
    }
    if verbose {
        print_trace(&w.trace);
        println!("  result: {res:?}; writer accepted {} of {} bytes: {}", w.accepted.len(), payload.len(), brief(&w.accepted));
    }
    let oc = |s: &str| format!("{op}:{s}");
    let is_prefix = w.accepted.len() <= payload.len() && w.accepted[..] == payload[..w.accepted.len()];
    if !is_prefix {
        // all bytes there, each once, but not in order?
        let permuted = w.accepted.len() == payload.len() && {
            let (mut a, mut b) = (w.accepted.clone(), payload.to_vec());
            a.sort_unstable();
            b.sort_unstable();
            a == b
        };
        viol(
            r,
            op,
            if permuted { "bytes-out-of-order" } else { "duplicated-or-lost-bytes" },
            format!("what the writer received is not a prefix of what was written (result {res:?}): {}", diff_desc(&w.accepted, payload)),
            case,
        );
    }
    match res {
        Err(p) if w.saw_panic && p.contains(SCRIPTED_PANIC_MSG) => {
            // the writer's own panic unwound; what it had accepted before is a prefix, each byte once (checked above)
            r.outcome(&oc("writer-panic-unwound"));
        }
        Err(p) => {
            if w.livelocked() {
                r.outcome(&oc("livelock"));
                viol(
                    r,
                    op,
                    "livelock",
                    format!("more than {} write calls (writer stuck on {:?}); accepted {} of {} bytes", w.horizon, w.sticky, w.accepted.len(), payload.len()),
                    case,
                );
            } else {
                r.outcome(&oc("panic"));
                viol(r, op, "panic", format!("panicked: {p}"), case);
            }
        }
        Ok(Ok(())) => {
            if w.accepted.len() < payload.len() {
                r.outcome(&oc("ok-but-incomplete"));
                if is_prefix {
                    viol(r, op, "ok-but-incomplete", format!("returned Ok, writer received only {} of {} bytes", w.accepted.len(), payload.len()), case);
                }
            } else {
                r.outcome(&oc(match (payload.is_empty(), w.saw_eintr, w.short) {
                    (true, _, _) => "ok-nothing-to-write",
                    (false, false, false) => "ok",
                    (false, false, true) => "ok-after-short-writes",
                    (false, true, false) => "ok-after-eintr",
                    (false, true, true) => "ok-after-eintr-and-short-writes",
                }));
            }
        }
        Ok(Err(e)) => {
            // the writer's own error; EINTR may be retried or returned (the statement leaves it open)
            if w.saw_fail {
                // the writer failed (and stays failed): "return the writer's error" means that one
                let k = w.fail_kind.unwrap_or(0);
                if same_error(&e, k) {
                    r.outcome(&oc("error-surfaced"));
                } else {
                    r.outcome(&oc("wrong-error"));
                    viol(r, op, "wrong-error", format!("writer failed with {}, helper returned {e:?}", KIND_NAMES[k as usize]), case);
                }
            } else if e.matches_errno(Errno::EINTR) && w.saw_eintr {
                r.outcome(&oc("eintr-returned"));
            } else if !matches!(e, Error::Os { .. }) && w.saw_zero {
                r.outcome(&oc("write-zero-error"));
            } else {
                r.outcome(&oc("spurious-error"));
                viol(
                    r,
                    op,
                    "spurious-error",
                    format!("returned {e:?}; writer saw EIO: {}, Ok(0): {}, EINTR: {}; accepted {} of {}", w.saw_fail, w.saw_zero, w.saw_eintr, w.accepted.len(), payload.len()),
                    case,
                );
            }
        }
    }
}

// ---------------------------------------------------------------------------
// the enumeration

fn mk_payload(n: usize) -> Vec<u8> {
    (0..n).map(|i| 1 + (i % 150) as u8).collect()
}

fn dedup_sorted(mut v: Vec<usize>) -> Vec<usize> {
    v.sort_unstable();
    v.dedup();
    v
}

/// (len0, cap0) of the vector handed to read_to_end
fn rte_states(plen: usize) -> Vec<(usize, usize)> {
    let spares = dedup_sorted(vec![0, 1, plen.saturating_sub(1), plen, plen + 1, 31, 32, 33, 95]);
    let mut v = Vec::new();
    for len0 in [0usize, 5] {
        for &s in &spares {
            v.push((len0, len0 + s));
        }
    }
    v
}

/// (old, spare capacity) of the String handed to read_to_string
fn rts_states(plen: usize) -> Vec<(&'static str, usize)> {
    let spares = dedup_sorted(vec![0, plen, 100]);
    let mut v = Vec::new();
    for old in ["", OLD_STR] {
        for &s in &spares {
            v.push((old, s));
        }
    }
    v
}

fn texts() -> Vec<String> {
    vec![
        String::new(),
        "\u{e9}".into(),
        UNIT.into(),
        format!("{}a", UNIT.repeat(3)),        // 31
        format!("{}\u{e9}", UNIT.repeat(3)),   // 32
        format!("{}\u{20ac}", UNIT.repeat(3)), // 33
        UNIT.repeat(4),                        // 40: byte 32 is inside a character
        UNIT.repeat(7),                        // 70: byte 64 is inside a character
    ]
}

/// every way of cutting `n` bytes into consecutive pieces using at most `max_cuts` cuts,
/// as scripts of `Deliver(piece)` (the last piece is left to the reader's default), each
/// optionally with an EINTR between the pieces
fn cut_scripts(n: usize, max_cuts: usize, with_eintr: bool, with_panic: bool) -> Vec<Vec<Step>> {
    fn rec(n: usize, start: usize, left: usize, cur: &mut Vec<usize>, out: &mut Vec<Vec<usize>>) {
        out.push(cur.clone());
        if left == 0 {
            return;
        }
        for c in start..n {
            cur.push(c);
            rec(n, c + 1, left - 1, cur, out);
            cur.pop();
        }
    }
    let mut sets = Vec::new();
    rec(n, 1, max_cuts, &mut Vec::new(), &mut sets);
    sets.sort_by_key(|s| s.len());
    let mut out = Vec::new();
    for cuts in sets {
        let mut plain = Vec::new();
        let mut inter = Vec::new();
        let mut prev = 0;
        for &c in &cuts {
            plain.push(Step::Deliver(c - prev));
            inter.push(Step::Deliver(c - prev));
            inter.push(Step::Eintr);
            prev = c;
        }
        if with_panic {
            // the pieces, then a panicking call instead of the rest
            let mut p = plain.clone();
            p.push(Step::Panic);
            out.push(p);
        }
        out.push(plain);
        if with_eintr && !cuts.is_empty() {
            out.push(inter);
        }
    }
    out
}

fn menu_scripts(max_len: usize) -> Vec<Vec<Step>> {
    let mut v = Vec::new();
    for_each_script(N_RSYM, max_len, max_len, |idx| v.push(idx.iter().map(|&i| rsym(i)).collect()));
    v
}

/// alphabet of the read_to_string "pieces" scripts: data pieces that split 2- and 3-byte characters, and control answers
#[derive(Clone, Copy)]
enum PSym {
    Data(&'static [u8]),
    Ctl(Step),
}
const PSYMS: [PSym; 10] = [
    PSym::Data(b"ab"),
    PSym::Data(&[0xC3]),       // first byte of U+00E9
    PSym::Data(&[0xA9]),       // its second byte; a lone continuation byte anywhere else
    PSym::Data(&[0xE2]),       // U+20AC split 1+2
    PSym::Data(&[0x82, 0xAC]), //
    PSym::Data(&[0xE2, 0x82]), // U+20AC split 2+1
    PSym::Data(&[0xAC]),       //
    PSym::Ctl(Step::Eintr),
    PSym::Ctl(Step::Fail),
    PSym::Ctl(Step::Zero),
];
const N_PSYM: usize = PSYMS.len();

struct Bounds {
    /// read_to_string scripts over the character-splitting piece alphabet
    l_pieces: usize,
    /// error-kind scripts
    l_errk: usize,
    l_read: usize,
    l_rts: usize,
    l_rts_invalid: usize,
    l_write: usize,
    cuts_long: usize,
    /// size ladder: script length for read_to_end / read_exact, for read_to_string, number of formatted pieces,
    /// writer script length
    lad_read: usize,
    /// size ladder: payloads above LADDER_BIG get scripts this much shorter (quick tier only)
    lad_big_cut: usize,
    lad_rts: usize,
    lad_pieces: usize,
    lad_write: usize,
}

const RTE_LENS: [usize; 8] = [0, 1, 31, 32, 33, 64, 65, 100];
const REX_LENS: [usize; 6] = [0, 1, 2, 5, 33, 40];
const WA_LENS: [usize; 5] = [0, 1, 2, 5, 33];

fn c15(args: &Args) -> Report {
    let b = if args.thorough {
        Bounds { l_pieces: 5, l_errk: 5, l_read: 7, l_rts: 5, l_rts_invalid: 3, l_write: 9, cuts_long: 3, lad_read: 5, lad_big_cut: 0, lad_rts: 4, lad_pieces: 4, lad_write: 3 }
    } else {
        Bounds { l_pieces: 4, l_errk: 4, l_read: 5, l_rts: 4, l_rts_invalid: 2, l_write: 7, cuts_long: 2, lad_read: 3, lad_big_cut: 1, lad_rts: 2, lad_pieces: 3, lad_write: 3 }
    };
    let mut items: Vec<Isolated> = Vec::new();

    // ---- read_to_end: all menu scripts x payload lengths x initial (len, cap)
    for &plen in &RTE_LENS {
        for (si, (len0, cap0)) in rte_states(plen).into_iter().enumerate() {
            let l = b.l_read;
            items.push(isolated(format!("read_to_end-p{plen}-l{len0}-c{cap0}"), move || {
                let payload = mk_payload(plen);
                let mut r = Report::new();
                let prefix = case_prefix(json!({"op":"read_to_end","payload":show_bytes(&payload),"len0":len0,"cap0":cap0}));
                let mut cs = String::new();
                let mut steps: Vec<Step> = Vec::new();
                let mut k = 0u64;
                for_each_script(N_RSYM, l, l.saturating_sub(1), |idx| {
                    steps.clear();
                    steps.extend(idx.iter().map(|&i| rsym(i)));
                    case_string(&mut cs, &prefix, &steps, false);
                    set_case(&cs);
                    run_rte(&mut r, &cs, &payload, &steps, len0, cap0, false, false);
                    clear_case();
                    k += 1;
                    if plen == 33 && si == 3 && k == 4321 {
                        r.sample(case_json(&cs));
                    }
                });
                r
            }));
        }
    }

    // ---- read_exact: all menu scripts x payload lengths x every buffer size 0..=payload+2
    for &plen in &REX_LENS {
        for bufsize in 0..=plen + 2 {
            let l = b.l_read;
            items.push(isolated(format!("read_exact-p{plen}-b{bufsize}"), move || {
                let payload = mk_payload(plen);
                let mut r = Report::new();
                let prefix = case_prefix(json!({"op":"read_exact","payload":show_bytes(&payload),"bufsize":bufsize}));
                let mut cs = String::new();
                let mut steps: Vec<Step> = Vec::new();
                let mut k = 0u64;
                for_each_script(N_RSYM, l, l.saturating_sub(1), |idx| {
                    steps.clear();
                    steps.extend(idx.iter().map(|&i| rsym(i)));
                    case_string(&mut cs, &prefix, &steps, false);
                    set_case(&cs);
                    run_rex(&mut r, &cs, &payload, &steps, bufsize, false, false);
                    clear_case();
                    k += 1;
                    if plen == 5 && bufsize == 4 && k == 777 {
                        r.sample(case_json(&cs));
                    }
                });
                r
            }));
        }
    }

    // ---- read_to_string
    // (a) menu scripts over multi-byte texts whose characters straddle the 32/64-byte thresholds
    for (ti, text) in texts().into_iter().enumerate() {
        for (si, (old, spare)) in rts_states(text.len()).into_iter().enumerate() {
            let l = b.l_rts;
            let text = text.clone();
            items.push(isolated(format!("read_to_string-menu-t{ti}-s{si}"), move || {
                let payload = text.as_bytes();
                let mut r = Report::new();
                let prefix = case_prefix(json!({"op":"read_to_string","payload":show_bytes(payload),"old":old,"spare":spare}));
                let ident = hash_of(&(payload, old, spare));
                let mut cs = String::new();
                let mut steps: Vec<Step> = Vec::new();
                let mut k = 0u64;
                for_each_script(N_RSYM, l, l, |idx| {
                    steps.clear();
                    steps.extend(idx.iter().map(|&i| rsym(i)));
                    case_string(&mut cs, &prefix, &steps, false);
                    set_case(&cs);
                    run_rts(&mut r, &cs, payload, &steps, &RMENU, old, spare, ident, false, false);
                    clear_case();
                    k += 1;
                    if ti == 6 && si == 3 && k == 3000 {
                        r.sample(case_json(&cs));
                    }
                });
                r
            }));
        }
    }
    // (b) deliveries cut at every byte boundary: the 10-byte unit in every composition, the 40-byte text with
    //     every set of <= cuts_long cuts, each with and without EINTR between the pieces
    for (name, text, max_cuts) in [("unit", UNIT.to_string(), 9usize), ("unit-x4", UNIT.repeat(4), b.cuts_long)] {
        for (si, (old, spare)) in rts_states(text.len()).into_iter().enumerate() {
            let text = text.clone();
            items.push(isolated(format!("read_to_string-cuts-{name}-s{si}"), move || {
                let payload = text.as_bytes();
                let mut r = Report::new();
                let prefix = case_prefix(json!({"op":"read_to_string","payload":show_bytes(payload),"old":old,"spare":spare}));
                let ident = hash_of(&(payload, old, spare));
                let mut cs = String::new();
                let mut mask = 0u128;
                let all_sizes: Vec<usize> = (1..=payload.len()).collect();
                for (k, steps) in cut_scripts(payload.len(), max_cuts, true, true).iter().enumerate() {
                    case_string(&mut cs, &prefix, steps, false);
                    set_case(&cs);
                    mask |= run_rts(&mut r, &cs, payload, steps, &all_sizes, old, spare, ident, false, false);
                    clear_case();
                    if name == "unit" && si == 5 && k == 200 {
                        r.sample(case_json(&cs));
                    }
                }
                r.note(format!("cutmask:{name}:{}:{mask:x}", payload.len()));
                r
            }));
        }
    }
    // (c) one invalid byte (0xFF) at every position; (d) the text truncated at every byte
    for (name, text) in [("unit", UNIT.to_string()), ("33", format!("{}\u{20ac}", UNIT.repeat(3))), ("unit-x4", UNIT.repeat(4))] {
        let n = text.len();
        for variant in ["ff", "trunc"] {
            for pos in 0..n {
                let l = b.l_rts_invalid;
                let text = text.clone();
                items.push(isolated(format!("read_to_string-{variant}-{name}-at{pos}"), move || {
                    let mut payload = text.as_bytes().to_vec();
                    if variant == "ff" {
                        payload[pos] = 0xFF;
                    } else {
                        payload.truncate(pos);
                    }
                    let mut r = Report::new();
                    let mut scripts = cut_scripts(payload.len(), 1, false, true);
                    scripts.extend(menu_scripts(l).into_iter().filter(|s| !s.is_empty()));
                    let all_sizes: Vec<usize> = (1..=payload.len()).chain(RMENU).collect();
                    let mut cs = String::new();
                    for (si, (old, spare)) in rts_states(payload.len()).into_iter().enumerate() {
                        let prefix = case_prefix(json!({"op":"read_to_string","payload":show_bytes(&payload),"old":old,"spare":spare}));
                        let ident = hash_of(&(&payload, old, spare));
                        for (k, steps) in scripts.iter().enumerate() {
                            case_string(&mut cs, &prefix, steps, false);
                            set_case(&cs);
                            run_rts(&mut r, &cs, &payload, steps, &all_sizes, old, spare, ident, false, false);
                            clear_case();
                            if name == "unit" && pos == 4 && si == 1 && k == 3 {
                                r.sample(case_json(&cs));
                            }
                        }
                    }
                    r
                }));
            }
        }
    }

    // (e) scripts over an alphabet of data pieces that split characters: each entry delivers its piece (the payload is
    //     the concatenation of the pieces) or is EINTR / EIO / Ok(0).  A failure may thus come in the middle of a character.
    for first in std::iter::once(N_PSYM).chain(0..N_PSYM) {
        let l = b.l_pieces;
        items.push(isolated(format!("read_to_string-pieces-f{first}"), move || {
            let mut r = Report::new();
            let mut cs = String::new();
            let mut payload: Vec<u8> = Vec::new();
            let mut steps: Vec<Step> = Vec::new();
            for_each_script(N_PSYM, l, l, |idx| {
                // `first == N_PSYM`: the scripts shorter than `l` (simplest first); else full length by first symbol
                if (first == N_PSYM) != (idx.len() < l) || (idx.len() == l && idx[0] != first) {
                    return;
                }
                payload.clear();
                steps.clear();
                for &i in idx {
                    if i == N_PSYM {
                        steps.push(Step::Panic);
                        continue;
                    }
                    match PSYMS[i] {
                        PSym::Data(d) => {
                            payload.extend_from_slice(d);
                            steps.push(Step::Deliver(d.len()));
                        }
                        PSym::Ctl(st) => steps.push(st),
                    }
                }
                for (old, spare) in rts_states(payload.len()) {
                    let prefix = case_prefix(json!({"op":"read_to_string","payload":show_bytes(&payload),"old":old,"spare":spare}));
                    let ident = hash_of(&(&payload, old, spare));
                    case_string(&mut cs, &prefix, &steps, false);
                    set_case(&cs);
                    run_rts(&mut r, &cs, &payload, &steps, &[1, 2], old, spare, ident, false, false);
                    clear_case();
                    if idx == [0, 1, 8] && spare == 100 && old.is_empty() {
                        r.sample(case_json(&cs));
                    }
                }
            });
            r
        }));
    }

    // ---- error kinds x start capacity: small payloads, EVERY start capacity 0..=40 (so that each prefix of pieces can
    //      fill the buffer exactly and the next answer lands on the exact-fit probe read), answers incl. EIO, EAGAIN,
    //      Error::Timeout, Error::Uncategorized
    for plen in [4usize, 8, 12] {
        for len0 in [0usize, 5] {
            let l = b.l_errk;
            items.push(isolated(format!("errkinds-read_to_end-p{plen}-l{len0}"), move || {
                let payload = mk_payload(plen);
                let mut r = Report::new();
                let mut cs = String::new();
                let mut steps: Vec<Step> = Vec::new();
                for spare in 0..=40usize {
                    let cap0 = len0 + spare;
                    let prefix = case_prefix(json!({"op":"read_to_end","menu":"errkinds","payload":show_bytes(&payload),"len0":len0,"cap0":cap0}));
                    for_each_script(N_ESYM, l, l, |idx| {
                        steps.clear();
                        steps.extend(idx.iter().map(|&i| esym(i)));
                        case_string(&mut cs, &prefix, &steps, false);
                        set_case(&cs);
                        run_rte_menu(&mut r, &cs, &payload, &steps, len0, cap0, &EMENU);
                        clear_case();
                        if plen == 8 && len0 == 0 && spare == 4 && steps == [Step::Deliver(4), Step::FailK(1)] {
                            r.sample(case_json(&cs));
                        }
                    });
                }
                r
            }));
        }
    }
    for text in ["abcd", "a\u{e9}\u{20ac}ab"] {
        for old in ["", OLD_STR] {
            let l = b.l_errk;
            items.push(isolated(format!("errkinds-read_to_string-p{}-o{}", text.len(), old.len()), move || {
                let payload = text.as_bytes();
                let mut r = Report::new();
                let mut cs = String::new();
                let mut steps: Vec<Step> = Vec::new();
                for spare in 0..=40usize {
                    let prefix = case_prefix(json!({"op":"read_to_string","menu":"errkinds","payload":show_bytes(payload),"old":old,"spare":spare}));
                    for_each_script(N_ESYM, l, l, |idx| {
                        steps.clear();
                        steps.extend(idx.iter().map(|&i| esym(i)));
                        case_string(&mut cs, &prefix, &steps, false);
                        set_case(&cs);
                        run_rts(&mut r, &cs, payload, &steps, &EMENU, old, spare, u64::MAX, false, false);
                        clear_case();
                    });
                }
                r
            }));
        }
    }
    {
        let l = b.l_errk;
        items.push(isolated("errkinds-read_exact", move || {
            let payload = mk_payload(5);
            let mut r = Report::new();
            let mut cs = String::new();
            let mut steps: Vec<Step> = Vec::new();
            for bufsize in 0..=7usize {
                let prefix = case_prefix(json!({"op":"read_exact","menu":"errkinds","payload":show_bytes(&payload),"bufsize":bufsize}));
                for_each_script(N_ESYM, l, l, |idx| {
                    steps.clear();
                    steps.extend(idx.iter().map(|&i| esym(i)));
                    case_string(&mut cs, &prefix, &steps, false);
                    set_case(&cs);
                    run_rex_menu(&mut r, &cs, &payload, &steps, bufsize, &EMENU);
                    clear_case();
                });
            }
            r
        }));
        items.push(isolated("errkinds-write", move || {
            let mut r = Report::new();
            let cases = fmt_cases();
            let mut cs = String::new();
            let mut steps: Vec<Step> = Vec::new();
            let p5 = mk_payload(5);
            let mut targets: Vec<(&'static str, String, Vec<u8>, Box<dyn Fn(&mut SWriter<'_>) -> tiny_std::Result<()>>)> = Vec::new();
            {
                let p = p5.clone();
                targets.push(("write_all", case_prefix(json!({"op":"write_all","menu":"errkinds","payload":show_bytes(&p5)})), p5.clone(), Box::new(move |w| w.write_all(&p))));
            }
            for i in [4usize, 6] {
                let f = cases[i].run;
                targets.push((
                    "write_fmt",
                    case_prefix(json!({"op":"write_fmt","menu":"errkinds","fmt":cases[i].name,"payload":show_bytes(cases[i].expect.as_bytes())})),
                    cases[i].expect.clone().into_bytes(),
                    Box::new(move |w| f(w)),
                ));
            }
            for (op, prefix, payload, call) in &targets {
                for_each_script(N_EWSYM, l, l, |idx| {
                    steps.clear();
                    steps.extend(idx.iter().map(|&i| ewsym(i)));
                    if steps[..steps.len().saturating_sub(1)].iter().any(|s| matches!(s, Step::Zero | Step::Fail | Step::FailK(_))) {
                        return;
                    }
                    case_string(&mut cs, prefix, &steps, true);
                    set_case(&cs);
                    run_write(&mut r, op, &cs, payload, &steps, &EWMENU, &**call, false);
                    clear_case();
                });
            }
            r
        }));
    }

    // ---- write_all / write_fmt: all writer scripts (sticky entries only in last position)
    let wa: Vec<(String, Vec<u8>, Option<usize>)> = WA_LENS
        .iter()
        .map(|&n| (format!("write_all-p{n}"), mk_payload(n), None))
        .chain(fmt_cases().into_iter().enumerate().map(|(i, f)| (format!("write_fmt-{i}"), f.expect.into_bytes(), Some(i))))
        .collect();
    for (name, payload, fmt) in wa {
        // shards: all scripts shorter than the bound first (so that the simplest failing case is the one kept),
        // then the scripts of full length split by their first symbol
        for first in std::iter::once(N_WSYM).chain(0..N_WSYM) {
            let l = b.l_write;
            let payload = payload.clone();
            items.push(isolated(format!("{name}-f{first}"), move || {
                let mut r = Report::new();
                let cases = fmt_cases();
                let (op, prefix) = match fmt {
                    None => ("write_all", case_prefix(json!({"op":"write_all","payload":show_bytes(&payload)}))),
                    Some(i) => ("write_fmt", case_prefix(json!({"op":"write_fmt","fmt":cases[i].name,"payload":show_bytes(&payload)}))),
                };
                let call: Box<dyn Fn(&mut SWriter<'_>) -> tiny_std::Result<()>> = match fmt {
                    None => {
                        let p = payload.clone();
                        Box::new(move |w| w.write_all(&p))
                    }
                    Some(i) => {
                        let f = cases[i].run;
                        Box::new(move |w| f(w))
                    }
                };
                let mut cs = String::new();
                let mut steps: Vec<Step> = Vec::new();
                let mut k = 0u64;
                for_each_script(N_WSYM, l, l.saturating_sub(1), |idx| {
                    // `first == N_WSYM` is the shard of the scripts shorter than `l`
                    if (first == N_WSYM) != (idx.len() < l) || (idx.len() == l && idx[0] != first) {
                        return;
                    }
                    steps.clear();
                    steps.extend(idx.iter().map(|&i| wsym(i)));
                    // entries behind a sticky Ok(0)/EIO can never be reached: not cases of their own
                    if steps[..steps.len().saturating_sub(1)].iter().any(|s| matches!(s, Step::Zero | Step::Fail | Step::FailK(_))) {
                        return;
                    }
                    case_string(&mut cs, &prefix, &steps, true);
                    set_case(&cs);
                    run_write(&mut r, op, &cs, &payload, &steps, &WMENU, &*call, false);
                    clear_case();
                    k += 1;
                    if first == N_WSYM && k == 500 && (fmt == Some(4) || (fmt.is_none() && payload.len() == 5)) {
                        r.sample(case_json(&cs));
                    }
                });
                r
            }));
        }
    }

    // ---- size ladder (sizes far above the 32-byte thresholds): still a full grid, no sampling
    // (a) readers: initial spare capacity x payload length over the ladder, every script of chunk sizes
    //     {1,10,1000,4096,half the request,ALL} and EINTR, the reader then continuing with the last chunk size
    for &plen in &ladder_lens() {
        for len0 in [0usize, 5] {
            for &spare in &LADDER {
                let l = b.lad_read - if plen > LADDER_BIG { b.lad_big_cut } else { 0 };
                items.push(isolated(format!("ladder-read_to_end-p{plen}-l{len0}-s{spare}"), move || {
                    let payload = ladder_payload(plen);
                    let cap0 = len0 + spare;
                    let mut r = Report::new();
                    let prefix = case_prefix(json!({"op":"read_to_end","ladder":true,"payload_len":plen,"len0":len0,"cap0":cap0}));
                    let mut cs = String::new();
                    let mut steps: Vec<Step> = Vec::new();
                    for_each_script(N_LSYM, l, l.saturating_sub(1), |idx| {
                        steps.clear();
                        steps.extend(idx.iter().map(|&i| lsym(i)));
                        case_string(&mut cs, &prefix, &steps, false);
                        set_case(&cs);
                        run_rte(&mut r, &cs, &payload, &steps, len0, cap0, true, false);
                        clear_case();
                        if plen == 24581 && len0 == 0 && spare == 4096 && steps == [Step::Deliver(10), Step::Eintr] {
                            r.sample(case_json(&cs));
                        }
                    });
                    r
                }));
            }
        }
    }
    for &plen in ladder_lens().iter().filter(|&&n| n > 0) {
        for old in ["", OLD_STR] {
            for &spare in &LADDER {
                let l = b.lad_rts - if plen > LADDER_BIG { b.lad_big_cut } else { 0 };
                items.push(isolated(format!("ladder-read_to_string-p{plen}-o{}-s{spare}", old.len()), move || {
                    let text = ladder_text(plen);
                    let mut r = Report::new();
                    let prefix = case_prefix(json!({"op":"read_to_string","ladder":true,"payload_len":plen,"old":old,"spare":spare}));
                    let mut cs = String::new();
                    let mut steps: Vec<Step> = Vec::new();
                    for_each_script(N_LSYM, l, l, |idx| {
                        steps.clear();
                        steps.extend(idx.iter().map(|&i| lsym(i)));
                        case_string(&mut cs, &prefix, &steps, false);
                        set_case(&cs);
                        run_rts(&mut r, &cs, text.as_bytes(), &steps, &LMENU, old, spare, 0, true, false);
                        clear_case();
                    });
                    r
                }));
            }
        }
    }
    for &bufsize in &LADDER {
        for plen in dedup_sorted(vec![bufsize.saturating_sub(1), bufsize, bufsize + 1, 100_000]) {
            let l = b.lad_read - if plen > LADDER_BIG { b.lad_big_cut } else { 0 };
            items.push(isolated(format!("ladder-read_exact-p{plen}-b{bufsize}"), move || {
                let payload = ladder_payload(plen);
                let mut r = Report::new();
                let prefix = case_prefix(json!({"op":"read_exact","ladder":true,"payload_len":plen,"bufsize":bufsize}));
                let mut cs = String::new();
                let mut steps: Vec<Step> = Vec::new();
                for_each_script(N_LSYM, l, l.saturating_sub(1), |idx| {
                    steps.clear();
                    steps.extend(idx.iter().map(|&i| lsym(i)));
                    case_string(&mut cs, &prefix, &steps, false);
                    set_case(&cs);
                    run_rex(&mut r, &cs, &payload, &steps, bufsize, true, false);
                    clear_case();
                });
                r
            }));
        }
    }
    // (b) writers: every sequence of 1..=lad_pieces formatted pieces with lengths from PIECE_LENS in every format
    //     shape, and write_all of the same lengths, through every script over {A1,A100,AALL,EINTR}
    for n in 1..=b.lad_pieces {
        for shape in 0..N_SHAPES {
            if shape_literals(shape, n).is_none() {
                continue;
            }
            for first in 0..PIECE_LENS.len() {
                let l = b.lad_write;
                items.push(isolated(format!("ladder-write_fmt-n{n}-shape{shape}-f{first}"), move || {
                    let mut r = Report::new();
                    let mut max_frags = 0usize;
                    let mut lens = vec![0usize; n];
                    // odometer over the remaining n-1 pieces
                    for code in 0..PIECE_LENS.len().pow(n as u32 - 1) {
                        lens[0] = PIECE_LENS[first];
                        let mut c = code;
                        for slot in lens.iter_mut().skip(1) {
                            *slot = PIECE_LENS[c % PIECE_LENS.len()];
                            c /= PIECE_LENS.len();
                        }
                        run_fmt_ladder_point(&mut r, shape, &lens, l, &mut max_frags);
                    }
                    if n == 2 && shape == 1 && first == 1 {
                        r.sample(json!({"op":"write_fmt","ladder":true,"shape":1,"pieces":[1, 300],"script":"A1 I"}));
                    }
                    r.note(format!("ladderfrags:{max_frags}"));
                    r
                }));
            }
        }
    }
    {
        let l = b.lad_write;
        items.push(isolated("ladder-write_all", move || {
            let mut r = Report::new();
            let mut cs = String::new();
            let mut steps: Vec<Step> = Vec::new();
            for &plen in &PIECE_LENS {
                let payload = ladder_payload(plen);
                let prefix = case_prefix(json!({"op":"write_all","ladder":true,"payload_len":plen}));
                for_each_script(N_LWSYM, l, l, |idx| {
                    steps.clear();
                    steps.extend(idx.iter().map(|&i| lwsym(i)));
                    case_string(&mut cs, &prefix, &steps, true);
                    set_case(&cs);
                    run_write(&mut r, "write_all", &cs, &payload, &steps, &LWMENU, &|w| w.write_all(&payload), false);
                    clear_case();
                });
            }
            r
        }));
    }

    let n_items = items.len();
    let mut r = run_isolated(items, &args.out, "C15");

    // fold the cut-coverage notes of the shards into one statement
    let mut cover: std::collections::BTreeMap<String, (usize, u128)> = Default::default();
    r.notes.retain(|n| {
        let Some(rest) = n.strip_prefix("cutmask:") else { return true };
        let p: Vec<&str> = rest.split(':').collect();
        let e = cover.entry(p[0].to_string()).or_insert((p[1].parse().unwrap_or(0), 0));
        e.1 |= u128::from_str_radix(p[2], 16).unwrap_or(0);
        false
    });
    for (name, (n, mask)) in cover {
        let hit = (1..n).filter(|&p| mask >> p & 1 == 1).count();
        r.bound(&format!("utf8_text_{name}_delivery_boundaries_hit"), format!("{hit} of {}", n - 1));
        if hit != n - 1 {
            r.cap(format!("read_to_string cut enumeration on text {name}: only {hit} of {} byte boundaries were hit by a delivery", n - 1));
        }
    }

    let mut ladder_frags = 0usize;
    r.notes.retain(|n| match n.strip_prefix("ladderfrags:") {
        Some(x) => {
            ladder_frags = ladder_frags.max(x.parse().unwrap_or(0));
            false
        }
        None => true,
    });
    r.bound("ladder_write_fmt_max_fragments", ladder_frags);
    r.bound("ladder_sizes", LADDER.to_vec());
    r.bound("ladder_extra_payload_lens", LADDER_EXTRA_LENS.to_vec());
    r.bound("ladder_piece_lens", PIECE_LENS.to_vec());
    r.bound("ladder_script_len_read", b.lad_read);
    r.bound("ladder_script_len_cut_for_payloads_above_24581", b.lad_big_cut);
    r.bound("ladder_script_len_read_to_string", b.lad_rts);
    r.bound("ladder_max_pieces", b.lad_pieces);
    r.bound("ladder_script_len_write", b.lad_write);
    // number of fragments (= write calls of an all-accepting writer) of each format case
    let frags: Vec<usize> = fmt_cases()
        .iter()
        .map(|f| {
            let mut w = SWriter::new(&[], &WMENU, f.expect.len(), false);
            let _ = (f.run)(&mut w);
            w.calls
        })
        .collect();
    r.bound("write_fmt_fragments_per_format", frags.clone());
    r.rule = format!(
        "Real default methods of tiny_std::io::Read/Write driven by a scripted reader/writer. \
         read_to_end: every script of length <= {lr} over {{D1,D2,D31,D32,D33,DALL,Ok(0),EINTR,EIO}} x payload lengths {RTE_LENS:?} x initial vectors len in {{0,5}}, \
         spare capacity in {{0,1,n-1,n,n+1,31,32,33,95}} (n = payload length; contains (0,0),(0,exact),(5,5),(5,5+exact),(5,100)). \
         read_exact: the same scripts x payload lengths {REX_LENS:?} x every buffer size 0..=n+2. \
         read_to_string: scripts of length <= {ls} x 8 multi-byte texts (0..70 bytes, characters straddling bytes 32 and 64) x old in {{\"\",\"ab\u{20ac}\"}} x spare capacity {{0,exact,100}}; \
         the 10-byte text 'a\u{e9}\u{20ac}\u{1f600}' delivered in every composition into pieces and its 40-byte repetition with every set of <= {cl} cuts, with and without EINTR between pieces; \
         0xFF substituted at every position and truncation at every byte of the 10/33/40-byte texts x (every single cut + scripts of length <= {li}). \
         every script of length <= {lpc} over the piece alphabet {{\"ab\", C3, A9, E2, 82 AC, E2 82, AC, EINTR, EIO, Ok(0)}} (each data entry delivers its piece; U+00E9 split 1+1, U+20AC split 1+2 and 2+1, A9/AC alone are lone continuation bytes), so that EIO also arrives inside a character. \
         write_all (payload lengths {WA_LENS:?}) and write_fmt ({nf} format strings producing 0..{mf} separate write_all fragments, arguments opaque to the compiler): every script of length <= {lw} over {{A1,A2,A4,AALL,EINTR,Ok(0)*,EIO*}} (* sticky, last position only). \
         SIZE LADDER (same oracle): read_to_end with initial len {{0,5}} x spare capacity {LADDER:?} x payload lengths (the same + {LADDER_EXTRA_LENS:?}) x every script of length <= {ladr} ({ladcut} shorter for payloads above {LADDER_BIG}) over \
         chunk sizes {{D1,D10,D1000,D4096,DHALF (half the request),DALL (= exactly the request)}} and EINTR, the reader then repeating the last scripted chunk size until the data ends; \
         read_to_string likewise (multi-byte text, old in {{\"\",\"ab\u{20ac}\"}}, scripts <= {lads}); read_exact with buffer sizes from the ladder x payload lengths {{b-1,b,b+1,100000}}; \
         write_fmt with every sequence of 1..={ladp} pieces of lengths {PIECE_LENS:?} (each piece its own letters) in 3 shapes (arguments only / a short literal before each argument / a 130-byte literal after the first argument), \
         and write_all of those lengths, through every writer script of length <= {ladw} over {{A1,A100,AALL,EINTR}}. \
         ERROR KINDS x START CAPACITY: read_to_end (payload lengths 4,8,12; initial len {{0,5}}) and read_to_string (\"abcd\", \"a\u{e9}\u{20ac}ab\"; old {{\"\",\"ab\u{20ac}\"}}) with EVERY spare capacity 0..=40 \
         x every script of length <= {lek} over {{D1,D2,D4,DALL,Ok(0),EINTR,EIO,EAGAIN,Error::Timeout,Error::Uncategorized}} (so each error kind also lands on the exact-fit probe read after any prefix of pieces filled the start capacity); \
         read_exact (5 bytes, buffers 0..=7) and write_all/write_fmt (5 bytes, 2 formats; A1,A2,AALL,EINTR,Ok(0)*, the four error kinds*) with the same error alphabet. \
         Whenever the reader returned a non-EINTR error: the helper's error must be that very error (errno / variant), no read call may follow it, and read_to_end / read_to_string (UTF-8 data) keep what was read before it. \
         PANIC ENTRY `P`: in every enumeration above, each script may also end in a call in which the reader/writer panics (unwinds through the helper; \
         for the large read_to_end/read_exact/write enumerations only scripts one shorter than the bound get this ending). After the unwind a String must be valid UTF-8 \
         (type invariant) and unchanged if the bytes appended so far are not UTF-8; a Vec keeps its existing content; what a writer accepted is a prefix of the payload. \
         After its script a reader delivers the rest then Ok(0) (ladder: keeps its last chunk size); a writer accepts everything. Reference: plain concatenation of what the reader handed out / what was to be written. \
         A case counts as distinct when the helper consumed the whole script and no other script of the enumeration yields the same response sequence \
         (a delivery clipped by the buffer, an entry equal to the after-script behaviour, or unreached entries make a script a duplicate of another one); \
         read_to_string cases are counted by (payload, initial string, response sequence); ladder cases are generated once per (state, script) and counted when \
         every entry was consumed, every scripted delivery was honoured as written (not clipped by the request or the remaining data, HALF/ALL not coinciding with a smaller menu entry) \
         and the last entry is not the chunk size the shorter script would repeat anyway.",
        lr = b.l_read,
        ls = b.l_rts,
        cl = b.cuts_long,
        li = b.l_rts_invalid,
        lw = b.l_write,
        lpc = b.l_pieces,
        lek = b.l_errk,
        ladr = b.lad_read,
        ladcut = b.lad_big_cut,
        lads = b.lad_rts,
        ladp = b.lad_pieces,
        ladw = b.lad_write,
        nf = fmt_cases().len(),
        mf = frags.iter().max().copied().unwrap_or(0),
    );
    r.bound("max_script_len_read", b.l_read);
    r.bound("max_script_len_read_to_string", b.l_rts);
    r.bound("max_script_len_write", b.l_write);
    r.bound("max_script_len_read_to_string_pieces", b.l_pieces);
    r.bound("max_script_len_error_kinds", b.l_errk);
    r.bound("error_kinds", KIND_NAMES.to_vec());
    r.bound("error_kind_start_spare_capacities", "0..=40");
    r.bound("reader_menu", "D1 D2 D31 D32 D33 DALL Z(Ok(0)) I(EINTR) F(EIO) P(panic, last entry only)");
    r.bound("writer_menu", "A1 A2 A4 AALL I(EINTR) Z(Ok(0), sticky) F(EIO, sticky) P(panic, last entry only)");
    r.bound("shards", n_items);
    r.note("not covered: the print!/println!/eprint! path (tiny-std/src/unix/print.rs) writes through a raw syscall; it needs the syscall seam (S2) and is left to that harness");
    r.note("EINTR from a writer: write_all retries it (io.rs Write::write_all); the oracle accepts retry or returning EINTR, since the statement only promises retry for readers");
    r.note("on an I/O error the statement fixes the returned error: whenever the reader/writer returned a non-EINTR error (EIO, EAGAIN, Error::Timeout, Error::Uncategorized) and the helper returns Err, it must be that very error (also when a String's new bytes are not UTF-8 at that point), no read call may follow it, read_to_end keeps old content ++ the bytes read before it and read_to_string likewise when those bytes are UTF-8; a String must stay valid UTF-8 and is unchanged when the delivered bytes are not UTF-8");
    r
}

// ---------------------------------------------------------------------------

fn replay(v: &Value, r: &mut Report) {
    let op = v["op"].as_str().unwrap_or("");
    let ladder = v["ladder"].as_bool().unwrap_or(false);
    let plen = v["payload_len"].as_u64().unwrap_or(0) as usize;
    let script = parse_script(v["script"].as_str().unwrap_or(""));
    let case = v.to_string();
    println!("replaying {case}");
    // ladder cases carry the payload length only; the bytes come from the generator
    let payload = if !ladder {
        parse_shown(v["payload"].as_str().unwrap_or(""))
    } else if op == "read_to_string" {
        ladder_text(plen).into_bytes()
    } else {
        ladder_payload(plen)
    };
    match op {
        "read_to_end" => {
            let len0 = v["len0"].as_u64().unwrap_or(0) as usize;
            let cap0 = v["cap0"].as_u64().unwrap_or(0) as usize;
            run_rte(r, &case, &payload, &script, len0, cap0, ladder, true);
        }
        "read_to_string" => {
            let old = v["old"].as_str().unwrap_or("").to_string();
            let spare = v["spare"].as_u64().unwrap_or(0) as usize;
            run_rts(r, &case, &payload, &script, &RMENU, &old, spare, 0, ladder, true);
        }
        "read_exact" => {
            let bufsize = v["bufsize"].as_u64().unwrap_or(0) as usize;
            run_rex(r, &case, &payload, &script, bufsize, ladder, true);
        }
        "write_all" => {
            let p = payload.clone();
            let menu: &[usize] = if ladder { &LWMENU } else { &WMENU };
            run_write(r, "write_all", &case, &payload, &script, menu, &move |w| w.write_all(&p), true);
        }
        "write_fmt" if ladder => {
            let shape = v["shape"].as_u64().unwrap_or(0) as usize;
            let lens: Vec<usize> = v["pieces"].as_array().map(|a| a.iter().map(|x| x.as_u64().unwrap_or(0) as usize).collect()).unwrap_or_default();
            let strs: Vec<String> = lens.iter().enumerate().map(|(i, &n)| piece(i, n)).collect();
            let p: Vec<&str> = strs.iter().map(|s| s.as_str()).collect();
            let mut reference = Pieces::default();
            let _ = ladder_fmt(shape, &p, Sink::Std(&mut reference));
            println!("  {} non-empty fragments, {} bytes in all", reference.nonempty, reference.out.len());
            run_write(r, "write_fmt", &case, reference.out.as_bytes(), &script, &LWMENU, &|w| ladder_fmt(shape, &p, Sink::Tiny(w)), true);
        }
        "write_fmt" => {
            let name = v["fmt"].as_str().unwrap_or("");
            let cases = fmt_cases();
            let f = cases.iter().find(|c| c.name == name).expect("unknown format case");
            let run = f.run;
            run_write(r, "write_fmt", &case, f.expect.as_bytes(), &script, &WMENU, &move |w| run(w), true);
        }
        _ => panic!("unknown op {op:?} in replay file"),
    }
    for v in r.violations.values() {
        println!("VIOLATED {}: {}", v.key, v.desc);
    }
    if r.violations.is_empty() {
        println!("no violation; outcomes {:?}", r.outcomes.keys().collect::<Vec<_>>());
    }
}

fn main() {
    let args = parse_args();
    install_panic_hook();
    if let Some(p) = &args.replay {
        let v = read_replay(p);
        let mut r = Report::new();
        replay(&v, &mut r);
        println!("{}", serde_json::to_string_pretty(&r.to_json()).unwrap());
        std::process::exit(if r.violations.is_empty() { 0 } else { 1 });
    }
    let phase = args.phase.clone().unwrap_or_else(|| "c15".into());
    let r = match phase.as_str() {
        "c15" => c15(&args),
        _ => panic!("unknown phase"),
    };
    r.write(&args.out);
}

#[cfg(test)]
mod tests {
    use super::*;
    use std::collections::HashSet;

    /// the by-construction rule for distinct cases selects exactly one script per response sequence
    #[test]
    fn canonical_scripts_are_one_per_response_trace() {
        for plen in [0usize, 1, 2, 33, 65] {
            let payload = mk_payload(plen);
            for (len0, cap0) in [(0usize, 0usize), (0, plen), (5, 5), (5, 100)] {
                let mut traces = HashSet::new();
                let mut canon_traces = HashSet::new();
                let mut canon = 0u64;
                for_each_seq(N_RSYM, 4, |idx| {
                    let steps: Vec<Step> = idx.iter().map(|&i| rsym(i)).collect();
                    let mut v: Vec<u8> = Vec::with_capacity(cap0);
                    v.extend_from_slice(&OLD[..len0]);
                    let mut rd = SReader::new(&payload, &steps, &RMENU, false);
                    let _ = rd.read_to_end(&mut v);
                    traces.insert((rd.thash, rd.calls));
                    if rd.counts_as_distinct() {
                        canon += 1;
                        assert!(canon_traces.insert((rd.thash, rd.calls)), "two canonical scripts with one trace: {steps:?}");
                    }
                });
                // traces needing more than 4 scripted answers are outside the bound: every canonical one is a trace
                assert!(canon_traces.is_subset(&traces));
                // and every trace reachable with <= 4 scripted answers has its canonical script
                assert_eq!(canon as usize, traces.len(), "plen {plen} len0 {len0} cap0 {cap0}");
            }
        }
        for plen in [0usize, 1, 5] {
            let payload = mk_payload(plen);
            let mut traces = HashSet::new();
            let mut canon = 0u64;
            for_each_seq(N_WSYM, 5, |idx| {
                let steps: Vec<Step> = idx.iter().map(|&i| wsym(i)).collect();
                if steps[..steps.len().saturating_sub(1)].iter().any(|s| matches!(s, Step::Zero | Step::Fail | Step::FailK(_))) {
                    return;
                }
                let mut w = SWriter::new(&steps, &WMENU, plen, true);
                let _ = w.write_all(&payload);
                traces.insert(w.trace.clone().unwrap().iter().map(|l| l.replace(" [sticky / after script]", "")).collect::<Vec<_>>());
                if w.counts_as_distinct() {
                    canon += 1;
                }
            });
            assert_eq!(canon as usize, traces.len(), "writer plen {plen}");
        }
    }
}
