//! C17 — io_uring ring hand-over: explicit-state model checking (engine E3) of the
//! REAL `IoUring::{get_next_sqe_slot, flush_submission_queue, get_next_cqe}` over
//! harness-owned ring memory (hook H1), interleaved at call granularity with a
//! simulated kernel side, from every start value of the ring counters incl. wrap.

use common::xstate::bfs;
use common::*;
use rusl::platform::{Fd, IoUring, IoUringCompletionQueueEntry, IoUringParamFlags, IoUringSubmissionQueueEntry, VerifRingParts};
use serde_json::json;

const MAXE: usize = 8;

/// Everything both sides can see, plus the checker's bookkeeping.  Plain data: hashable.
#[derive(Clone, PartialEq, Eq, Hash, Debug)]
struct St {
    // ring words
    sq_khead: u32,
    sq_ktail: u32,
    sq_lhead: u32,
    sq_ltail: u32,
    cq_khead: u32,
    cq_ktail: u32,
    /// user_data currently stored in each submission slot
    sq_data: [u64; MAXE],
    /// (user_data, res) stored in each completion slot
    cq_data: [(u64, i32); 2 * MAXE],
    // bookkeeping
    /// per submission slot: 0 free, 1 filled (not flushed), 2 flushed (not consumed)
    owner: [u8; MAXE],
    next_seq: u64,        // next sequence number the application stamps
    kernel_next: u64,     // next sequence number the kernel must consume
    to_post: u64,         // next sequence number to complete (consumed ones below kernel_next)
    reap_next: u64,       // next sequence number the application must reap
    ops: u8,              // application operations performed so far (bounds the search)
    /// the application still holds the reference the last `get_next_cqe` returned and has not looked at it yet:
    /// 0 no, 1 it points into completion slot `held_slot` of the shared ring, 2 it points at a private copy
    held: u8,
    held_slot: u8,
    /// what the held reference must show when it is read: the completion that was due at the call
    held_want: (u64, i32),
    /// what a private copy held at the time of the call
    held_copy: (u64, i32),
    bad: Option<String>,
}

#[derive(Clone, Copy, Debug, PartialEq, Eq)]
enum Step {
    Get,
    Flush,
    /// `get_next_cqe` and a look at the entry at once
    Reap,
    /// `get_next_cqe`, the reference is kept; the kernel may run before `ReapRead` looks at it
    ReapCall,
    ReapRead,
    Consume1,
    ConsumeAll,
    Post1,
    PostAll,
}

#[derive(Clone, Copy)]
struct Cfg {
    sq_n: u32,
    cq_n: u32,
    flags: u32, // bit0 SQPOLL, bit1 SQE128, bit2 CQE32
    max_ops: u8,
}

fn flags_of(c: &Cfg) -> IoUringParamFlags {
    let mut f = IoUringParamFlags::empty();
    if c.flags & 1 != 0 {
        f = f | IoUringParamFlags::IORING_SETUP_SQPOLL;
    }
    if c.flags & 2 != 0 {
        f = f | IoUringParamFlags::IORING_SETUP_SQE128;
    }
    if c.flags & 4 != 0 {
        f = f | IoUringParamFlags::IORING_SETUP_CQE32;
    }
    f
}

/// Harness-owned ring memory the real IoUring is built over for one step.
#[repr(C, align(64))]
struct Mem {
    words: [u32; 8],
    array: [u32; MAXE],
    sqes: [[u8; 128]; MAXE],      // room for SQE128
    cqes: [[u8; 32]; 2 * MAXE],   // room for CQE32
}

fn res_of(seq: u64) -> i32 {
    (seq as i32).wrapping_mul(7).wrapping_add(3)
}

fn sqe_stride(c: &Cfg) -> usize {
    if c.flags & 2 != 0 { 128 } else { 64 }
}
fn cqe_stride(c: &Cfg) -> usize {
    if c.flags & 4 != 0 { 32 } else { 16 }
}

fn load(m: &mut Mem, s: &St, c: &Cfg) {
    m.words = [s.sq_khead, s.sq_ktail, 0, 0, s.cq_khead, s.cq_ktail, 0, 0];
    for i in 0..c.sq_n as usize {
        m.array[i] = i as u32;
        let base = unsafe { (m.sqes.as_mut_ptr() as *mut u8).add(i * sqe_stride(c)) } as *mut IoUringSubmissionQueueEntry;
        unsafe { (*base).0.user_data = s.sq_data[i] };
    }
    for i in 0..c.cq_n as usize {
        let base = unsafe { (m.cqes.as_mut_ptr() as *mut u8).add(i * cqe_stride(c)) } as *mut IoUringCompletionQueueEntry;
        unsafe {
            (*base).0.user_data = s.cq_data[i].0;
            (*base).0.res = s.cq_data[i].1;
            (*base).0.flags = 0;
        }
    }
}

fn ring(m: &mut Mem, s: &St, c: &Cfg) -> core::mem::ManuallyDrop<IoUring> {
    let w = m.words.as_mut_ptr();
    unsafe {
        IoUring::verif_from_raw_parts(VerifRingParts {
            fd: Fd::try_new(0).unwrap(),
            flags: flags_of(c),
            sq_khead: w,
            sq_ktail: w.add(1),
            sq_kflags: w.add(2),
            sq_kdropped: w.add(3),
            sq_array: m.array.as_mut_ptr(),
            sq_entries: m.sqes.as_mut_ptr() as *mut IoUringSubmissionQueueEntry,
            sq_ring_entries: c.sq_n,
            sq_local_head: s.sq_lhead,
            sq_local_tail: s.sq_ltail,
            cq_khead: w.add(4),
            cq_ktail: w.add(5),
            cq_koverflow: w.add(6),
            cq_entries: m.cqes.as_mut_ptr() as *mut IoUringCompletionQueueEntry,
            cq_ring_entries: c.cq_n,
        })
    }
}

fn store_back(m: &Mem, r: &IoUring, s: &mut St, c: &Cfg) {
    s.sq_khead = m.words[0];
    s.sq_ktail = m.words[1];
    s.cq_khead = m.words[4];
    s.cq_ktail = m.words[5];
    let (h, t) = r.verif_local_sq();
    s.sq_lhead = h;
    s.sq_ltail = t;
    for i in 0..c.sq_n as usize {
        let base = unsafe { (m.sqes.as_ptr() as *const u8).add(i * sqe_stride(c)) } as *const IoUringSubmissionQueueEntry;
        s.sq_data[i] = unsafe { (*base).0.user_data };
    }
}

thread_local! {
    static MEM: std::cell::RefCell<Box<Mem>> = std::cell::RefCell::new(Box::new(Mem { words: [0; 8], array: [0; MAXE], sqes: [[0; 128]; MAXE], cqes: [[0; 32]; 2 * MAXE] }));
}

fn apply(s: &St, step: Step, c: &Cfg) -> Option<St> {
    let mut n = s.clone();
    match step {
        Step::ReapRead => {
            if s.held == 0 {
                return None;
            }
            n.held = 0;
            let seen = if s.held == 1 { s.cq_data[s.held_slot as usize] } else { s.held_copy };
            if seen != s.held_want {
                n.bad = Some(format!(
                    "get_next_cqe:entry-changed-before-the-caller-read-it|the reference returned for completion #{} (res {}) shows user_data {} res {} when it is read after the kernel has run: the slot was given back to the kernel before the entry was read",
                    s.held_want.0, s.held_want.1, seen.0, seen.1
                ));
            }
            Some(n)
        }
        Step::Get | Step::Flush | Step::Reap | Step::ReapCall => {
            // the returned reference borrows the ring: no other method can be called while it is held
            if s.ops >= c.max_ops || s.held != 0 {
                return None;
            }
            n.ops += 1;
            MEM.with(|mm| {
                let mut mm = mm.borrow_mut();
                let m: &mut Mem = &mut mm;
                load(m, s, c);
                let mut r = ring(m, s, c);
                match step {
                    Step::Get => {
                        let got = catch(|| r.get_next_sqe_slot());
                        match got {
                            Err(p) => n.bad = Some(format!("get_next_sqe_slot:panic|{p}")),
                            Ok(None) => {
                                store_back(m, &r, &mut n, c);
                                let outstanding = s.owner[..c.sq_n as usize].iter().filter(|&&o| o != 0).count();
                                if outstanding == 0 {
                                    // nothing outstanding at all and still no slot: the ring is unusable from here
                                    n.bad = Some("get_next_sqe_slot:refuses-on-empty-ring|no slot is outstanding, yet no slot was handed out".into());
                                }
                            }
                            Ok(Some(p)) => {
                                let off = p as usize - m.sqes.as_ptr() as usize;
                                let stride = sqe_stride(c);
                                if off % stride != 0 || off / stride >= c.sq_n as usize {
                                    n.bad = Some(format!("get_next_sqe_slot:slot-outside-ring|returned pointer at byte offset {off}"));
                                } else {
                                    let slot = off / stride;
                                    unsafe { (*p).0.user_data = s.next_seq };
                                    store_back(m, &r, &mut n, c);
                                    if s.owner[slot] != 0 {
                                        n.bad = Some(format!(
                                            "get_next_sqe_slot:slot-reused-before-consumed|slot {slot} still holds entry #{} ({}), handed out again",
                                            s.sq_data[slot],
                                            if s.owner[slot] == 1 { "filled, not flushed" } else { "flushed, not consumed by the kernel" }
                                        ));
                                    }
                                    n.owner[slot] = 1;
                                    n.next_seq += 1;
                                }
                            }
                        }
                    }
                    Step::Flush => match catch(|| r.flush_submission_queue()) {
                        Err(p) => n.bad = Some(format!("flush_submission_queue:panic|{p}")),
                        Ok(_cnt) => {
                            store_back(m, &r, &mut n, c);
                            for o in n.owner.iter_mut() {
                                if *o == 1 {
                                    *o = 2;
                                }
                            }
                            // everything filled so far must now be visible to the kernel
                            let published = n.sq_ktail.wrapping_sub(n.sq_khead) as u64;
                            let flushed_unconsumed = n.next_seq - n.kernel_next;
                            if published != flushed_unconsumed {
                                n.bad = Some(format!(
                                    "flush_submission_queue:published-count-differs|kernel sees tail-head = {published}, but {flushed_unconsumed} filled entries are unconsumed"
                                ));
                            }
                        }
                    },
                    _ => {
                        let cq_lo = m.cqes.as_ptr() as usize;
                        let cq_hi = cq_lo + core::mem::size_of_val(&m.cqes);
                        let stride = cqe_stride(c);
                        let mut at: Option<usize> = None;
                        let got = catch(|| {
                            r.get_next_cqe().map(|e| {
                                at = Some(e as *const IoUringCompletionQueueEntry as usize);
                                (e.0.user_data, e.0.res)
                            })
                        });
                        if step == Step::ReapCall {
                            if let (Ok(Some(v)), Some(a)) = (&got, at) {
                                if a >= cq_lo && a < cq_hi {
                                    n.held = 1;
                                    n.held_slot = ((a - cq_lo) / stride) as u8;
                                } else {
                                    n.held = 2;
                                    n.held_copy = *v;
                                }
                                n.held_want = (s.reap_next, res_of(s.reap_next));
                            }
                        }
                        match got {
                            Err(p) => n.bad = Some(format!("get_next_cqe:panic|{p}")),
                            Ok(x) => {
                                store_back(m, &r, &mut n, c);
                                let pending = s.to_post - s.reap_next; // posted, not yet reaped
                                match x {
                                    None => {
                                        if pending > 0 {
                                            n.bad = Some(format!(
                                                "get_next_cqe:completion-not-returned|{pending} posted completions are unreaped (head {:#x}, tail {:#x}) but None was returned",
                                                s.cq_khead, s.cq_ktail
                                            ));
                                        }
                                    }
                                    Some((ud, res)) => {
                                        if pending == 0 {
                                            n.bad = Some(format!("get_next_cqe:returned-unposted-entry|nothing was posted, got user_data {ud}"));
                                        } else if ud != s.reap_next || res != res_of(s.reap_next) {
                                            n.bad = Some(format!(
                                                "get_next_cqe:wrong-entry|expected completion #{} (res {}), got user_data {ud} res {res}",
                                                s.reap_next,
                                                res_of(s.reap_next)
                                            ));
                                        } else if n.cq_khead != s.cq_khead.wrapping_add(1) {
                                            n.bad = Some(format!("get_next_cqe:head-not-advanced-by-one|head {:#x} -> {:#x}", s.cq_khead, n.cq_khead));
                                        } else {
                                            n.reap_next += 1;
                                        }
                                    }
                                }
                            }
                        }
                    }
                }
            });
            Some(n)
        }
        Step::Consume1 | Step::ConsumeAll => {
            let avail = s.sq_ktail.wrapping_sub(s.sq_khead);
            if avail == 0 {
                return None;
            }
            if avail > c.sq_n {
                n.bad = Some(format!("kernel:tail-ahead-of-head-by-more-than-ring|tail-head = {avail} > {} entries", c.sq_n));
                return Some(n);
            }
            let k = if step == Step::Consume1 { 1 } else { avail };
            if step == Step::ConsumeAll && avail == 1 {
                return None; // same as Consume1
            }
            for i in 0..k {
                let slot = (s.sq_khead.wrapping_add(i) & (c.sq_n - 1)) as usize; // index array is the identity
                let ud = s.sq_data[slot];
                if ud != n.kernel_next {
                    n.bad = Some(format!(
                        "kernel:consumed-out-of-order-or-twice|kernel expected entry #{} at slot {slot}, found #{ud}",
                        n.kernel_next
                    ));
                    return Some(n);
                }
                if n.owner[slot] != 2 {
                    n.bad = Some(format!("kernel:consumed-unflushed-entry|slot {slot} (#{ud}) was not flushed"));
                    return Some(n);
                }
                n.owner[slot] = 0;
                n.kernel_next += 1;
            }
            n.sq_khead = s.sq_khead.wrapping_add(k);
            Some(n)
        }
        Step::Post1 | Step::PostAll => {
            let room = c.cq_n - s.cq_ktail.wrapping_sub(s.cq_khead).min(c.cq_n);
            let ready = (s.kernel_next - s.to_post).min(room as u64) as u32;
            if ready == 0 {
                return None;
            }
            let k = if step == Step::Post1 { 1 } else { ready };
            if step == Step::PostAll && ready == 1 {
                return None;
            }
            for i in 0..k {
                let slot = (s.cq_ktail.wrapping_add(i) & (c.cq_n - 1)) as usize;
                n.cq_data[slot] = (n.to_post, res_of(n.to_post));
                n.to_post += 1;
            }
            n.cq_ktail = s.cq_ktail.wrapping_add(k);
            Some(n)
        }
    }
}

const STEPS: [Step; 9] = [Step::Get, Step::Flush, Step::Reap, Step::ReapCall, Step::ReapRead, Step::Consume1, Step::ConsumeAll, Step::Post1, Step::PostAll];

fn start_values() -> Vec<u32> {
    vec![0, 1, (1u32 << 31) - 1, 1u32 << 31, u32::MAX - 3, u32::MAX - 2, u32::MAX - 1, u32::MAX]
}

fn init(v_sq: u32, v_cq: u32) -> St {
    St {
        sq_khead: v_sq,
        sq_ktail: v_sq,
        sq_lhead: v_sq,
        sq_ltail: v_sq,
        cq_khead: v_cq,
        cq_ktail: v_cq,
        sq_data: [u64::MAX; MAXE],
        cq_data: [(u64::MAX, 0); 2 * MAXE],
        owner: [0; MAXE],
        next_seq: 0,
        kernel_next: 0,
        to_post: 0,
        reap_next: 0,
        ops: 0,
        held: 0,
        held_slot: 0,
        held_want: (0, 0),
        held_copy: (0, 0),
        bad: None,
    }
}

fn explore(c: Cfg, v_sq: u32, v_cq: u32, r: &mut Report) {
    let res = bfs(
        vec![init(v_sq, v_cq)],
        usize::MAX,
        |s| STEPS.iter().filter_map(|&st| apply(s, st, &c).map(|n| (st, n))).collect(),
        |s| match &s.bad {
            Some(b) => Err(b.clone()),
            None => Ok(()),
        },
    );
    r.states += res.states;
    r.transitions += res.transitions;
    r.eval();
    r.nontrivial_unique();
    r.outcome(&format!("sq{} cq{} flags{}: {}", c.sq_n, c.cq_n, c.flags, if res.violation.is_some() { "violated" } else { "holds" }));
    if let Some((trace, st, msg)) = res.violation {
        let (kind, detail) = msg.split_once('|').unwrap_or((&msg, ""));
        let kind = if kind.ends_with(":panic") {
            // panic messages carry the site; keep the key stable
            kind.to_string()
        } else {
            kind.to_string()
        };
        r.violation(
            &format!("C17:{kind}"),
            format!(
                "sq entries {} cq entries {} flags {:#b}, counters start at sq {:#x} cq {:#x}: after {:?}: {detail} [state: sq k{:#x}/{:#x} l{:#x}/{:#x} cq {:#x}/{:#x}]",
                c.sq_n, c.cq_n, c.flags, v_sq, v_cq, trace, st.sq_khead, st.sq_ktail, st.sq_lhead, st.sq_ltail, st.cq_khead, st.cq_ktail
            ),
            json!({"sq_n": c.sq_n, "cq_n": c.cq_n, "flags": c.flags, "max_ops": c.max_ops, "v_sq": v_sq, "v_cq": v_cq,
                   "trace": trace.iter().map(|s| format!("{s:?}")).collect::<Vec<_>>() }),
        );
    }
}

fn step_of(s: &str) -> Step {
    STEPS.iter().copied().find(|x| format!("{x:?}") == s).expect("step name")
}

fn main() {
    let args = parse_args();
    install_panic_hook();
    if let Some(p) = &args.replay {
        let v = read_replay(p);
        let c = Cfg {
            sq_n: v["sq_n"].as_u64().unwrap() as u32,
            cq_n: v["cq_n"].as_u64().unwrap() as u32,
            flags: v["flags"].as_u64().unwrap() as u32,
            max_ops: 255,
        };
        let mut s = init(v["v_sq"].as_u64().unwrap() as u32, v["v_cq"].as_u64().unwrap() as u32);
        println!("start {s:?}");
        for st in v["trace"].as_array().unwrap() {
            let st = step_of(st.as_str().unwrap());
            match apply(&s, st, &c) {
                Some(n) => {
                    println!("{st:?} -> sq k{:#x}/{:#x} l{:#x}/{:#x} cq {:#x}/{:#x} next_seq {} kernel_next {} posted {} reaped {} {}", n.sq_khead, n.sq_ktail, n.sq_lhead, n.sq_ltail, n.cq_khead, n.cq_ktail, n.next_seq, n.kernel_next, n.to_post, n.reap_next, n.bad.clone().map(|b| format!("VIOLATED {b}")).unwrap_or_default());
                    if n.bad.is_some() {
                        std::process::exit(1);
                    }
                    s = n;
                }
                None => println!("{st:?} not enabled"),
            }
        }
        std::process::exit(0);
    }
    let sizes: &[u32] = if args.thorough { &[1, 2, 4, 8] } else { &[1, 2, 4] };
    let mut cfgs = Vec::new();
    for &n in sizes {
        for cq in [n, 2 * n] {
            for flags in if args.thorough { vec![0u32, 1, 2, 4, 7] } else { vec![0u32, 1] } {
                // application operations bound: 2*entries + 6 (every slot reused at least once)
                let max_ops = (2 * n + 6).min(if args.thorough { 18 } else { 14 }) as u8;
                cfgs.push(Cfg { sq_n: n, cq_n: cq, flags, max_ops });
            }
        }
    }
    let starts = start_values();
    let mut items: Vec<(Cfg, u32, u32)> = Vec::new();
    for c in &cfgs {
        for &a in &starts {
            for &b in &starts {
                // independent counters: all pairs in the thorough tier, the diagonal plus mixed extremes in quick
                if args.thorough || a == b || (a == 0 && b == u32::MAX) || (a == u32::MAX && b == 0) {
                    items.push((*c, a, b));
                }
            }
        }
    }
    let mut r = par_items(items.len(), args.seed, |i| {
        let mut r = Report::new();
        let (c, a, b) = items[i];
        explore(c, a, b, &mut r);
        r
    });
    r.sample(json!({"sq_entries": 2, "cq_entries": 2, "start": "0xfffffffe", "steps": ["Get", "Flush", "Consume1", "Post1", "Reap", "Get", "Get", "Flush"]}));
    r.rule = "explicit-state BFS over all interleavings of application steps {get slot+stamp, flush, reap, reap-call / read-the-returned-reference-later} (calling the real IoUring methods through hook H1) and kernel steps \
              {consume 1/all, post 1/all}, to a bound of 2*entries+6 application operations, for each ring size, CQ size, flag set and each start value of the SQ and CQ counters \
              (0, 1, 2^31-1, 2^31, u32::MAX-3..u32::MAX); one evaluation = one (configuration, start values) state space searched to exhaustion"
        .into();
    r.bound("ring_sizes", json!(sizes));
    r.bound("start_values", json!(starts));
    r.bound("profile_overflow_checks", cfg!(debug_assertions));
    r.traces_validated = r.transitions; // every transition of the application side is an execution of the real method
    r.write(&args.out);
}
