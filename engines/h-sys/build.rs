//! Lists every exported (`pub`, not `pub(crate)`) function of rusl that issues a system
//! call: directly (its body contains `syscall!(`) or through another listed function of
//! the same crate that it calls by a crate-local name (same file, `use crate::..` import or a
//! `crate::`/`super::`/`self::` path).  The harness must have an invocation entry or an
//! `EXCLUDED` entry for every function listed here (checked at run time → machinery failure).
//!
//! Skipped: `#[cfg(test)]` modules (inline and `#[cfg(test)] mod x;` files), items under a
//! `cfg` that names aarch64 (or x86) but not x86_64.
//!
//! The parser is a token walker, not a Rust parser: comments and string literals are blanked,
//! items are delimited by the first `{`/`;` outside parentheses and brackets.

use std::collections::{BTreeMap, BTreeSet};
use std::fmt::Write as _;
use std::path::{Path, PathBuf};

#[derive(Clone, Debug, PartialEq)]
enum Tok {
    Id(String),
    P(char),
}

fn blank(src: &str) -> Vec<u8> {
    // blank comments, string and char literals (keeps length and newlines)
    let b = src.as_bytes();
    let mut o = b.to_vec();
    let mut i = 0;
    while i < b.len() {
        if b[i] == b'/' && i + 1 < b.len() && b[i + 1] == b'/' {
            while i < b.len() && b[i] != b'\n' {
                o[i] = b' ';
                i += 1;
            }
        } else if b[i] == b'/' && i + 1 < b.len() && b[i + 1] == b'*' {
            let mut depth = 0;
            while i < b.len() {
                if b[i] == b'/' && i + 1 < b.len() && b[i + 1] == b'*' {
                    depth += 1;
                    o[i] = b' ';
                    o[i + 1] = b' ';
                    i += 2;
                } else if b[i] == b'*' && i + 1 < b.len() && b[i + 1] == b'/' {
                    depth -= 1;
                    o[i] = b' ';
                    o[i + 1] = b' ';
                    i += 2;
                    if depth == 0 {
                        break;
                    }
                } else {
                    if b[i] != b'\n' {
                        o[i] = b' ';
                    }
                    i += 1;
                }
            }
        } else if b[i] == b'"' {
            // (raw strings with hashes are not used in the scanned sources in a way that matters:
            //  r#"…"# would still be blanked up to the first quote pair)
            o[i] = b'"';
            i += 1;
            while i < b.len() && b[i] != b'"' {
                if b[i] == b'\\' {
                    o[i] = b' ';
                    i += 1;
                    if i < b.len() && b[i] != b'\n' {
                        o[i] = b' ';
                    }
                    i += 1;
                    continue;
                }
                if b[i] != b'\n' {
                    o[i] = b' ';
                }
                i += 1;
            }
            i += 1;
        } else if b[i] == b'\'' {
            // char literal or lifetime
            if i + 2 < b.len() && b[i + 1] == b'\\' {
                // '\x..' style
                let mut j = i + 2;
                while j < b.len() && b[j] != b'\'' && j < i + 12 {
                    j += 1;
                }
                for k in i..=j.min(b.len() - 1) {
                    o[k] = b' ';
                }
                i = j + 1;
            } else if i + 2 < b.len() && b[i + 2] == b'\'' {
                o[i] = b' ';
                o[i + 1] = b' ';
                o[i + 2] = b' ';
                i += 3;
            } else {
                // lifetime: the tick stays (a punctuation token followed by the lifetime's name)
                i += 1;
            }
        } else {
            i += 1;
        }
    }
    o
}

fn lex(clean: &[u8]) -> Vec<Tok> {
    let mut v = Vec::new();
    let mut i = 0;
    while i < clean.len() {
        let c = clean[i];
        if c.is_ascii_whitespace() {
            i += 1;
        } else if c.is_ascii_alphanumeric() || c == b'_' {
            let s = i;
            while i < clean.len() && (clean[i].is_ascii_alphanumeric() || clean[i] == b'_') {
                i += 1;
            }
            v.push(Tok::Id(String::from_utf8_lossy(&clean[s..i]).to_string()));
        } else {
            v.push(Tok::P(c as char));
            i += 1;
        }
    }
    v
}

fn is(t: &Tok, c: char) -> bool {
    matches!(t, Tok::P(x) if *x == c)
}
fn id(t: &Tok) -> Option<&str> {
    match t {
        Tok::Id(s) => Some(s),
        _ => None,
    }
}

/// index of the token matching the opener at `i`
fn matching(t: &[Tok], i: usize) -> usize {
    let (o, c) = match &t[i] {
        Tok::P('{') => ('{', '}'),
        Tok::P('(') => ('(', ')'),
        Tok::P('[') => ('[', ']'),
        _ => panic!("not an opener"),
    };
    let mut d = 0i32;
    let mut j = i;
    while j < t.len() {
        if is(&t[j], o) {
            d += 1;
        } else if is(&t[j], c) {
            d -= 1;
            if d == 0 {
                return j;
            }
        }
        j += 1;
    }
    t.len() - 1
}

#[derive(Debug, Clone)]
struct FnItem {
    file_mod: String, // e.g. unistd::dup
    name: String,
    exported: bool,
    direct: bool,
    /// a slice type appears in the parameter list
    slice_param: bool,
    /// two or more `Fd` parameters or two or more `UnixStr` parameters
    pair_param: bool,
    /// (parameter name, normalised type) in declaration order; `self` receivers are skipped
    params: Vec<(String, String)>,
    /// (path-qualified-with-crate-prefix?, preceded-by-dot?, name) of every `name(` in the body
    calls: Vec<(bool, String)>,
}

struct FileScan {
    fns: Vec<FnItem>,
    imported: BTreeSet<String>, // identifiers mentioned in `use crate::…` / `use super::…` statements
    test_mods: Vec<String>,     // `#[cfg(test)] mod x;`
}

/// `a: T, mut b: &'x [U], c: crate::p::V<W>` → [("a","T"), ("b","&[U]"), ("c","V<W>")]
fn split_params(t: &[Tok]) -> Vec<(String, String)> {
    let mut out = Vec::new();
    let mut depth = 0i32;
    let mut cur: Vec<&Tok> = Vec::new();
    let mut groups: Vec<Vec<&Tok>> = Vec::new();
    for (i, x) in t.iter().enumerate() {
        match x {
            Tok::P('(') | Tok::P('[') | Tok::P('<') => depth += 1,
            Tok::P(')') | Tok::P(']') => depth -= 1,
            // `->` inside fn-pointer types is not a closing angle bracket
            Tok::P('>') if !(i > 0 && is(&t[i - 1], '-')) => depth -= 1,
            Tok::P(',') if depth == 0 => {
                groups.push(std::mem::take(&mut cur));
                continue;
            }
            _ => {}
        }
        cur.push(x);
    }
    if !cur.is_empty() {
        groups.push(cur);
    }
    for g in groups {
        let Some(colon) = g.iter().position(|x| is(x, ':')) else { continue };
        // a `::` before any single colon cannot occur in a parameter pattern of these sources
        let name = g[..colon].iter().rev().find_map(|x| id(x)).unwrap_or("_").to_string();
        let mut ty = String::new();
        let tt = &g[colon + 1..];
        let mut i = 0;
        while i < tt.len() {
            match tt[i] {
                Tok::P('\'') => {
                    i += 2; // the tick and the lifetime's name
                    continue;
                }
                Tok::Id(s) => {
                    // drop path prefixes `seg::`
                    if i + 2 < tt.len() && is(tt[i + 1], ':') && is(tt[i + 2], ':') {
                        i += 3;
                        continue;
                    }
                    if !ty.is_empty() && ty.chars().last().is_some_and(|c| c.is_ascii_alphanumeric() || c == '_') {
                        ty.push(' ');
                    }
                    ty.push_str(s);
                }
                Tok::P(c) => ty.push(*c),
            }
            i += 1;
        }
        out.push((name, ty));
    }
    out
}

fn cfg_is_test(attrs: &[Vec<Tok>]) -> bool {
    attrs.iter().any(|a| {
        let ids: Vec<&str> = a.iter().filter_map(id).collect();
        ids.first() == Some(&"cfg") && ids.contains(&"test") && !ids.contains(&"not")
    })
}

fn scan_items(t: &[Tok], raw_attr_text: &dyn Fn(usize, usize) -> String, pos: &[usize], mut i: usize, end: usize, file_mod: &str, out: &mut FileScan) {
    while i < end {
        // attributes
        let mut attrs: Vec<Vec<Tok>> = Vec::new();
        let mut attr_raw: Vec<String> = Vec::new();
        while i + 1 < end && is(&t[i], '#') && (is(&t[i + 1], '[') || (is(&t[i + 1], '!') && i + 2 < end && is(&t[i + 2], '['))) {
            let inner = is(&t[i + 1], '!');
            let ob = if inner { i + 2 } else { i + 1 };
            let cb = matching(t, ob);
            if !inner {
                attrs.push(t[ob + 1..cb].to_vec());
                attr_raw.push(raw_attr_text(pos[ob], pos[cb]));
            }
            i = cb + 1;
        }
        if i >= end {
            break;
        }
        if is(&t[i], ';') {
            i += 1;
            continue;
        }
        // header: up to first `{` or `;` outside () and []
        let start = i;
        let mut j = i;
        let mut hdr_end = end;
        let mut has_body = false;
        while j < end {
            match &t[j] {
                Tok::P('(') | Tok::P('[') => {
                    j = matching(t, j) + 1;
                    continue;
                }
                Tok::P('{') => {
                    hdr_end = j;
                    has_body = true;
                    break;
                }
                Tok::P(';') => {
                    hdr_end = j;
                    break;
                }
                _ => {}
            }
            j += 1;
        }
        let hdr = &t[start..hdr_end.min(end)];
        let body_end = if has_body { matching(t, hdr_end) } else { hdr_end };
        let is_test = cfg_is_test(&attrs);
        let other_arch = attr_raw.iter().any(|a| {
            a.trim_start().starts_with("cfg") && (a.contains("aarch64") || a.contains("\"x86\"")) && !a.contains("x86_64")
        });
        // classify by the first keyword among the header's leading identifiers (before any paren)
        let mut kw: Option<(&str, usize)> = None;
        for (k, tk) in hdr.iter().enumerate() {
            match tk {
                Tok::Id(s) if matches!(s.as_str(), "fn" | "mod" | "impl" | "trait" | "use" | "struct" | "enum" | "union" | "const" | "static" | "type" | "macro_rules") => {
                    // `const fn` / `const unsafe fn`: keep looking for fn
                    if s == "const" || s == "static" {
                        let rest_has_fn = hdr[k + 1..].iter().take(4).any(|x| id(x) == Some("fn"));
                        if rest_has_fn {
                            continue;
                        }
                    }
                    kw = Some((s.as_str(), k));
                    break;
                }
                Tok::P('!') => break, // macro invocation
                Tok::P('(') => {
                    // pub(crate) …: skip the group
                    continue;
                }
                _ => {}
            }
        }
        let exported = id(&hdr[0]) == Some("pub") && !(hdr.len() > 1 && is(&hdr[1], '('));
        match kw {
            Some(("fn", k)) if !is_test && !other_arch && has_body => {
                if let Some(name) = hdr.get(k + 1).and_then(id) {
                    let body = &t[hdr_end + 1..body_end];
                    let mut direct = false;
                    let mut calls = Vec::new();
                    for (x, tk) in body.iter().enumerate() {
                        if let Tok::Id(s) = tk {
                            let next = body.get(x + 1);
                            if s == "syscall" && next.map_or(false, |n| is(n, '!')) {
                                direct = true;
                            }
                            if next.map_or(false, |n| is(n, '(')) {
                                let dot = x > 0 && is(&body[x - 1], '.');
                                if dot {
                                    continue;
                                }
                                // path-qualified?
                                let mut crate_path = false;
                                let mut y = x;
                                let mut plain = true;
                                while y >= 3 && is(&body[y - 1], ':') && is(&body[y - 2], ':') {
                                    plain = false;
                                    if let Some(seg) = id(&body[y - 3]) {
                                        if matches!(seg, "crate" | "super" | "self") {
                                            crate_path = true;
                                        }
                                        y -= 3;
                                    } else {
                                        break;
                                    }
                                }
                                if plain || crate_path {
                                    calls.push((crate_path, s.clone()));
                                }
                            }
                        }
                    }
                    let (slice_param, pair_param) = match hdr.iter().position(|x| is(x, '(')).filter(|&q| q > k) {
                        Some(q) => {
                            let abs = start + q;
                            let close = matching(t, abs);
                            let params = &t[abs..close];
                            let count = |w: &str| params.iter().filter(|x| id(x) == Some(w)).count();
                            (params.iter().any(|x| is(x, '[')), count("Fd") >= 2 || count("UnixStr") >= 2)
                        }
                        None => (false, false),
                    };
                    let params = match hdr.iter().position(|x| is(x, '(')).filter(|&q| q > k) {
                        Some(q) => {
                            let abs = start + q;
                            let close = matching(t, abs);
                            split_params(&t[abs + 1..close])
                        }
                        None => Vec::new(),
                    };
                    out.fns.push(FnItem { file_mod: file_mod.to_string(), name: name.to_string(), exported, direct, slice_param, pair_param, params, calls });
                }
            }
            Some(("mod", k)) => {
                let name = hdr.get(k + 1).and_then(id).unwrap_or("").to_string();
                if is_test {
                    if !has_body {
                        out.test_mods.push(name);
                    }
                } else if has_body && !other_arch {
                    let sub = if file_mod.is_empty() { name } else { format!("{file_mod}::{name}") };
                    scan_items(t, raw_attr_text, pos, hdr_end + 1, body_end, &sub, out);
                }
            }
            Some(("impl", _)) | Some(("trait", _)) if has_body && !is_test && !other_arch => {
                // methods: `pub fn` inside inherent impls are exported API too
                scan_items(t, raw_attr_text, pos, hdr_end + 1, body_end, file_mod, out);
            }
            Some(("use", _)) => {
                let ids: Vec<&str> = t[start..body_end.max(hdr_end)].iter().filter_map(id).collect();
                // a `use a::{b, c};` item ends at its `;` after the brace group
                let mut e = body_end;
                while e < end && !is(&t[e], ';') {
                    e += 1;
                }
                let ids2: Vec<&str> = t[start..e.min(end)].iter().filter_map(id).collect();
                let all = if ids2.len() > ids.len() { ids2 } else { ids };
                let first = all.iter().position(|s| *s == "use").map(|p| all.get(p + 1).copied().unwrap_or(""));
                if matches!(first, Some("crate") | Some("super") | Some("self")) {
                    for s in &all {
                        out.imported.insert(s.to_string());
                    }
                }
                i = e + 1;
                continue;
            }
            _ => {}
        }
        i = body_end + 1;
    }
}

fn collect_rs(dir: &Path, v: &mut Vec<PathBuf>) {
    let mut es: Vec<_> = std::fs::read_dir(dir).unwrap_or_else(|e| panic!("read_dir {dir:?}: {e}")).flatten().collect();
    es.sort_by_key(|e| e.path());
    for e in es {
        let p = e.path();
        if p.is_dir() {
            collect_rs(&p, v);
        } else if p.extension().map_or(false, |x| x == "rs") {
            v.push(p);
        }
    }
}

fn main() {
    println!("cargo:rerun-if-env-changed=H_SYS_RUSL_SRC");
    let src = std::env::var("H_SYS_RUSL_SRC").unwrap_or_else(|_| {
        // the `rusl` path dependency of this workspace
        let ws = Path::new(&std::env::var("CARGO_MANIFEST_DIR").unwrap()).join("../Cargo.toml");
        let txt = std::fs::read_to_string(&ws).unwrap_or_default();
        let mut p = String::from("/repo/rusl");
        for l in txt.lines() {
            let l = l.trim();
            if l.starts_with("rusl") && l.contains("path") {
                if let Some(a) = l.find("path") {
                    let rest = &l[a..];
                    if let Some(q1) = rest.find('"') {
                        if let Some(q2) = rest[q1 + 1..].find('"') {
                            p = rest[q1 + 1..q1 + 1 + q2].to_string();
                        }
                    }
                }
            }
        }
        format!("{p}/src")
    });
    println!("cargo:rerun-if-changed={src}");
    println!("cargo:rerun-if-changed=build.rs");
    println!("cargo:rerun-if-changed=../Cargo.toml");
    let root = PathBuf::from(&src);
    let mut files = Vec::new();
    collect_rs(&root, &mut files);
    assert!(!files.is_empty(), "no sources under {src}");

    // pass 1: scan every file
    let mut scans: BTreeMap<PathBuf, (String, FileScan)> = BTreeMap::new();
    for f in &files {
        let rel = f.strip_prefix(&root).unwrap();
        let mut comps: Vec<String> = rel.with_extension("").components().map(|c| c.as_os_str().to_string_lossy().to_string()).collect();
        if comps.last().map_or(false, |s| s == "mod" || s == "lib") {
            comps.pop();
        }
        let file_mod = comps.join("::");
        let text = std::fs::read_to_string(f).unwrap();
        let clean = blank(&text);
        // token positions for raw attribute text
        let toks = lex(&clean);
        let mut pos = Vec::with_capacity(toks.len());
        {
            let mut i = 0;
            while i < clean.len() {
                let c = clean[i];
                if c.is_ascii_whitespace() {
                    i += 1;
                } else if c.is_ascii_alphanumeric() || c == b'_' {
                    pos.push(i);
                    while i < clean.len() && (clean[i].is_ascii_alphanumeric() || clean[i] == b'_') {
                        i += 1;
                    }
                } else {
                    pos.push(i);
                    i += 1;
                }
            }
        }
        let raw = text.clone();
        let raw_attr = move |a: usize, b: usize| -> String { raw.get(a + 1..b).unwrap_or("").to_string() };
        let mut fs = FileScan { fns: vec![], imported: BTreeSet::new(), test_mods: vec![] };
        scan_items(&toks, &raw_attr, &pos, 0, toks.len(), &file_mod, &mut fs);
        scans.insert(f.clone(), (file_mod, fs));
    }
    // files that are `#[cfg(test)] mod x;` children are test-only
    let mut test_files: BTreeSet<PathBuf> = BTreeSet::new();
    for (f, (_, fs)) in &scans {
        for m in &fs.test_mods {
            let stem = f.file_stem().unwrap().to_string_lossy().to_string();
            let parent = f.parent().unwrap();
            let base = if stem == "mod" || stem == "lib" { parent.to_path_buf() } else { parent.join(&stem) };
            test_files.insert(base.join(format!("{m}.rs")));
            test_files.insert(base.join(m).join("mod.rs"));
        }
    }
    let mut n_test_skipped = 0;
    scans.retain(|f, _| {
        let t = test_files.iter().any(|tf| f == tf || tf.file_name().map_or(false, |n| n == "mod.rs") && f.starts_with(tf.parent().unwrap()));
        if t {
            n_test_skipped += 1;
        }
        !t
    });

    // pass 2: transitive closure "issues a system call"
    // marked: (file_mod, name)
    let mut marked: BTreeSet<(String, String)> = BTreeSet::new();
    for (_, (_, fs)) in &scans {
        for f in &fs.fns {
            if f.direct {
                marked.insert((f.file_mod.clone(), f.name.clone()));
            }
        }
    }
    loop {
        let names: BTreeSet<String> = marked.iter().map(|m| m.1.clone()).collect();
        let mut grew = false;
        for (_, (_, fs)) in &scans {
            let local: BTreeSet<&str> = fs.fns.iter().map(|f| f.name.as_str()).collect();
            for f in &fs.fns {
                let key = (f.file_mod.clone(), f.name.clone());
                if marked.contains(&key) {
                    continue;
                }
                let hit = f.calls.iter().any(|(crate_path, callee)| {
                    if !names.contains(callee) {
                        return false;
                    }
                    if *crate_path {
                        return true;
                    }
                    if local.contains(callee.as_str()) {
                        // a same-file function of that name: must itself be marked
                        return marked.contains(&(f.file_mod.clone(), callee.clone()));
                    }
                    fs.imported.contains(callee)
                });
                if hit {
                    marked.insert(key);
                    grew = true;
                }
            }
        }
        if !grew {
            break;
        }
    }

    let mut listed: Vec<(String, String, bool, bool, bool, Vec<(String, String)>)> = Vec::new();
    for (_, (_, fs)) in &scans {
        for f in &fs.fns {
            if f.exported && marked.contains(&(f.file_mod.clone(), f.name.clone())) {
                let e = (f.file_mod.clone(), f.name.clone(), f.direct, f.slice_param, f.pair_param, f.params.clone());
                if !listed.iter().any(|x| x.0 == e.0 && x.1 == e.1) {
                    listed.push(e);
                }
            }
        }
    }
    listed.sort();
    let n_files = scans.len();
    let mut s = String::new();
    writeln!(s, "/// generated by build.rs from {src}: (module path of the defining file, fn name, body contains `syscall!(` itself, a slice type appears in the parameter list, two or more Fd / two or more UnixStr parameters)").unwrap();
    writeln!(s, "pub const SCANNED: &[(&str, &str, bool, bool, bool)] = &[").unwrap();
    for (m, n, d, sl, pr, _) in &listed {
        writeln!(s, "    ({m:?}, {n:?}, {d}, {sl}, {pr}),").unwrap();
    }
    writeln!(s, "];").unwrap();
    writeln!(s, "/// (module path, fn name, [(parameter name, normalised parameter type)])").unwrap();
    writeln!(s, "pub const SCANNED_PARAMS: &[(&str, &str, &[(&str, &str)])] = &[").unwrap();
    for (m, n, _, _, _, ps) in &listed {
        writeln!(s, "    ({m:?}, {n:?}, &{ps:?}),").unwrap();
    }
    writeln!(s, "];").unwrap();
    writeln!(s, "pub const SCANNED_SRC: &str = {src:?};").unwrap();
    writeln!(s, "pub const SCANNED_FILES: usize = {n_files};").unwrap();
    writeln!(s, "pub const SCANNED_TEST_FILES_SKIPPED: usize = {n_test_skipped};").unwrap();
    let out = PathBuf::from(std::env::var("OUT_DIR").unwrap()).join("scanned.rs");
    std::fs::write(out, s).unwrap();
}
