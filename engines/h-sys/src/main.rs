//! C09 — every raw system-call wrapper of rusl decodes the kernel's return value exactly.
//!
//! Fault enumeration over the syscall seam (`sysx`) in FORCED-VALUE mode on the real
//! wrappers: one invocation per wrapper with harmless arguments; the call is suppressed
//! (`Decision::Force(v)`) and its raw result forced to `v`, for every `v` of a stated
//! finite set (all 4095 error values, all small non-negative values, the boundary values
//! and the large patterns the wrapper's result type can carry).  No sampling.
//!
//! Oracle (exactly the property): `Err` ⇔ `v ∈ [-4095,-1]`, carrying errno `-v`;
//! otherwise `Ok` carrying `v` unchanged where the result type can represent it; exactly one
//! intercepted system call per invocation (dup2/dup3 may repeat after `-EBUSY` only).
//!
//! The wrapper table is checked for completeness against a build-time scan of the rusl
//! sources (`build.rs` → `SCANNED`).

use common::*;
use core::num::NonZeroUsize;
use core::sync::atomic::AtomicU32;
use rusl::platform::*;
use rusl::string::unix_str::UnixStr;
use rusl::unix_lit;
use serde_json::{json, Value};
use sysx::{Decision, Plan};

include!(concat!(env!("OUT_DIR"), "/scanned.rs"));

const EBUSY: i64 = 16;
/// a wrapper that is still re-issuing its call after this many answers is given terminating answers
const HORIZON: usize = 8;

// ---------------------------------------------------------------------------
// what a wrapper invocation produced

#[derive(Debug, Clone, Copy, PartialEq)]
enum Got {
    /// `Ok`, with the numeric part that comes from the return register (None: `()` or a struct)
    Ok(Option<i128>),
    /// `Err`, with its errno code (None: an error without code)
    Err(Option<i32>),
}

/// the type in which the wrapper's `Ok` carries the return register
#[derive(Debug, Clone, Copy, PartialEq)]
enum Ty {
    Unit,
    I32,
    U32,
    I64,
    U64,
}

/// class of the kernel's success values for the call (selects extra forced values)
#[derive(Debug, Clone, Copy, PartialEq)]
enum Dom {
    /// 0 on success
    Zero,
    /// a byte / event / waiter count
    Count,
    /// a descriptor, process id, user id, flag word
    Id,
    /// a mapping address
    Addr,
    /// a file offset
    Off,
    /// the call does not return on success (execve): only error values are forced
    NoReturn,
}

#[derive(Clone)]
struct Entry {
    /// `<top-level module>::<fn>`; a `#variant` suffix distinguishes several invocations of one fn
    name: &'static str,
    /// the system call the invocation must issue (harness sanity check)
    nr: i64,
    dom: Dom,
    ty: Ty,
    /// the signature has no error channel (`get_pid() -> PidT`): only success values are forced
    infallible: bool,
    call: fn() -> Got,
    /// what the (suppressed) kernel would have written for a successful call
    fill: Option<fn(&[u64; 6])>,
    /// generated sentinel entry: (parameter, label) — see `pick`
    sel: Option<(&'static str, &'static str)>,
}

fn base_name(n: &str) -> &str {
    n.split('#').next().unwrap()
}

fn unit<T>(r: rusl::Result<T>) -> Got {
    match r {
        Ok(_) => Got::Ok(None),
        Err(e) => Got::Err(e.code.map(|c| c.raw())),
    }
}
fn num<T: Into<i128>>(r: rusl::Result<T>) -> Got {
    match r {
        Ok(v) => Got::Ok(Some(v.into())),
        Err(e) => Got::Err(e.code.map(|c| c.raw())),
    }
}
fn cnt(r: rusl::Result<usize>) -> Got {
    num(r.map(|v| v as u64))
}
fn fdr(r: rusl::Result<Fd>) -> Got {
    num(r.map(|f| f.value()))
}

// harmless arguments (every call is suppressed anyway)
fn fd_a() -> Fd {
    Fd::try_new(1001).unwrap()
}
fn fd_b() -> Fd {
    Fd::try_new(1002).unwrap()
}
fn p1() -> &'static UnixStr {
    unix_lit!("/tmp/h-sys-does-not-exist-a")
}
fn p2() -> &'static UnixStr {
    unix_lit!("/tmp/h-sys-does-not-exist-b")
}
fn mode() -> Mode {
    Mode::S_IRUSR | Mode::S_IWUSR
}
fn sock_unix() -> SocketArgUnix {
    SocketAddressUnix::try_from_unix(p1()).unwrap()
}
fn sock_inet() -> SocketAddressInet {
    SocketAddressInet::new([127, 0, 0, 1], 0)
}

unsafe fn zero_at(p: u64, n: usize) {
    if p != 0 {
        core::ptr::write_bytes(p as *mut u8, 0, n);
    }
}
fn fill_pipe(a: &[u64; 6]) {
    unsafe {
        let p = a[0] as *mut i32;
        *p = 3;
        *p.add(1) = 4;
    }
}
fn fill_stat(a: &[u64; 6]) {
    unsafe { zero_at(a[2], core::mem::size_of::<Stat>()) }
}
fn fill_uname(a: &[u64; 6]) {
    unsafe { zero_at(a[0], core::mem::size_of::<UtsName>()) }
}
fn fill_termios(a: &[u64; 6]) {
    unsafe { zero_at(a[2], core::mem::size_of::<Termios>()) }
}
fn fill_ts(a: &[u64; 6]) {
    unsafe { zero_at(a[1], core::mem::size_of::<TimeSpec>()) }
}
fn fill_hid(a: &[u64; 6]) {
    // struct hiddev_devinfo: 4×u32, 3×s16 (+2 pad), u32
    unsafe { zero_at(a[2], 28) }
}

macro_rules! e {
    ($name:expr, $nr:ident, $dom:ident, $ty:ident, $call:expr) => {
        Entry { name: $name, nr: libc::$nr, dom: Dom::$dom, ty: Ty::$ty, infallible: false, call: $call, fill: None, sel: None }
    };
    ($name:expr, $nr:ident, $dom:ident, $ty:ident, $call:expr, fill $fill:expr) => {
        Entry { name: $name, nr: libc::$nr, dom: Dom::$dom, ty: Ty::$ty, infallible: false, call: $call, fill: Some($fill), sel: None }
    };
    ($name:expr, $nr:ident, $dom:ident, $ty:ident, $call:expr, infallible $fill:expr) => {
        Entry { name: $name, nr: libc::$nr, dom: Dom::$dom, ty: Ty::$ty, infallible: true, call: $call, fill: $fill, sel: None }
    };
}

// ---------------------------------------------------------------------------
// sentinel selection: a generated entry `<wrapper>#<param>=<label>` runs the wrapper's ordinary
// invocation with ONE parameter replaced by a special value of its type.  The invocation
// closures fetch every scalar argument through `pick`; the selector in force is thread-local.

thread_local! {
    static SEL: std::cell::Cell<Option<(&'static str, &'static str)>> = const { std::cell::Cell::new(None) };
    static SEL_USED: std::cell::Cell<bool> = const { std::cell::Cell::new(false) };
    static SEL_BAD: std::cell::Cell<bool> = const { std::cell::Cell::new(false) };
}

/// the value for parameter `p`: the default, or the option named by the selector in force
fn pick<T: Copy>(p: &str, opts: &[(&str, T)], d: T) -> T {
    match SEL.with(|s| s.get()) {
        Some((sp, label)) if sp == p => {
            SEL_USED.with(|u| u.set(true));
            match opts.iter().find(|o| o.0 == label) {
                Some(o) => o.1,
                None => {
                    SEL_BAD.with(|b| b.set(true));
                    d
                }
            }
        }
        _ => d,
    }
}

const L_SIGNED: &[&str] = &["-1", "0", "max", "min"];
const L_UNSIGNED: &[&str] = &["0", "1", "max"];
const L_BOOL: &[&str] = &["true", "false"];
const L_FD: &[&str] = &["0", "max"];
const L_NZ: &[&str] = &["1", "max"];
const L_FLAGS: &[&str] = &["empty", "all"];
const L_OPT3: &[&str] = &["none", "some0", "somemax"];
const L_OPT2: &[&str] = &["none", "some"];
const L_NONE: &[&str] = &[];

/// The special values every parameter of this (normalised) type must be tried with.
/// Empty: the type has no scalar sentinels (structures, strings; slices are covered by #len0 and the ladder).
/// None: a type the harness has never seen — a machinery failure until it is classified here.
fn labels_for(ty: &str) -> Option<&'static [&'static str]> {
    Some(match ty {
        "i32" | "PidT" | "OffT" => L_SIGNED,
        "u32" | "u64" | "usize" | "UidT" | "GidT" => L_UNSIGNED,
        "bool" => L_BOOL,
        "Fd" | "NonNegativeI32" => L_FD,
        "NonZeroUsize" => L_NZ,
        "FutexFlags" | "IoUringEnterFlags" | "IoUringParamFlags" | "SocketFlags" | "WaitPidFlags" | "OpenFlags" | "Mode" | "MemoryProtection" | "MapAdditionalFlags"
        | "Mountflags" | "RenameFlags" | "UnlinkFlags" | "CloneFlags" | "Whence" => L_FLAGS,
        "Option<TimeSpec>" | "Option<&TimeSpec>" | "Option<usize>" | "Option<Fd>" => L_OPT3,
        "Option<&SigSetT>" | "Option<*mut TimeSpec>" | "Option<&UnixStr>" => L_OPT2,
        "EpollOp" => &["Add", "Mod", "Del"],
        "SetAction" => &["NOW", "DRAIN", "FLUSH"],
        "MapRequiredFlag" => &["MapShared", "MapSharedValidate", "MapPrivate"],
        "CatchSignal" => &["Int", "Term", "Hup", "Segv", "Chld"],
        "SaSignalaction" => &["Dfl", "Ign", "Handler", "SigAction"],
        "ClockId" => &["realtime", "monotonic", "raw-1", "rawmax"],
        "AddressFamily" => &["unix", "inet"],
        "SocketOptions" => &["stream", "dgram-nonblock-cloexec"],
        "FilesystemType" => &["tmpfs", "ext4"],
        "*const*const u8" => &["null", "nonnull"],
        "&TimeSpec" | "&mut TimeSpec" => &["zero", "max"],
        "&AtomicU32" | "&mut IoUringParams" | "&SocketAddressInet" | "&SocketArgUnix" | "&mut MsgHdrBorrow" | "&SendDropGuard" | "&CloneArgs" | "&mut Clone3Args" | "&UnixStr"
        | "&EpollEvent" | "&Termios" => L_NONE,
        t if t.starts_with("&[") || t.starts_with("&mut[") => L_NONE,
        _ => return None,
    })
}

fn a_i32(p: &str, d: i32) -> i32 {
    pick(p, &[("-1", -1), ("0", 0), ("max", i32::MAX), ("min", i32::MIN)], d)
}
fn a_i64(p: &str, d: i64) -> i64 {
    pick(p, &[("-1", -1), ("0", 0), ("max", i64::MAX), ("min", i64::MIN)], d)
}
fn a_u32(p: &str, d: u32) -> u32 {
    pick(p, &[("0", 0), ("1", 1), ("max", u32::MAX)], d)
}
fn a_u64(p: &str, d: u64) -> u64 {
    pick(p, &[("0", 0), ("1", 1), ("max", u64::MAX)], d)
}
fn a_us(p: &str, d: usize) -> usize {
    pick(p, &[("0", 0), ("1", 1), ("max", usize::MAX)], d)
}
fn a_b(p: &str, d: bool) -> bool {
    pick(p, &[("true", true), ("false", false)], d)
}
fn a_fd(p: &str, d: Fd) -> Fd {
    pick(p, &[("0", Fd::ZERO), ("max", Fd::MAX)], d)
}
fn a_nz(p: &str, d: usize) -> NonZeroUsize {
    NonZeroUsize::new(pick(p, &[("1", 1), ("max", usize::MAX)], d)).unwrap()
}
/// bit-flag newtypes: no bit / every bit the representation allows (`nn`: over NonNegativeI32, so i32::MAX)
fn a_fl<T: Copy>(p: &str, d: T, nn: bool) -> T {
    let mut empty: T = unsafe { core::mem::zeroed() };
    let mut all: T = unsafe { core::mem::zeroed() };
    unsafe {
        core::ptr::write_bytes(&mut empty as *mut T as *mut u8, 0, core::mem::size_of::<T>());
        core::ptr::write_bytes(&mut all as *mut T as *mut u8, 0xff, core::mem::size_of::<T>());
        if nn {
            assert_eq!(core::mem::size_of::<T>(), 4);
            *(&mut all as *mut T as *mut i32) = i32::MAX;
        }
    }
    pick(p, &[("empty", empty), ("all", all)], d)
}
fn ts_max() -> TimeSpec {
    TimeSpec::new(i64::MAX, 999_999_999)
}
fn a_ots(p: &str, d: Option<TimeSpec>) -> Option<TimeSpec> {
    pick(p, &[("none", None), ("some0", Some(TimeSpec::new_zeroed())), ("somemax", Some(ts_max()))], d)
}
fn a_ts(p: &str, d: TimeSpec) -> TimeSpec {
    pick(p, &[("zero", TimeSpec::new_zeroed()), ("max", ts_max())], d)
}
fn a_some(p: &str, d: bool) -> bool {
    pick(p, &[("none", false), ("some", true)], d)
}
unsafe extern "C" fn dummy_handler(_: i32) {}
unsafe extern "C" fn dummy_sigaction(_: i32, _: *mut rusl::process::SigInfo, _: *const core::ffi::c_void) {}

fn table() -> Vec<Entry> {
    use rusl::unistd as u;
    let base = vec![
        // ---- unistd
        e!("unistd::chdir", SYS_chdir, Zero, Unit, || unit(u::chdir(p1()))),
        e!("unistd::close", SYS_close, Zero, Unit, || unit(u::close(a_fd("fd", fd_a())))),
        e!("unistd::copy_file_range", SYS_copy_file_range, Count, U64, || {
            cnt(u::copy_file_range(a_fd("src_fd", fd_a()), a_u64("src_offset", 0), a_fd("dest_fd", fd_b()), a_u64("dest_offset", 0), a_us("len", 16)))
        }),
        e!("unistd::dup2", SYS_dup3, Id, Unit, || unit(u::dup2(a_fd("old", fd_a()), a_fd("new", fd_b())))),
        e!("unistd::dup3", SYS_dup3, Id, Unit, || unit(u::dup3(a_fd("old", fd_a()), a_fd("new", fd_b()), a_b("cloexec", true)))),
        e!("unistd::fcntl_get_file_status", SYS_fcntl, Id, I32, || num(u::fcntl_get_file_status(a_fd("fd", fd_a())).map(|f| f.bits().value()))),
        e!("unistd::fcntl_set_file_status", SYS_fcntl, Zero, Unit, || {
            unit(u::fcntl_set_file_status(a_fd("fd", fd_a()), a_fl("flag", OpenFlags::O_NONBLOCK, true)))
        }),
        e!("unistd::fcntl_dupfd_cloexec", SYS_fcntl, Id, I32, || fdr(u::fcntl_dupfd_cloexec(a_fd("fd", fd_a()), a_fd("min", fd_b())))),
        e!("unistd::fcntl_set_cloexec", SYS_fcntl, Zero, Unit, || unit(u::fcntl_set_cloexec(a_fd("fd", fd_a()), a_b("cloexec", true)))),
        e!("unistd::get_dents", SYS_getdents64, Count, U64, || {
            let mut b = [0u8; 64];
            cnt(u::get_dents(a_fd("fd", fd_a()), &mut b))
        }),
        e!("unistd::get_uid", SYS_getuid, Id, U32, || num(u::get_uid())),
        e!("unistd::mkdir", SYS_mkdirat, Zero, Unit, || unit(u::mkdir(p1(), a_fl("mode", mode(), false)))),
        e!("unistd::mkdir_at", SYS_mkdirat, Zero, Unit, || unit(u::mkdir_at(a_fd("dir_fd", fd_a()), p1(), a_fl("mode", mode(), false)))),
        e!("unistd::mmap", SYS_mmap, Addr, U64, || {
            cnt(unsafe {
                u::mmap(
                    pick("addr", &[("none", None), ("some0", Some(0)), ("somemax", Some(usize::MAX))], None),
                    a_nz("length", 4096),
                    a_fl("memory_protection", MemoryProtection::PROT_READ, false),
                    pick(
                        "required_flag",
                        &[("MapShared", MapRequiredFlag::MapShared), ("MapSharedValidate", MapRequiredFlag::MapSharedValidate), ("MapPrivate", MapRequiredFlag::MapPrivate)],
                        MapRequiredFlag::MapPrivate,
                    ),
                    a_fl("additional_flags", MapAdditionalFlags::MAP_ANONYMOUS, false),
                    pick("fd", &[("none", None), ("some0", Some(Fd::ZERO)), ("somemax", Some(Fd::MAX))], None),
                    a_i64("offset", 0),
                )
            })
        }),
        e!("unistd::munmap", SYS_munmap, Zero, Unit, || unit(unsafe { u::munmap(a_us("addr", 0x7000_0000_0000), a_nz("length", 4096)) })),
        e!("unistd::mount", SYS_mount, Zero, Unit, || {
            let data = if a_some("data", false) { Some(unix_lit!("size=1m")) } else { None };
            unit(u::mount(
                p1(),
                p2(),
                pick("fs_type", &[("tmpfs", FilesystemType::TMPFS), ("ext4", FilesystemType::EXT4)], FilesystemType::TMPFS),
                a_fl("flags", Mountflags::MS_RDONLY, false),
                data,
            ))
        }),
        e!("unistd::mount#data", SYS_mount, Zero, Unit, || {
            unit(u::mount(p1(), p2(), FilesystemType::TMPFS, Mountflags::MS_RDONLY, Some(unix_lit!("size=1m"))))
        }),
        e!("unistd::unmount", SYS_umount2, Zero, Unit, || unit(u::unmount(p1()))),
        e!("unistd::open_raw", SYS_openat, Id, I32, || {
            fdr(unsafe { u::open_raw(a_us("name_addr", p1().as_ptr() as usize), a_fl("flags", OpenFlags::O_RDONLY, true)) })
        }),
        e!("unistd::open", SYS_openat, Id, I32, || fdr(u::open(p1(), a_fl("flags", OpenFlags::O_RDONLY, true)))),
        e!("unistd::open_mode", SYS_openat, Id, I32, || fdr(u::open_mode(p1(), a_fl("flags", OpenFlags::O_RDONLY, true), a_fl("mode", mode(), false)))),
        e!("unistd::open_at", SYS_openat, Id, I32, || fdr(u::open_at(a_fd("dir", fd_a()), p1(), a_fl("flags", OpenFlags::O_RDONLY, true)))),
        e!("unistd::open_at_mode", SYS_openat, Id, I32, || {
            fdr(u::open_at_mode(a_fd("dir", fd_a()), p1(), a_fl("flags", OpenFlags::O_RDONLY, true), a_fl("mode", mode(), false)))
        }),
        e!("unistd::pipe", SYS_pipe2, Zero, Unit, || unit(u::pipe()), fill fill_pipe),
        e!("unistd::pipe2", SYS_pipe2, Zero, Unit, || unit(u::pipe2(a_fl("flags", OpenFlags::O_CLOEXEC, true))), fill fill_pipe),
        e!("unistd::read", SYS_read, Count, U64, || {
            let mut b = [0u8; 8];
            cnt(u::read(a_fd("fd", fd_a()), &mut b))
        }),
        e!("unistd::readv", SYS_readv, Count, U64, || {
            let mut b = [0u8; 8];
            let mut io = [IoSliceMut::new(&mut b)];
            cnt(u::readv(a_fd("fd", fd_a()), &mut io))
        }),
        e!("unistd::rename", SYS_renameat2, Zero, Unit, || unit(u::rename(p1(), p2()))),
        e!("unistd::rename_flags", SYS_renameat2, Zero, Unit, || unit(u::rename_flags(p1(), p2(), a_fl("flags", RenameFlags::empty(), false)))),
        e!("unistd::rename_at", SYS_renameat2, Zero, Unit, || unit(u::rename_at(a_fd("old_dir_fd", fd_a()), p1(), a_fd("new_dir_fd", fd_b()), p2()))),
        e!("unistd::rename_at2", SYS_renameat2, Zero, Unit, || {
            unit(u::rename_at2(a_fd("old_dir_fd", fd_a()), p1(), a_fd("new_dir_fd", fd_b()), p2(), a_fl("flags", RenameFlags::empty(), false)))
        }),
        e!("unistd::lseek", SYS_lseek, Off, I64, || num(u::lseek(a_fd("fd", fd_a()), a_i64("off_t", 0), a_fl("whence", u::Whence::SET, true)))),
        e!("unistd::setgid", SYS_setgid, Zero, Unit, || unit(u::setgid(a_u32("gid", 1000)))),
        e!("unistd::setpgid", SYS_setpgid, Zero, Unit, || unit(u::setpgid(a_i32("set_pid", 0), a_i32("grp_pid", 0)))),
        e!("unistd::setsid", SYS_setsid, Id, Unit, || unit(u::setsid())),
        e!("unistd::setuid", SYS_setuid, Zero, Unit, || unit(u::setuid(a_u32("uid", 1000)))),
        e!("unistd::stat", SYS_newfstatat, Zero, Unit, || unit(u::stat(p1())), fill fill_stat),
        e!("unistd::statat", SYS_newfstatat, Zero, Unit, || unit(u::statat(a_fd("dir_fd", fd_a()), p1())), fill fill_stat),
        e!("unistd::stat_fd", SYS_newfstatat, Zero, Unit, || unit(u::stat_fd(a_fd("dir_fd", fd_a()))), fill fill_stat),
        e!("unistd::swapon", SYS_swapon, Zero, Unit, || unit(u::swapon(p1(), a_i32("flags", 0)))),
        e!("unistd::uname", SYS_uname, Zero, Unit, || unit(u::uname()), fill fill_uname),
        e!("unistd::unlink", SYS_unlinkat, Zero, Unit, || unit(u::unlink(p1()))),
        e!("unistd::unlink_flags", SYS_unlinkat, Zero, Unit, || unit(u::unlink_flags(p1(), a_fl("flags", u::UnlinkFlags::empty(), false)))),
        e!("unistd::unlink_at", SYS_unlinkat, Zero, Unit, || {
            unit(u::unlink_at(a_fd("dir_fd", fd_a()), p1(), a_fl("flags", u::UnlinkFlags::at_removedir(), false)))
        }),
        e!("unistd::rmdir", SYS_unlinkat, Zero, Unit, || unit(u::rmdir(a_fd("dir_fd", fd_a())))),
        e!("unistd::unshare", SYS_unshare, Zero, Unit, || unit(u::unshare(a_fl("flags", CloneFlags::CLONE_FS, false)))),
        e!("unistd::write", SYS_write, Count, U64, || cnt(u::write(a_fd("fd", fd_a()), b"x"))),
        e!("unistd::writev", SYS_writev, Count, U64, || cnt(u::writev(a_fd("fd", fd_a()), &[IoSlice::new(b"x")]))),
        // ---- network
        e!("network::accept_unix", SYS_accept4, Id, I32, || {
            fdr(rusl::network::accept_unix(a_fd("sock_fd", fd_a()), a_fl("flags", SocketFlags::SOCK_CLOEXEC, false)).map(|x| x.0))
        }),
        e!("network::accept_inet", SYS_accept4, Id, I32, || {
            fdr(rusl::network::accept_inet(a_fd("sock_fd", fd_a()), a_fl("flags", SocketFlags::SOCK_CLOEXEC, false)).map(|x| x.0))
        }),
        e!("network::bind_unix", SYS_bind, Zero, Unit, || unit(rusl::network::bind_unix(a_fd("sock_fd", fd_a()), &sock_unix()))),
        e!("network::bind_inet", SYS_bind, Zero, Unit, || unit(rusl::network::bind_inet(a_fd("sock_fd", fd_a()), &sock_inet()))),
        e!("network::connect_unix", SYS_connect, Zero, Unit, || unit(rusl::network::connect_unix(a_fd("sock_fd", fd_a()), &sock_unix()))),
        e!("network::connect_inet", SYS_connect, Zero, Unit, || unit(rusl::network::connect_inet(a_fd("sock_fd", fd_a()), &sock_inet()))),
        e!("network::listen", SYS_listen, Zero, Unit, || {
            unit(rusl::network::listen(a_fd("sock_fd", fd_a()), a_fd("backlog", NonNegativeI32::try_new(8).unwrap())))
        }),
        e!("network::socket", SYS_socket, Id, I32, || {
            fdr(rusl::network::socket(
                pick("domain", &[("unix", AddressFamily::AF_UNIX), ("inet", AddressFamily::AF_INET)], AddressFamily::AF_UNIX),
                pick(
                    "options",
                    &[
                        ("stream", SocketOptions::new(SocketType::SOCK_STREAM, SocketFlags::empty())),
                        ("dgram-nonblock-cloexec", SocketOptions::new(SocketType::SOCK_DGRAM, SocketFlags::SOCK_NONBLOCK | SocketFlags::SOCK_CLOEXEC)),
                    ],
                    SocketOptions::new(SocketType::SOCK_STREAM, SocketFlags::SOCK_CLOEXEC),
                ),
                a_i32("protocol", 0),
            ))
        }),
        e!("network::get_unix_sock_name", SYS_getsockname, Zero, Unit, || unit(rusl::network::get_unix_sock_name(a_fd("sock_fd", fd_a())))),
        e!("network::get_inet_sock_name", SYS_getsockname, Zero, Unit, || unit(rusl::network::get_inet_sock_name(a_fd("sock_fd", fd_a())))),
        e!("network::sendmsg", SYS_sendmsg, Count, U64, || {
            let io = [IoSlice::new(b"x")];
            let g = MsgHdrBorrow::create_send(None, &io, None);
            cnt(rusl::network::sendmsg(a_fd("sock_fd", fd_a()), &g, a_i32("flags", 0)))
        }),
        e!("network::recvmsg", SYS_recvmsg, Count, U64, || {
            let mut b = [0u8; 8];
            let mut io = [IoSliceMut::new(&mut b)];
            let mut h = MsgHdrBorrow::create_recv(&mut io, None);
            cnt(rusl::network::recvmsg(a_fd("sock_fd", fd_a()), &mut h, a_i32("flags", 0)))
        }),
        // ---- process
        e!("process::fork", SYS_fork, Id, I32, || num(unsafe { rusl::process::fork() })),
        e!("process::clone", SYS_clone, Id, I32, || num(unsafe { rusl::process::clone(&CloneArgs::new(CloneFlags::empty())) })),
        e!("process::clone3", SYS_clone3, Id, U64, || num(unsafe { rusl::process::clone3(&mut Clone3Args::new(CloneFlags::empty())) })),
        e!("process::execve", SYS_execve, Zero, Unit, || {
            let one: [*const u8; 1] = [core::ptr::null()];
            let opts = [("null", core::ptr::null()), ("nonnull", one.as_ptr())];
            unit(unsafe { rusl::process::execve(p1(), pick("arg_v", &opts, core::ptr::null()), pick("env_p", &opts, core::ptr::null())) })
        }),
        e!("process::get_pid", SYS_getpid, Id, I32, || Got::Ok(Some(rusl::process::get_pid() as i128)), infallible None),
        e!("process::add_signal_action", SYS_rt_sigaction, Zero, Unit, || {
            use rusl::process::{CatchSignal as C, SaSignalaction as A};
            let sig = match pick("signal", &[("Int", 0), ("Term", 1), ("Hup", 2), ("Segv", 3), ("Chld", 4)], 2) {
                0 => C::Int,
                1 => C::Term,
                2 => C::Hup,
                3 => C::Segv,
                _ => C::Chld,
            };
            let act = pick("sigaction", &[("Dfl", A::Dfl), ("Ign", A::Ign), ("Handler", A::Handler(dummy_handler)), ("SigAction", A::SigAction(dummy_sigaction))], A::Dfl);
            unit(unsafe { rusl::process::add_signal_action(sig, act) })
        }),
        e!("process::wait_pid", SYS_wait4, Id, I32, || {
            num(rusl::process::wait_pid(a_i32("pid", -1), a_fl("flags", WaitPidFlags::WNOHANG, false)).map(|w| w.pid))
        }),
        // ---- select
        e!("select::epoll_create", SYS_epoll_create1, Id, I32, || fdr(rusl::select::epoll_create(a_b("cloexec", true)))),
        e!("select::epoll_ctl", SYS_epoll_ctl, Zero, Unit, || {
            let op = match pick("epoll_op", &[("Add", 0), ("Mod", 1), ("Del", 2)], 0) {
                0 => EpollOp::Add,
                1 => EpollOp::Mod,
                _ => EpollOp::Del,
            };
            unit(rusl::select::epoll_ctl(a_fd("epoll_fd", fd_a()), op, a_fd("fd", fd_b()), &EpollEvent::new(7, EpollEventMask::EPOLLIN)))
        }),
        e!("select::epoll_del", SYS_epoll_ctl, Zero, Unit, || unit(rusl::select::epoll_del(a_fd("epoll_fd", fd_a()), a_fd("fd", fd_b())))),
        e!("select::epoll_wait", SYS_epoll_pwait, Count, U64, || {
            let mut ev = [EpollEvent::new(0, EpollEventMask::empty()); 2];
            cnt(rusl::select::epoll_wait(a_fd("epoll_fd", fd_a()), &mut ev, a_i32("timeout_millis", 0)))
        }),
        e!("select::ppoll", SYS_ppoll, Count, U64, || {
            let mut pf = [PollFd::new(fd_a(), PollEvents::POLLIN)];
            let ts = a_ots("timespec", Some(TimeSpec::new_zeroed()));
            let ss = SigSetT::default();
            cnt(rusl::select::ppoll(&mut pf, ts.as_ref(), if a_some("sigset", false) { Some(&ss) } else { None }))
        }),
        // ---- time
        e!("time::clock_get_real_time", SYS_clock_gettime, Zero, Unit, || {
            let _ = rusl::time::clock_get_real_time();
            Got::Ok(None)
        }, infallible Some(fill_ts)),
        e!("time::clock_get_monotonic_time", SYS_clock_gettime, Zero, Unit, || {
            let _ = rusl::time::clock_get_monotonic_time();
            Got::Ok(None)
        }, infallible Some(fill_ts)),
        e!("time::clock_get_time", SYS_clock_gettime, Zero, Unit, || {
            let id = pick(
                "clock_id",
                &[("realtime", ClockId::CLOCK_REALTIME), ("monotonic", ClockId::CLOCK_MONOTONIC), ("raw-1", ClockId::from_raw(-1)), ("rawmax", ClockId::from_raw(i32::MAX))],
                ClockId::CLOCK_MONOTONIC,
            );
            unit(rusl::time::clock_get_time(id))
        }, fill fill_ts),
        e!("time::nanosleep", SYS_nanosleep, Zero, Unit, || {
            let mut rem = TimeSpec::new_zeroed();
            let req = a_ts("try_sleep", TimeSpec::new(0, 1));
            unit(rusl::time::nanosleep(&req, if a_some("rem", false) { Some(&mut rem as *mut TimeSpec) } else { None }))
        }),
        e!("time::nanosleep#rem", SYS_nanosleep, Zero, Unit, || {
            let mut rem = TimeSpec::new_zeroed();
            unit(rusl::time::nanosleep(&TimeSpec::new(0, 1), Some(&mut rem as *mut TimeSpec)))
        }),
        e!("time::nanosleep_same_ptr", SYS_nanosleep, Zero, Unit, || {
            let mut req = a_ts("try_sleep", TimeSpec::new(0, 1));
            unit(rusl::time::nanosleep_same_ptr(&mut req))
        }),
        // ---- futex
        e!("futex::futex_wait", SYS_futex, Zero, Unit, || {
            let a = AtomicU32::new(0);
            unit(rusl::futex::futex_wait(&a, a_u32("val", 1), a_fl("flags", FutexFlags::PRIVATE, true), a_ots("timeout", Some(TimeSpec::new(0, 1000)))))
        }),
        e!("futex::futex_wake", SYS_futex, Count, U64, || {
            let a = AtomicU32::new(0);
            cnt(rusl::futex::futex_wake(&a, a_i32("num_waiters", 1)))
        }),
        // ---- io_uring
        e!("io_uring::io_uring_setup", SYS_io_uring_setup, Id, I32, || {
            let mut p = IoUringParams::new(IoUringParamFlags::empty(), 0, 0);
            fdr(rusl::io_uring::io_uring_setup(a_u32("entries", 8), &mut p))
        }),
        e!("io_uring::io_uring_register_files", SYS_io_uring_register, Zero, Unit, || {
            unit(rusl::io_uring::io_uring_register_files(a_fd("uring_fd", fd_a()), &[fd_b()]))
        }),
        e!("io_uring::io_uring_register_io_slices", SYS_io_uring_register, Zero, Unit, || {
            let mut b = [0u8; 8];
            let io = [IoSliceMut::new(&mut b)];
            unit(rusl::io_uring::io_uring_register_io_slices(a_fd("uring_fd", fd_a()), &io))
        }),
        e!("io_uring::io_uring_register_buffers", SYS_io_uring_register, Zero, Unit, || {
            let mut b = [0u8; 8];
            let io = [IoSliceMut::new(&mut b)];
            unit(unsafe { rusl::io_uring::io_uring_register_buffers(a_fd("uring_fd", fd_a()), &io) })
        }),
        e!("io_uring::io_uring_enter", SYS_io_uring_enter, Count, U64, || {
            cnt(rusl::io_uring::io_uring_enter(
                a_fd("uring_fd", fd_a()),
                a_u32("to_submit", 1),
                a_u32("min_complete", 0),
                a_fl("flags", IoUringEnterFlags::IORING_ENTER_GETEVENTS, false),
            ))
        }),
        // ---- ioctl and its thin callers
        e!("ioctl::ioctl", SYS_ioctl, Count, U64, || cnt(unsafe { rusl::ioctl::ioctl(a_fd("fd", fd_a()), a_us("b", 0x5401), a_us("c", 0)) })),
        e!("termios::tcgetattr", SYS_ioctl, Zero, Unit, || unit(rusl::termios::tcgetattr(a_fd("fd", fd_a()))), fill fill_termios),
        e!("termios::tcsetattr", SYS_ioctl, Zero, Unit, || {
            let t: Termios = unsafe { core::mem::zeroed() };
            let act = match pick("action", &[("NOW", 0), ("DRAIN", 1), ("FLUSH", 2)], 0) {
                0 => SetAction::NOW,
                1 => SetAction::DRAIN,
                _ => SetAction::FLUSH,
            };
            unit(rusl::termios::tcsetattr(a_fd("fd", fd_a()), act, &t))
        }),
        e!("usb::bulk_transfer", SYS_ioctl, Count, U64, || {
            let mut b = [0u8; 8];
            cnt(rusl::usb::bulk_transfer(a_fd("fd", fd_a()), a_u32("endpoint", 1), &mut b, a_u32("timeout", 10)))
        }),
        e!("usb::claim_interface", SYS_ioctl, Zero, Unit, || unit(rusl::usb::claim_interface(a_fd("fd", fd_a()), a_u32("interface_number", 0)))),
        e!("usb::reset_usb_device", SYS_ioctl, Zero, Unit, || unit(rusl::usb::reset_usb_device(a_fd("fd", fd_a())))),
        e!("usb::release_interface", SYS_ioctl, Zero, Unit, || unit(rusl::usb::release_interface(a_fd("fd", fd_a()), a_u32("interface_number", 0)))),
        e!("hidio::get_hid_dev_dev_info", SYS_ioctl, Zero, Unit, || unit(rusl::hidio::get_hid_dev_dev_info(a_fd("fd", fd_a()))), fill fill_hid),
        // ---- ARGUMENT SHAPES: equal arguments (same descriptor twice, same path twice, src == dst)
        e!("unistd::dup2#eq", SYS_dup3, Id, Unit, || unit(u::dup2(fd_a(), fd_a()))),
        e!("unistd::dup3#eq", SYS_dup3, Id, Unit, || unit(u::dup3(fd_a(), fd_a(), true))),
        e!("unistd::dup2#eq-stdin", SYS_dup3, Id, Unit, || unit(u::dup2(STDIN, STDIN))),
        e!("unistd::dup3#eq-nocloexec", SYS_dup3, Id, Unit, || unit(u::dup3(fd_b(), fd_b(), false))),
        e!("unistd::copy_file_range#eq", SYS_copy_file_range, Count, U64, || cnt(u::copy_file_range(fd_a(), 0, fd_a(), 0, 16))),
        e!("unistd::copy_file_range#eq-len0", SYS_copy_file_range, Count, U64, || cnt(u::copy_file_range(fd_a(), 0, fd_a(), 0, 0))),
        e!("unistd::copy_file_range#len0", SYS_copy_file_range, Count, U64, || cnt(u::copy_file_range(fd_a(), 0, fd_b(), 0, 0))),
        e!("unistd::fcntl_dupfd_cloexec#eq", SYS_fcntl, Id, I32, || fdr(u::fcntl_dupfd_cloexec(fd_a(), fd_a()))),
        e!("unistd::rename#eq", SYS_renameat2, Zero, Unit, || unit(u::rename(p1(), p1()))),
        e!("unistd::rename_flags#eq", SYS_renameat2, Zero, Unit, || unit(u::rename_flags(p1(), p1(), RenameFlags::empty()))),
        e!("unistd::rename_at#eq", SYS_renameat2, Zero, Unit, || unit(u::rename_at(fd_a(), p1(), fd_a(), p1()))),
        e!("unistd::rename_at2#eq", SYS_renameat2, Zero, Unit, || unit(u::rename_at2(fd_a(), p1(), fd_a(), p1(), RenameFlags::empty()))),
        e!("unistd::mount#eq", SYS_mount, Zero, Unit, || unit(u::mount(p1(), p1(), FilesystemType::TMPFS, Mountflags::MS_RDONLY, None))),
        e!("unistd::mount#eq-data", SYS_mount, Zero, Unit, || unit(u::mount(p1(), p1(), FilesystemType::TMPFS, Mountflags::MS_RDONLY, Some(p1())))),
        e!("unistd::setpgid#eq", SYS_setpgid, Zero, Unit, || unit(u::setpgid(4321, 4321))),
        e!("select::epoll_ctl#eq", SYS_epoll_ctl, Zero, Unit, || {
            unit(rusl::select::epoll_ctl(fd_a(), EpollOp::Add, fd_a(), &EpollEvent::new(7, EpollEventMask::EPOLLIN)))
        }),
        e!("select::epoll_del#eq", SYS_epoll_ctl, Zero, Unit, || unit(rusl::select::epoll_del(fd_a(), fd_a()))),
        e!("io_uring::io_uring_register_files#eq", SYS_io_uring_register, Zero, Unit, || unit(rusl::io_uring::io_uring_register_files(fd_a(), &[fd_a()]))),
        e!("time::nanosleep#eq-rem", SYS_nanosleep, Zero, Unit, || {
            let mut ts = TimeSpec::new(0, 1);
            let p = &mut ts as *mut TimeSpec;
            unit(rusl::time::nanosleep(unsafe { &*p }, Some(p)))
        }),
        // ---- ARGUMENT SHAPES: zero-length buffers / empty vectors / zero counts
        e!("unistd::read#len0", SYS_read, Count, U64, || cnt(u::read(fd_a(), &mut []))),
        e!("unistd::write#len0", SYS_write, Count, U64, || cnt(u::write(fd_a(), &[]))),
        e!("unistd::readv#len0", SYS_readv, Count, U64, || cnt(u::readv(fd_a(), &mut []))),
        e!("unistd::writev#len0", SYS_writev, Count, U64, || cnt(u::writev(fd_a(), &[]))),
        e!("unistd::get_dents#len0", SYS_getdents64, Count, U64, || cnt(u::get_dents(fd_a(), &mut []))),
        e!("select::epoll_wait#len0", SYS_epoll_pwait, Count, U64, || cnt(rusl::select::epoll_wait(fd_a(), &mut [], 0))),
        e!("select::ppoll#len0", SYS_ppoll, Count, U64, || cnt(rusl::select::ppoll(&mut [], None, None))),
        e!("network::sendmsg#len0", SYS_sendmsg, Count, U64, || {
            let g = MsgHdrBorrow::create_send(None, &[], None);
            cnt(rusl::network::sendmsg(fd_a(), &g, 0))
        }),
        e!("network::recvmsg#len0", SYS_recvmsg, Count, U64, || {
            let mut h = MsgHdrBorrow::create_recv(&mut [], None);
            cnt(rusl::network::recvmsg(fd_a(), &mut h, 0))
        }),
        e!("network::listen#len0", SYS_listen, Zero, Unit, || unit(rusl::network::listen(fd_a(), NonNegativeI32::ZERO))),
        e!("futex::futex_wake#len0", SYS_futex, Count, U64, || {
            let a = AtomicU32::new(0);
            cnt(rusl::futex::futex_wake(&a, 0))
        }),
        e!("io_uring::io_uring_enter#len0", SYS_io_uring_enter, Count, U64, || cnt(rusl::io_uring::io_uring_enter(fd_a(), 0, 0, IoUringEnterFlags::empty()))),
        e!("io_uring::io_uring_register_files#len0", SYS_io_uring_register, Zero, Unit, || unit(rusl::io_uring::io_uring_register_files(fd_a(), &[]))),
        e!("io_uring::io_uring_register_io_slices#len0", SYS_io_uring_register, Zero, Unit, || unit(rusl::io_uring::io_uring_register_io_slices(fd_a(), &[]))),
        e!("io_uring::io_uring_register_buffers#len0", SYS_io_uring_register, Zero, Unit, || {
            unit(unsafe { rusl::io_uring::io_uring_register_buffers(fd_a(), &[]) })
        }),
        e!("usb::bulk_transfer#len0", SYS_ioctl, Count, U64, || cnt(rusl::usb::bulk_transfer(fd_a(), 1, &mut [], 10))),
    ];
    // one generated entry per (scalar parameter, special value of its type)
    let mut all = Vec::with_capacity(base.len() * 4);
    for e in base {
        let plain = !e.name.contains('#');
        let name = e.name;
        all.push(e.clone());
        if !plain {
            continue;
        }
        let Some(ps) = SCANNED_PARAMS.iter().find(|s| scanned_key(s.0, s.1) == name) else { continue };
        for (pname, pty) in ps.2 {
            for label in labels_for(pty).unwrap_or(L_NONE) {
                let mut v = e.clone();
                v.name = Box::leak(format!("{name}#{pname}={label}").into_boxed_str());
                v.sel = Some((pname, label));
                all.push(v);
            }
        }
    }
    all
}

/// Scanned functions that deliberately have no invocation entry.
const EXCLUDED: &[(&str, &str)] = &[
    (
        "process::exit",
        "never returns: the wrapper ends in unreachable_unchecked(), so a suppressed exit(2) would be undefined behaviour; it has no result to decode",
    ),
    (
        "io_uring::setup_io_uring",
        "composite, not a raw wrapper: io_uring_setup + 2-3 mmap calls + reads of the mapped rings; each constituent wrapper has its own entry (unistd::mmap, io_uring::io_uring_setup)",
    ),
];

// ---------------------------------------------------------------------------
// the forced-value plan

/// what the judge needs to know about the wrapper under test (table entry or ladder entry)
struct Spec {
    name: &'static str,
    nr: i64,
    ty: Ty,
    infallible: bool,
    fill: Option<fn(&[u64; 6])>,
    /// the "effective arguments" of an issue: the registers, or values read through them
    /// (msghdr / usbdevfs_bulktransfer fields).  None: the six registers.
    probe: Option<fn(&[u64; 6]) -> Vec<u64>>,
    /// argument-size ladder case: the size
    size: Option<usize>,
}

struct Force<'a> {
    /// answer to the i-th issue; the last one is repeated
    script: &'a [i64],
    fill: Option<fn(&[u64; 6])>,
    probe: Option<fn(&[u64; 6]) -> Vec<u64>>,
    /// effective arguments of the first two issues
    seen: Vec<Vec<u64>>,
    first_nr: i64,
    /// the number of every issue (first 64)
    nrs: Vec<i64>,
    /// issues from this index on get terminating answers
    horizon: usize,
    /// the wrapper went past the horizon and was given terminating answers
    over: bool,
    case: &'a str,
}

fn is_err(v: i64) -> bool {
    (-4095..=-1).contains(&v)
}

impl Plan for Force<'_> {
    fn decide(&mut self, idx: usize, nr: i64, args: &[u64; 6]) -> Decision {
        if idx == 0 {
            self.first_nr = nr;
        }
        if idx < 64 {
            self.nrs.push(nr);
        }
        if idx < 2 {
            self.seen.push(match self.probe {
                Some(p) => p(args),
                None => args.to_vec(),
            });
        }
        let mut v = if idx < self.script.len() { self.script[idx] } else { *self.script.last().unwrap() };
        if idx >= self.horizon {
            self.over = true;
            // terminating answers: plain success first, then a plain error
            v = if idx < self.horizon + HORIZON { 0 } else { -22 };
            if idx >= self.horizon + 3 * HORIZON {
                // still spinning whatever the answer: die, attributed to the case
                set_case(&self.case.replacen("\",", ":livelock\",", 1));
                unsafe { libc::abort() };
            }
        }
        if !is_err(v) {
            if let Some(f) = self.fill {
                f(args);
            }
        }
        Decision::Force(v)
    }
}

/// run-length form: `-16x128,0`
fn show_script(s: &[i64]) -> String {
    let mut out: Vec<String> = Vec::new();
    let mut i = 0;
    while i < s.len() {
        let mut j = i;
        while j < s.len() && s[j] == s[i] {
            j += 1;
        }
        out.push(if j - i > 1 { format!("{}x{}", s[i], j - i) } else { s[i].to_string() });
        i = j;
    }
    out.join(",")
}
fn parse_script(s: &str) -> Vec<i64> {
    let mut v = Vec::new();
    for part in s.split(',') {
        let part = part.trim();
        let (val, rep) = match part.split_once('x') {
            Some((a, b)) => (a, b.parse::<usize>().unwrap_or(1)),
            None => (part, 1),
        };
        if let Ok(x) = val.parse::<i64>() {
            v.extend(std::iter::repeat(x).take(rep.min(1 << 20)));
        }
    }
    v
}

fn carries(ty: Ty, v: i64) -> Option<i128> {
    match ty {
        Ty::Unit => None,
        Ty::I32 => (i32::MIN as i64 <= v && v <= i32::MAX as i64).then_some(v as i128),
        Ty::U32 => (0 <= v && v <= u32::MAX as i64).then_some(v as i128),
        Ty::I64 => Some(v as i128),
        Ty::U64 => Some(v as u64 as i128),
    }
}

/// is `got` the decoding of the kernel answer `a`?
fn decodes(ty: Ty, a: i64, got: Got) -> bool {
    match (is_err(a), got) {
        (true, Got::Err(Some(c))) => c as i64 == -a,
        (false, Got::Ok(x)) => match (carries(ty, a), x) {
            (Some(w), Some(h)) => w == h,
            _ => true,
        },
        _ => false,
    }
}

fn may_retry_ebusy(name: &str) -> bool {
    matches!(base_name(name), "unistd::dup2" | "unistd::dup3")
}

fn spec_of(e: &Entry) -> Spec {
    Spec { name: e.name, nr: e.nr, ty: e.ty, infallible: e.infallible, fill: e.fill, probe: None, size: None }
}

/// One case of a table entry: the wrapper invoked once, its call(s) answered by `script`.
fn one_case(e: &Entry, script: &[i64], r: &mut Report, verbose: bool) {
    let call = e.call;
    let horizon = if script.len() > 1 { script.len() + 7 } else { HORIZON };
    SEL.with(|s| s.set(e.sel));
    judge(&spec_of(e), script, horizon, &|| (call(), Vec::new()), r, verbose);
    SEL.with(|s| s.set(None));
}

/// Runs the invocation under the forced-value plan and applies the oracle.
/// `call` returns the wrapper's result and the effective arguments the kernel must have been given
/// (None = position not checked; empty = nothing checked).
fn judge(sp: &Spec, script: &[i64], horizon: usize, call: &dyn Fn() -> (Got, Vec<Option<u64>>), r: &mut Report, verbose: bool) {
    r.eval();
    r.nontrivial_unique();
    let vs = show_script(script);
    let case_s = match sp.size {
        Some(n) => format!("{{\"op\":\"{}\",\"n\":{n},\"v\":\"{vs}\"}}", sp.name),
        None => format!("{{\"op\":\"{}\",\"v\":\"{vs}\"}}", sp.name),
    };
    set_case(&case_s);
    let mut plan = Force { script, fill: sp.fill, probe: sp.probe, seen: Vec::new(), first_nr: -1, nrs: Vec::new(), horizon, over: false, case: &case_s };
    let res = catch(|| sysx::run(&mut plan, call));
    clear_case();
    let case = || serde_json::from_str::<Value>(&case_s).unwrap_or(Value::Null);
    let key = |k: &str| format!("C09:{}:{k}", base_name(sp.name));
    let at = match sp.size {
        Some(n) => format!("{} (size {n})", sp.name),
        None => sp.name.to_string(),
    };
    let ((got, want_args), calls): ((Got, Vec<Option<u64>>), Vec<i64>) = match res {
        Err(p) => {
            r.outcome("VIOLATION/panic");
            r.violation(&key("panic"), format!("{at} panicked when the kernel result was forced to {vs}: {p}"), case());
            return;
        }
        Ok((g, log)) => (g, log.iter().map(|c| c.ret).collect()),
    };
    if verbose {
        println!("{at}: answers [{vs}] -> {got:?}; issued {} call(s), answers given [{}]", calls.len(), show_script(&calls));
    }
    // --- the call the wrapper is named for, and no other
    if let Some(pos) = plan.nrs.iter().position(|&x| x != sp.nr) {
        let names: Vec<&str> = plan.nrs.iter().map(|&x| sysx::name(x)).collect();
        r.outcome("VIOLATION/unexpected-syscall");
        r.violation(
            &key("unexpected-syscall"),
            format!(
                "{at}: issue #{pos} was system call {} (nr {}), but this wrapper must issue exactly one {} (nr {}); issues: {names:?}, answers given [{}], result {got:?}",
                sysx::name(plan.nrs[pos]),
                plan.nrs[pos],
                sysx::name(sp.nr),
                sp.nr,
                show_script(&calls)
            ),
            case(),
        );
    }
    let _ = plan.first_nr;
    // --- how often the call was issued
    let n = calls.len();
    let retry_ok = may_retry_ebusy(sp.name) && n >= 1 && calls[..n - 1].iter().all(|&a| a == -EBUSY);
    let mut count_ok = true;
    if n != 1 && !retry_ok {
        count_ok = false;
        let v_last_scripted = *script.last().unwrap();
        if sp.size.is_none() && plan.over && !is_err(v_last_scripted) && calls[..horizon.min(n)].iter().all(|&a| a == v_last_scripted) {
            r.outcome("VIOLATION/retries-on-success-value");
            r.violation(
                &key("retries-on-success-value"),
                format!(
                    "{at} keeps re-issuing its system call as long as the kernel returns the success value {v_last_scripted}: {n} issues (answers [{}]; only ended by the harness answering differently after {horizon})",
                    show_script(&calls)
                ),
                case(),
            );
        } else {
            r.outcome("VIOLATION/issued-N-times");
            r.violation(
                &key("issued-N-times"),
                format!("{at} issued its system call {n} times in one invocation (answers [{}]); exactly one is allowed", show_script(&calls)),
                case(),
            );
        }
    }
    // --- the arguments the kernel was given (ladder cases)
    if !want_args.is_empty() {
        let have = plan.seen.first().cloned().unwrap_or_default();
        let bad: Vec<usize> = want_args.iter().enumerate().filter(|(i, w)| w.is_some_and(|w| have.get(*i) != Some(&w))).map(|x| x.0).collect();
        if !bad.is_empty() {
            r.outcome("VIOLATION/arguments-changed");
            r.violation(
                &key("arguments-changed"),
                format!("{at}: the first issue was given effective arguments {have:x?}, expected {want_args:x?} (positions {bad:?} differ from the caller's pointer/length)"),
                case(),
            );
        }
    }
    if script.len() > 1 && count_ok {
        // dup2/dup3 under -EBUSY×k then w: giving up at an EBUSY and repeating are both allowed
        r.outcome(if n == 1 {
            "ebusy-script/gave-up-at-first-EBUSY"
        } else if n < script.len() {
            "ebusy-script/gave-up-at-a-later-EBUSY"
        } else {
            "ebusy-script/repeated-until-other-answer"
        });
    }
    // --- decoding: the result is decided by the answer the wrapper saw last
    let v = calls.last().copied().unwrap_or(script[0]);
    if n > 1 && !decodes(sp.ty, v, got) && !(is_err(v) && matches!(got, Got::Ok(_))) && !calls.iter().any(|&a| decodes(sp.ty, a, got)) {
        r.outcome("VIOLATION/result-matches-no-kernel-answer");
        r.violation(
            &key("result-matches-no-kernel-answer"),
            format!("{at}: returned {got:?}, which is the decoding of none of the {n} kernel answers given [{}]", show_script(&calls)),
            case(),
        );
        return;
    }
    match (is_err(v), got) {
        (true, Got::Err(Some(c))) if c as i64 == -v => r.outcome("err/errno-exact"),
        (true, Got::Err(c)) => {
            r.outcome("VIOLATION/wrong-errno");
            r.violation(&key("wrong-errno"), format!("{at}: kernel result {v} must give Err with errno {}, got errno {c:?}", -v), case());
        }
        (true, Got::Ok(x)) => {
            r.outcome("VIOLATION/error-reported-as-success");
            let why = if sp.infallible { " — the signature has no error channel, the kernel's error is dropped" } else { "" };
            r.violation(
                &key("error-reported-as-success"),
                format!("{at}: the last kernel result was {v} (errno {}) after answers [{}], but the wrapper reported Ok({x:?}){why}", -v, show_script(&calls)),
                case(),
            );
        }
        (false, Got::Err(c)) => {
            r.outcome("VIOLATION/success-reported-as-error");
            r.violation(
                &key("success-reported-as-error"),
                format!("{at}: kernel result {v} ({:#x}) is outside [-4095,-1] but was reported as Err(errno {c:?})", v as u64),
                case(),
            );
        }
        (false, Got::Ok(x)) => match (carries(sp.ty, v), x) {
            (Some(want), Some(have)) if want != have => {
                r.outcome("VIOLATION/value-changed");
                r.violation(&key("value-changed"), format!("{at}: kernel result {v} ({:#x}) came back as Ok({have}) ({:?})", v as u64, sp.ty), case());
            }
            (Some(_), Some(_)) => {
                if !count_ok {
                } else if sp.size.is_some() {
                    r.outcome("ladder/ok-value-preserved")
                } else if (-4096 - 65536..=-4096).contains(&v) {
                    r.outcome("ok/boundary-below-errno-range-preserved")
                } else if sp.infallible {
                    r.outcome("ok/infallible-value-preserved")
                } else if v >= 0 && v <= 4095 {
                    r.outcome("ok/errno-sized-value-preserved")
                } else {
                    r.outcome("ok/large-value-preserved")
                }
            }
            (Some(_), None) => {
                r.cap(format!("harness: {} is typed {:?} but its invocation returns no number", sp.name, sp.ty));
                r.note("machinery-failure");
            }
            (None, _) => {
                if !count_ok {
                } else if n > 1 {
                    r.outcome("ok/after-EBUSY-retries")
                } else if sp.size.is_some() {
                    r.outcome("ladder/ok-unit")
                } else if sp.ty == Ty::Unit {
                    r.outcome(if v == 0 { "ok/unit-zero" } else { "ok/unit-nonzero-success" })
                } else {
                    r.outcome("success-value-truncated-by-result-type")
                }
            }
        },
    }
}

// ---------------------------------------------------------------------------
// argument-size ladder: wrappers that take a slice / count / length

struct Ladder {
    name: &'static str,
    nr: i64,
    ty: Ty,
    /// smallest admissible size (NonZeroUsize lengths: 1)
    min: usize,
    /// the invocation with size n: (result, expected effective arguments)
    call: fn(usize) -> (Got, Vec<Option<u64>>),
    probe: Option<fn(&[u64; 6]) -> Vec<u64>>,
}

/// struct msghdr through args[1]: [iov pointer, iov count, control pointer, control length]
fn probe_msghdr(a: &[u64; 6]) -> Vec<u64> {
    unsafe {
        let p = a[1] as *const u8;
        let rd = |off: usize| (p.add(off) as *const u64).read_unaligned();
        vec![rd(16), rd(24), rd(32), rd(40)]
    }
}
/// struct usbdevfs_bulktransfer through args[2]: [len, data pointer]
fn probe_bulk(a: &[u64; 6]) -> Vec<u64> {
    unsafe {
        let p = a[2] as *const u8;
        vec![(p.add(4) as *const u32).read_unaligned() as u64, (p.add(16) as *const u64).read_unaligned()]
    }
}

fn iov_mut(n: usize, b: &mut [u8; 8]) -> Vec<IoSliceMut<'static>> {
    let p = b.as_mut_ptr();
    (0..n).map(|_| IoSliceMut::new(unsafe { std::slice::from_raw_parts_mut(p, 8) })).collect()
}
fn iov(n: usize) -> Vec<IoSlice<'static>> {
    (0..n).map(|_| IoSlice::new(b"x")).collect()
}

macro_rules! l {
    ($name:expr, $nr:ident, $ty:ident, $min:expr, $call:expr) => {
        Ladder { name: $name, nr: libc::$nr, ty: Ty::$ty, min: $min, call: $call, probe: None }
    };
    ($name:expr, $nr:ident, $ty:ident, $min:expr, $call:expr, probe $p:expr) => {
        Ladder { name: $name, nr: libc::$nr, ty: Ty::$ty, min: $min, call: $call, probe: Some($p) }
    };
}

fn ladder() -> Vec<Ladder> {
    use rusl::unistd as u;
    const S: fn(u64) -> Option<u64> = Some;
    vec![
        l!("unistd::read", SYS_read, U64, 0, |n| {
            let mut b = vec![0u8; n];
            let p = b.as_mut_ptr() as u64;
            (cnt(u::read(fd_a(), &mut b)), vec![None, S(p), S(n as u64)])
        }),
        l!("unistd::write", SYS_write, U64, 0, |n| {
            let b = vec![0u8; n];
            let p = b.as_ptr() as u64;
            (cnt(u::write(fd_a(), &b)), vec![None, S(p), S(n as u64)])
        }),
        l!("unistd::readv", SYS_readv, U64, 0, |n| {
            let mut b = [0u8; 8];
            let mut io = iov_mut(n, &mut b);
            let p = io.as_mut_ptr() as u64;
            (cnt(u::readv(fd_a(), &mut io)), vec![None, S(p), S(n as u64)])
        }),
        l!("unistd::writev", SYS_writev, U64, 0, |n| {
            let io = iov(n);
            let p = io.as_ptr() as u64;
            (cnt(u::writev(fd_a(), &io)), vec![None, S(p), S(n as u64)])
        }),
        l!("unistd::get_dents", SYS_getdents64, U64, 0, |n| {
            let mut b = vec![0u8; n];
            let p = b.as_mut_ptr() as u64;
            (cnt(u::get_dents(fd_a(), &mut b)), vec![None, S(p), S(n as u64)])
        }),
        l!("unistd::copy_file_range", SYS_copy_file_range, U64, 0, |n| {
            (cnt(u::copy_file_range(fd_a(), 0, fd_b(), 0, n)), vec![None, None, None, None, S(n as u64)])
        }),
        l!("unistd::mmap", SYS_mmap, U64, 1, |n| {
            let r = unsafe {
                u::mmap(None, NonZeroUsize::new(n).unwrap(), MemoryProtection::PROT_READ, MapRequiredFlag::MapPrivate, MapAdditionalFlags::MAP_ANONYMOUS, None, 0)
            };
            (cnt(r), vec![S(0), S(n as u64)])
        }),
        l!("unistd::munmap", SYS_munmap, Unit, 1, |n| {
            (unit(unsafe { u::munmap(0x7000_0000_0000, NonZeroUsize::new(n).unwrap()) }), vec![S(0x7000_0000_0000), S(n as u64)])
        }),
        l!("select::ppoll", SYS_ppoll, U64, 0, |n| {
            let mut pf = vec![PollFd::new(fd_a(), PollEvents::POLLIN); n];
            let p = pf.as_mut_ptr() as u64;
            (cnt(rusl::select::ppoll(&mut pf, None, None)), vec![S(p), S(n as u64), S(0), S(0)])
        }),
        l!("select::epoll_wait", SYS_epoll_pwait, U64, 0, |n| {
            let mut ev = vec![EpollEvent::new(0, EpollEventMask::empty()); n];
            let p = ev.as_mut_ptr() as u64;
            (cnt(rusl::select::epoll_wait(fd_a(), &mut ev, 0)), vec![None, S(p), S(n as u64)])
        }),
        l!("network::sendmsg#iov", SYS_sendmsg, U64, 0, |n| {
            let io = iov(n);
            let p = io.as_ptr() as u64;
            let g = MsgHdrBorrow::create_send(None, &io, None);
            (cnt(rusl::network::sendmsg(fd_a(), &g, 0)), vec![S(p), S(n as u64), S(0), S(0)])
        }, probe probe_msghdr),
        l!("network::sendmsg#scm-rights-fds", SYS_sendmsg, U64, 0, |n| {
            let io = iov(1);
            let p = io.as_ptr() as u64;
            let fds = vec![fd_b(); n];
            let g = MsgHdrBorrow::create_send(None, &io, Some(ControlMessageSend::ScmRights(&fds)));
            // the control length is computed by rusl (CMSG_SPACE), not passed through: not checked
            (cnt(rusl::network::sendmsg(fd_a(), &g, 0)), vec![S(p), S(1), None, None])
        }, probe probe_msghdr),
        l!("network::recvmsg#iov", SYS_recvmsg, U64, 0, |n| {
            let mut b = [0u8; 8];
            let mut io = iov_mut(n, &mut b);
            let p = io.as_mut_ptr() as u64;
            let mut h = MsgHdrBorrow::create_recv(&mut io, None);
            (cnt(rusl::network::recvmsg(fd_a(), &mut h, 0)), vec![S(p), S(n as u64), S(0), S(0)])
        }, probe probe_msghdr),
        l!("network::recvmsg#control-len", SYS_recvmsg, U64, 0, |n| {
            let mut b = [0u8; 8];
            let mut io = iov_mut(1, &mut b);
            let p = io.as_mut_ptr() as u64;
            let mut ctl = vec![0u8; n];
            let cp = ctl.as_mut_ptr() as u64;
            let mut h = MsgHdrBorrow::create_recv(&mut io, Some(&mut ctl));
            (cnt(rusl::network::recvmsg(fd_a(), &mut h, 0)), vec![S(p), S(1), S(cp), S(n as u64)])
        }, probe probe_msghdr),
        l!("network::listen", SYS_listen, Unit, 0, |n| {
            (unit(rusl::network::listen(fd_a(), NonNegativeI32::try_new(n as i32).unwrap())), vec![None, S(n as u64)])
        }),
        l!("futex::futex_wake", SYS_futex, U64, 0, |n| {
            let a = AtomicU32::new(0);
            (cnt(rusl::futex::futex_wake(&a, n as i32)), vec![S(&a as *const AtomicU32 as u64), None, S(n as u64)])
        }),
        l!("io_uring::io_uring_enter", SYS_io_uring_enter, U64, 0, |n| {
            (cnt(rusl::io_uring::io_uring_enter(fd_a(), n as u32, n as u32, IoUringEnterFlags::IORING_ENTER_GETEVENTS)), vec![None, S(n as u64), S(n as u64)])
        }),
        l!("io_uring::io_uring_register_files", SYS_io_uring_register, Unit, 0, |n| {
            let fds = vec![fd_b(); n];
            let p = fds.as_ptr() as u64;
            (unit(rusl::io_uring::io_uring_register_files(fd_a(), &fds)), vec![None, None, S(p), S(n as u64)])
        }),
        l!("io_uring::io_uring_register_io_slices", SYS_io_uring_register, Unit, 0, |n| {
            let mut b = [0u8; 8];
            let io = iov_mut(n, &mut b);
            let p = io.as_ptr() as u64;
            (unit(rusl::io_uring::io_uring_register_io_slices(fd_a(), &io)), vec![None, None, S(p), S(n as u64)])
        }),
        l!("io_uring::io_uring_register_buffers", SYS_io_uring_register, Unit, 0, |n| {
            let mut b = [0u8; 8];
            let io = iov_mut(n, &mut b);
            let p = io.as_ptr() as u64;
            (unit(unsafe { rusl::io_uring::io_uring_register_buffers(fd_a(), &io) }), vec![None, None, S(p), S(n as u64)])
        }),
        l!("usb::bulk_transfer", SYS_ioctl, U64, 0, |n| {
            let mut b = vec![0u8; n];
            let p = b.as_mut_ptr() as u64;
            (cnt(rusl::usb::bulk_transfer(fd_a(), 1, &mut b, 10)), vec![S(n as u64), S(p)])
        }, probe probe_bulk),
    ]
}

/// scanned functions with a slice parameter that deliberately have no ladder entry
const LADDER_EXCLUDED: &[(&str, &str)] = &[];

fn ladder_sizes(thorough: bool) -> Vec<usize> {
    let mut v: Vec<usize> = if thorough { (0..=2100).collect() } else { vec![0, 1, 2, 1023, 1024, 1025, 2048] };
    v.extend([4095, 4096, 4097, 5000, 65535, 65536, 65537, (1 << 20) - 1, 1 << 20, (1 << 20) + 1].iter().filter(|x| thorough || [4096, 5000, 65536, 1 << 20].contains(*x)));
    v
}
fn ladder_answers(n: usize, ty: Ty) -> Vec<i64> {
    let mut v = vec![0i64, 1];
    for x in [n as i64, -22, -4, -11] {
        if !v.contains(&x) {
            v.push(x);
        }
    }
    if ty != Ty::Unit {
        v.push(i32::MAX as i64);
    }
    v
}
fn ladder_cases(l: &Ladder, thorough: bool) -> Vec<(usize, i64)> {
    let mut c = Vec::new();
    for n in ladder_sizes(thorough) {
        if n >= l.min {
            for a in ladder_answers(n, l.ty) {
                c.push((n, a));
            }
        }
    }
    c
}

fn ladder_case(l: &Ladder, n: usize, script: &[i64], r: &mut Report, verbose: bool) {
    let sp = Spec { name: l.name, nr: l.nr, ty: l.ty, infallible: false, fill: None, probe: l.probe, size: Some(n) };
    let call = l.call;
    judge(&sp, script, HORIZON, &|| call(n), r, verbose);
}

fn run_ladder(l: &Ladder, thorough: bool) -> Report {
    let mut r = Report::new();
    unsafe {
        libc::signal(libc::SIGALRM, on_alarm as extern "C" fn(libc::c_int) as usize);
    }
    for (i, (n, a)) in ladder_cases(l, thorough).into_iter().enumerate() {
        if i % 64 == 0 {
            unsafe { libc::alarm(30) };
        }
        ladder_case(l, n, &[a], &mut r, false);
    }
    unsafe { libc::alarm(0) };
    r.outcome_n("ladder/wrappers", 1);
    r
}

// ---------------------------------------------------------------------------
// the forced value sets

struct Bounds {
    /// every success value 0..=small_max is forced
    small_max: i64,
    /// every value neg_lo..=-4096 (the band just below the errno range) is forced
    neg_lo: i64,
}
fn bounds(thorough: bool) -> Bounds {
    if thorough {
        Bounds { small_max: 1 << 20, neg_lo: -4096 - 65536 }
    } else {
        Bounds { small_max: 65536, neg_lo: -4097 }
    }
}

fn values(e: &Entry, thorough: bool) -> Vec<i64> {
    let b = bounds(thorough);
    // generated sentinel entries: in the quick tier the plain middle range 4097..=65536 is left to the base entry
    let small_max = if e.sel.is_some() && !thorough { 4096 } else { b.small_max };
    let mut v: Vec<i64> = Vec::new();
    let succ = true;
    // simplest first: 0 and the errno-sized successes, then the errors, then the band below the
    // errno range, then the large patterns, then the rest of the small range
    if succ {
        v.extend(0..=4095);
    }
    // (also for the signatures without an error channel: a kernel error must not come back as success)
    v.extend((1..=4095).map(|x: i64| -x));
    if succ {
        v.extend((b.neg_lo..=-4096).rev());
        let mut extra: Vec<i64> = vec![i32::MAX as i64];
        // single-bit patterns and their neighbours
        for k in 12..=30 {
            extra.extend([(1i64 << k) - 1, 1i64 << k]);
        }
        // beyond 31 bits, for EVERY wrapper (an int-typed result cannot carry them: then only Ok-ness and
        // the single issue are judged, outcome success-value-truncated-by-result-type)
        extra.extend([1i64 << 31, 0xFFFF_F000, 0xFFFF_FFFF]);
        for k in 32..=62 {
            extra.extend([(1i64 << k) - 1, 1i64 << k, -(1i64 << k), -(1i64 << k) - 1]);
        }
        extra.extend([
            0x7fff_ffff_f000,
            isize::MAX as i64,
            i64::MIN,
            i64::MIN + 4095,
            i64::MIN + 4096,
            -(1i64 << 31),
            -(1i64 << 31) - 1,
            -65536,
            -8192,
            -4098,
        ]);
        // success values whose LOW HALF is an errno pattern (-k as 32 bits), for every errno k, under
        // several high halves: a wrapper that truncates the register before testing it takes these for errors
        for hi in LOW_HALF_ERRNO_HIGH_HALVES {
            for k in 1..=4095u64 {
                extra.push(((hi << 32) | (0x1_0000_0000 - k)) as i64);
            }
        }
        if e.dom == Dom::Addr {
            extra.extend((1..=256i64).map(|k| k << 12));
            extra.extend(
                [
                    0x5555_5555_4000u64,
                    0x7f12_3456_7000,
                    0x7fff_ffff_e000,
                    0x7fff_ffff_f000,
                    0x8000_0000_0000,
                    0xffff_8000_0000_0000,
                    0xffff_ffff_8000_0000,
                    0xffff_ffff_ffff_0000,
                    0xffff_ffff_ffff_e000,
                    0xffff_ffff_ffff_f000,
                ]
                .map(|x| x as i64),
            );
        }
        let mut seen = std::collections::HashSet::new();
        for x in extra {
            let in_ranges = (0..=small_max).contains(&x) || (b.neg_lo..=-1).contains(&x);
            if !in_ranges && seen.insert(x) {
                v.push(x);
            }
        }
        v.extend(4096..=small_max);
    }
    v
}

/// high halves under which every low-half errno pattern 0xffff_ffff-k+1 (k = 1..=4095) is forced
const LOW_HALF_ERRNO_HIGH_HALVES: [u64; 5] = [0, 1, 0x7fff_ffff, 0x8000_0000, 0xffff_fffe];

/// dup2/dup3 only: `-EBUSY` k times, then a final answer (horizon k + 8 issues)
const EBUSY_KS: &[usize] = &[1, 2, 3, 7, 8, 9, 15, 16, 17, 63, 64, 65, 127, 128, 129, 255, 256, 257, 1000, 4096];
const EBUSY_FINALS: &[i64] = &[0, 5, 16, -9, -24];
fn ebusy_scripts() -> Vec<Vec<i64>> {
    let mut s = Vec::new();
    for &k in EBUSY_KS {
        for &w in EBUSY_FINALS {
            let mut x = vec![-EBUSY; k];
            x.push(w);
            s.push(x);
        }
    }
    s
}

extern "C" fn on_alarm(_: libc::c_int) {
    // a wrapper that spins without issuing calls: die attributed to the current case
    unsafe { libc::abort() };
}

fn run_wrapper(e: &Entry, thorough: bool) -> Report {
    let mut r = Report::new();
    unsafe {
        libc::signal(libc::SIGALRM, on_alarm as extern "C" fn(libc::c_int) as usize);
    }
    let vals = values(e, thorough);
    for (i, &v) in vals.iter().enumerate() {
        if i % 512 == 0 {
            unsafe { libc::alarm(20) };
        }
        one_case(e, &[v], &mut r, false);
        if i == 0 {
            if let Some((p, l)) = e.sel {
                // the invocation must really have fetched parameter `p` through `pick` and known the label
                if !SEL_USED.with(|u| u.get()) || SEL_BAD.with(|b| b.get()) {
                    r.cap(format!("harness: entry {} does not implement the special value {l} of parameter {p}", e.name));
                    r.note("machinery-failure");
                }
            }
        }
    }
    if may_retry_ebusy(e.name) {
        unsafe { libc::alarm(60) };
        for s in ebusy_scripts() {
            one_case(e, &s, &mut r, false);
        }
    }
    unsafe { libc::alarm(0) };
    r.outcome_n(&format!("wrappers/{:?}-{:?}", e.dom, e.ty), 1);
    r
}

// ---------------------------------------------------------------------------

fn scanned_key(m: &str, f: &str) -> String {
    format!("{}::{f}", m.split("::").next().unwrap_or(m))
}

/// Every scanned function must be covered or excluded; returns (covered, excluded, missing).
fn completeness(tab: &[Entry]) -> (Vec<String>, Vec<String>, Vec<String>, Vec<String>) {
    let covered: std::collections::BTreeSet<&str> = tab.iter().map(|e| base_name(e.name)).collect();
    let mut cov = Vec::new();
    let mut exc = Vec::new();
    let mut missing = Vec::new();
    let mut ambiguous = Vec::new();
    let mut keys = std::collections::BTreeMap::<String, usize>::new();
    for (m, f, _, _, _) in SCANNED {
        *keys.entry(scanned_key(m, f)).or_insert(0) += 1;
    }
    for (k, n) in &keys {
        if *n > 1 {
            ambiguous.push(k.clone());
        }
        if covered.contains(k.as_str()) {
            cov.push(k.clone());
        } else if EXCLUDED.iter().any(|x| x.0 == k) {
            exc.push(k.clone());
        } else {
            missing.push(k.clone());
        }
    }
    (cov, exc, missing, ambiguous)
}

fn c09(args: &Args) -> Report {
    let tab = table();
    let (cov, exc, missing, ambiguous) = completeness(&tab);
    let n_entries = tab.len();
    let table_names: Vec<&'static str> = tab.iter().map(|e| e.name).collect();
    let tab_sel_count = tab.iter().filter(|e| e.sel.is_some()).count();
    let mut items = Vec::new();
    let thorough = args.thorough;
    let mut n_cases = 0usize;
    for e in tab {
        n_cases += values(&e, thorough).len() + if may_retry_ebusy(e.name) { ebusy_scripts().len() } else { 0 };
        items.push(isolated(e.name, move || run_wrapper(&e, thorough)));
    }
    let lad = ladder();
    let n_ladder = lad.len();
    let lad_names: std::collections::BTreeSet<&str> = lad.iter().map(|l| base_name(l.name)).collect();
    let slice_missing: Vec<String> = SCANNED
        .iter()
        .filter(|s| s.3)
        .map(|s| scanned_key(s.0, s.1))
        .filter(|k| !lad_names.contains(k.as_str()) && !LADDER_EXCLUDED.iter().any(|x| x.0 == k) && !EXCLUDED.iter().any(|x| x.0 == k))
        .collect();
    // argument shapes: a `#eq…` entry for every wrapper with two descriptor / two path parameters,
    // a `#len0…` entry for every wrapper with a slice parameter
    let has_variant = |k: &str, tag: &str| table_names.iter().any(|n| base_name(n) == k && n[base_name(n).len()..].starts_with(tag));
    let shape_missing: Vec<String> = SCANNED
        .iter()
        .flat_map(|s| {
            let k = scanned_key(s.0, s.1);
            let mut m = Vec::new();
            if EXCLUDED.iter().any(|x| x.0 == k) {
                return m;
            }
            if s.4 && !has_variant(&k, "#eq") {
                m.push(format!("{k} (#eq)"));
            }
            if s.3 && !has_variant(&k, "#len0") {
                m.push(format!("{k} (#len0)"));
            }
            m
        })
        .collect();
    // sentinel dimension: every scalar parameter of every covered wrapper × every special value of its type
    let mut sentinel_missing: Vec<String> = Vec::new();
    let mut unknown_types: Vec<String> = Vec::new();
    let mut n_sentinel_params = 0usize;
    for (m, f, ps) in SCANNED_PARAMS {
        let k = scanned_key(m, f);
        if EXCLUDED.iter().any(|x| x.0 == k) {
            continue;
        }
        for (pn, pt) in *ps {
            match labels_for(pt) {
                None => unknown_types.push(format!("{k}({pn}: {pt})")),
                Some(ls) => {
                    if !ls.is_empty() {
                        n_sentinel_params += 1;
                    }
                    for l in ls {
                        let want = format!("{k}#{pn}={l}");
                        if !table_names.iter().any(|n| *n == want) {
                            sentinel_missing.push(want);
                        }
                    }
                }
            }
        }
    }
    let n_sentinel_entries = tab_sel_count;
    let n_shape_entries = table_names.iter().filter(|n| n.contains("#eq") || n.contains("#len0")).count();
    let mut n_ladder_cases = 0usize;
    for l in lad {
        n_ladder_cases += ladder_cases(&l, thorough).len();
        items.push(isolated(format!("ladder:{}", l.name), move || run_ladder(&l, thorough)));
    }
    n_cases += n_ladder_cases;
    // rotate the start order by the seed (no effect on the set of cases)
    if !items.is_empty() {
        let k = (args.seed as usize) % items.len();
        items.rotate_left(k);
    }
    let mut r = run_isolated(items, &args.out, "C09");
    for m in &missing {
        r.cap(format!("wrapper {m} not covered (found by the source scan, neither in the invocation table nor in EXCLUDED)"));
    }
    for a in &ambiguous {
        r.cap(format!("wrapper name {a} is ambiguous in the source scan (two files define it)"));
    }
    for m in &slice_missing {
        r.cap(format!("wrapper {m} takes a slice but has no argument-size ladder entry (and is not in LADDER_EXCLUDED)"));
    }
    for m in &shape_missing {
        r.cap(format!("wrapper {m}: the source scan says it takes two descriptors/paths (#eq) or a slice (#len0) but the table has no such argument-shape entry"));
    }
    for m in &sentinel_missing {
        r.cap(format!("sentinel entry {m} is missing (scalar parameter found by the signature scan, special value not run)"));
    }
    for t in &unknown_types {
        r.cap(format!("parameter {t}: type not classified in labels_for() — decide its special values (or that it has none)"));
    }
    if !missing.is_empty() || !ambiguous.is_empty() || !slice_missing.is_empty() || !shape_missing.is_empty() || !sentinel_missing.is_empty() || !unknown_types.is_empty() {
        r.note("machinery-failure");
    }
    if SCANNED.len() < 60 {
        r.cap(format!("source scan of {SCANNED_SRC} found only {} wrappers: scanner broken?", SCANNED.len()));
        r.note("machinery-failure");
    }
    if r.evaluations != n_cases as u64 && r.violations.keys().all(|k| !k.ends_with(":crash")) {
        r.cap(format!("{} cases planned, {} evaluated", n_cases, r.evaluations));
    }
    let bd = bounds(thorough);
    r.rule = format!(
        "for each of {n_entries} invocation entries ({} scanned exported rusl functions that issue a system call, {} excluded with a reason): the real wrapper is called once with harmless arguments, \
         its system call is suppressed and the raw result forced to v, for EVERY v in: 0..={} ; every error -1..=-4095 (also for get_pid / clock_get_real_time / clock_get_monotonic_time, whose signatures have no error channel, and every non-error class also for execve); the band just below the errno range {}..=-4096; i32::MAX; \
         2^k-1 and 2^k for k=12..=30; 2^31, 0xFFFFF000, u32::MAX, 2^k-1, 2^k, -2^k, -2^k-1 for k=32..=62, 0x7fff_ffff_f000, isize::MAX, i64::MIN(+4095,+4096), -2^31(-1), -65536, -8192, -4098; \
         every success value whose LOW 32 bits are an errno pattern (2^32-k for every k=1..=4095) under the high halves 0, 1, 0x7fffffff, 0x80000000, 0xfffffffe (a value an int-typed result cannot carry is judged for Ok-ness and the single issue only: outcome success-value-truncated-by-result-type); \
         page-aligned addresses k<<12 (k=1..=256) and ten high addresses up to 0xffff_ffff_ffff_f000 (mmap). \
         dup2/dup3 additionally -EBUSY×k for k in {:?} followed by each of {:?} (horizon k+8 issues; the result must be the decoding of the last answer given — giving up at an EBUSY with Err(EBUSY) is accepted). \
         ARGUMENT SHAPES: {n_shape_entries} of the entries repeat the full sweep with EQUAL arguments (#eq: old == new descriptor, same path twice, src fd == dst fd, epoll fd == watched fd, rem == req) for every scanned wrapper \
         with two descriptor or two path parameters (+ setpgid, nanosleep), and with ZERO-LENGTH buffers / empty vectors / zero counts (#len0) for every scanned wrapper with a slice parameter (+ sendmsg, recvmsg, listen, futex_wake, io_uring_enter, copy_file_range). \
         Every issue of every case must be the system call the entry names (else unexpected-syscall). \
         SENTINELS: {n_sentinel_entries} generated entries `<wrapper>#<param>=<label>` repeat the sweep (quick tier: without the plain middle range 4097..=65536, everything else included) with ONE scalar parameter ({n_sentinel_params} parameters, taken from the signature scan in build.rs) set to each special value of its type: \
         i32/PidT/OffT {{-1,0,MAX,MIN}}, u32/u64/usize/UidT/GidT {{0,1,MAX}}, bool, Fd/NonNegativeI32 {{0,MAX}}, NonZeroUsize {{1,MAX}}, bit-flag types {{empty, all bits}}, Option {{None, Some(0/zero), Some(MAX)}}, every variant of the small enums, \
         ClockId raw -1/MAX, null/non-null argv/envp, TimeSpec zero/max; an unclassified parameter type or an invocation that ignores its selector is a machinery failure. \
         ARGUMENT-SIZE LADDER: {n_ladder} invocations of wrappers taking a slice / count / length (every scanned wrapper with a slice parameter, plus copy_file_range, mmap, munmap, listen, futex_wake, io_uring_enter, sendmsg/recvmsg iov and control sizes), \
         each with every size in {:?} x every answer in {{0, 1, size, -EINVAL, -EINTR, -EAGAIN, i32::MAX (numeric results)}}: one issue, result = decoding of that answer, pointer and count given to the kernel = the caller's. \
         Each (entry, answer script) is generated exactly once; every case is non-trivial (one real wrapper execution through the seam). Oracle: Err ⇔ v∈[-4095,-1] with errno −v; else Ok with v unchanged \
         when the result type represents it; exactly one issue (dup2/dup3: more only after -EBUSY).",
        cov.len(),
        exc.len(),
        bd.small_max,
        bd.neg_lo,
        EBUSY_KS,
        EBUSY_FINALS,
        if thorough { "0..=2100, 4095..=4097, 5000, 65535..=65537, 2^20-1..=2^20+1".to_string() } else { format!("{:?}", ladder_sizes(false)) }
    );
    r.bound("argument_shape_entries", n_shape_entries);
    r.bound("sentinel_entries", n_sentinel_entries);
    r.bound("sentinel_parameters", n_sentinel_params);
    r.bound("ladder_entries", n_ladder);
    r.bound("ladder_cases", n_ladder_cases);
    r.bound("ebusy_run_lengths", json!(EBUSY_KS));
    r.bound("wrappers_scanned", SCANNED.len());
    r.bound("wrappers_scanned_direct_syscall", SCANNED.iter().filter(|s| s.2).count());
    r.bound("wrappers_covered", cov.len());
    r.bound("invocation_entries", n_entries);
    r.bound("wrappers_excluded", json!(EXCLUDED.iter().map(|x| format!("{}: {}", x.0, x.1)).collect::<Vec<_>>()));
    r.bound("scanned_source", SCANNED_SRC);
    r.bound("scanned_files", SCANNED_FILES);
    r.bound("scanned_test_files_skipped", SCANNED_TEST_FILES_SKIPPED);
    r.bound("small_success_values", format!("0..={}", bd.small_max));
    r.bound("band_below_errno_range", format!("{}..=-4096", bd.neg_lo));
    r.bound("error_values", "-4095..=-1 (all)");
    r.bound("retry_horizon", HORIZON);
    r.bound("cases_planned", n_cases);
    r.sample(json!({"op":"unistd::read","v":"-4095","expect":"Err(errno 4095), one issue"}));
    r.sample(json!({"op":"unistd::dup3","v":"16","expect":"Ok(()), one issue"}));
    r.sample(json!({"op":"unistd::mmap","v":"-4096","expect":"Ok(0xffff_ffff_ffff_f000), one issue"}));
    r.sample(json!({"op":"process::execve","v":"-2","expect":"Err(errno 2), one issue"}));
    r.sample(json!({"op":"unistd::open","v":"2147483647","expect":"Ok(fd 2147483647)"}));
    r.sample(json!({"op":"unistd::dup3","v":"-16x128,0","expect":"Err(EBUSY) after giving up at some EBUSY, or 129 issues and Ok; never Ok after only EBUSY answers"}));
    r.sample(json!({"op":"select::epoll_wait#timeout_millis=-1","v":"4","expect":"one EPOLL_PWAIT with timeout -1, Ok(4)"}));
    r.sample(json!({"op":"unistd::dup2#eq","v":"1","expect":"one DUP3 (no other system call), Ok(())"}));
    r.sample(json!({"op":"unistd::writev","n":1025,"v":"1","expect":"one WRITEV with the caller's pointer and count 1025, Ok(1)"}));
    r.sample(json!({"op":"unistd::lseek","v":"9223372036854775807","expect":"Ok(i64::MAX)"}));
    r
}

fn replay(v: &Value, r: &mut Report) {
    let op = v["op"].as_str().unwrap_or("");
    let op = op.strip_suffix(":livelock").unwrap_or(op);
    let script = parse_script(v["v"].as_str().unwrap_or(""));
    if let Some(n) = v.get("n").and_then(|n| n.as_u64()) {
        let lad = ladder();
        let Some(l) = lad.iter().find(|l| l.name == op) else {
            println!("unknown ladder wrapper {op}");
            r.cap(format!("unknown ladder wrapper {op}"));
            return;
        };
        println!("replaying {op} with size {n} and the kernel's answers forced to [{}]", show_script(&script));
        unsafe { libc::alarm(30) };
        ladder_case(l, n as usize, &script, r, true);
        unsafe { libc::alarm(0) };
        for v in r.violations.values() {
            println!("VIOLATED {}: {}", v.key, v.desc);
        }
        if r.violations.is_empty() {
            println!("no violation");
        }
        return;
    }
    let tab = table();
    let Some(e) = tab.iter().find(|e| e.name == op) else {
        println!("unknown wrapper {op}");
        r.cap(format!("unknown wrapper {op}"));
        return;
    };
    if script.is_empty() {
        println!("no forced value in the replay file");
        return;
    }
    println!("replaying {op} with the kernel's answers forced to [{}]", show_script(&script));
    unsafe { libc::alarm(20) };
    one_case(e, &script, r, true);
    unsafe { libc::alarm(0) };
    for v in r.violations.values() {
        println!("VIOLATED {}: {}", v.key, v.desc);
    }
    if r.violations.is_empty() {
        println!("no violation");
    }
}

fn main() {
    let args = parse_args();
    install_panic_hook();
    if args.rest.iter().any(|a| a == "--list") {
        let tab = table();
        let (cov, exc, missing, amb) = completeness(&tab);
        println!("scanned {} ({} direct), covered {}, excluded {}, missing {:?}, ambiguous {:?}", SCANNED.len(), SCANNED.iter().filter(|s| s.2).count(), cov.len(), exc.len(), missing, amb);
        for (m, f, d, sl, pr) in SCANNED {
            println!("  {m} :: {f} {}{}{}", if *d { "" } else { "(indirect)" }, if *sl { " [slice parameter]" } else { "" }, if *pr { " [two descriptors / two paths]" } else { "" });
        }
        return;
    }
    if let Some(p) = &args.replay {
        let v = read_replay(p);
        let mut r = Report::new();
        replay(&v, &mut r);
        println!("{}", serde_json::to_string_pretty(&r.to_json()).unwrap());
        std::process::exit(if r.violations.is_empty() { 0 } else { 1 });
    }
    let phase = args.phase.clone().unwrap_or_else(|| "c09".into());
    let r = match phase.as_str() {
        "c09" => c09(&args),
        _ => panic!("unknown phase"),
    };
    r.write(&args.out);
}
