//! C09 — every raw system-call wrapper of rusl decodes the kernel's return value exactly.
//!
//! Fault enumeration over the syscall seam (`sysx`) in FORCED-VALUE mode on the real
//! wrappers: one invocation per wrapper with harmless arguments; the call is suppressed
//! (`Decision::Force(v)`) and its raw result forced to `v`, for every `v` of a stated
//! finite set (all 4095 error values, all small non-negative values, the boundary values
//! and the large patterns the wrapper's result type can carry).  No sampling.
//!
//! Oracle (exactly the property): `Err` ⇔ `v ∈ [-4095,-1]`, carrying errno `-v`;
//! otherwise `Ok` carrying `v` unchanged where the result type can represent it; exactly one
//! intercepted system call per invocation (dup2/dup3 may repeat after `-EBUSY` only).
//!
//! The wrapper table is checked for completeness against a build-time scan of the rusl
//! sources (`build.rs` → `SCANNED`).

use common::*;
use core::num::NonZeroUsize;
use core::sync::atomic::AtomicU32;
use rusl::platform::*;
use rusl::string::unix_str::UnixStr;
use rusl::unix_lit;
use serde_json::{json, Value};
use sysx::{Decision, Plan};

include!(concat!(env!("OUT_DIR"), "/scanned.rs"));

const EBUSY: i64 = 16;
/// a wrapper that is still re-issuing its call after this many answers is given terminating answers
const HORIZON: usize = 8;

// ---------------------------------------------------------------------------
// what a wrapper invocation produced

#[derive(Debug, Clone, Copy, PartialEq)]
enum Got {
    /// `Ok`, with the numeric part that comes from the return register (None: `()` or a struct)
    Ok(Option<i128>),
    /// `Err`, with its errno code (None: an error without code)
    Err(Option<i32>),
}

/// the type in which the wrapper's `Ok` carries the return register
#[derive(Debug, Clone, Copy, PartialEq)]
enum Ty {
    Unit,
    I32,
    U32,
    I64,
    U64,
}

/// class of the kernel's success values for the call (selects extra forced values)
#[derive(Debug, Clone, Copy, PartialEq)]
enum Dom {
    /// 0 on success
    Zero,
    /// a byte / event / waiter count
    Count,
    /// a descriptor, process id, user id, flag word
    Id,
    /// a mapping address
    Addr,
    /// a file offset
    Off,
    /// the call does not return on success (execve): only error values are forced
    NoReturn,
}

struct Entry {
    /// `<top-level module>::<fn>`; a `#variant` suffix distinguishes several invocations of one fn
    name: &'static str,
    /// the system call the invocation must issue (harness sanity check)
    nr: i64,
    dom: Dom,
    ty: Ty,
    /// the signature has no error channel (`get_pid() -> PidT`): only success values are forced
    infallible: bool,
    call: fn() -> Got,
    /// what the (suppressed) kernel would have written for a successful call
    fill: Option<fn(&[u64; 6])>,
}

fn base_name(n: &str) -> &str {
    n.split('#').next().unwrap()
}

fn unit<T>(r: rusl::Result<T>) -> Got {
    match r {
        Ok(_) => Got::Ok(None),
        Err(e) => Got::Err(e.code.map(|c| c.raw())),
    }
}
fn num<T: Into<i128>>(r: rusl::Result<T>) -> Got {
    match r {
        Ok(v) => Got::Ok(Some(v.into())),
        Err(e) => Got::Err(e.code.map(|c| c.raw())),
    }
}
fn cnt(r: rusl::Result<usize>) -> Got {
    num(r.map(|v| v as u64))
}
fn fdr(r: rusl::Result<Fd>) -> Got {
    num(r.map(|f| f.value()))
}

// harmless arguments (every call is suppressed anyway)
fn fd_a() -> Fd {
    Fd::try_new(1001).unwrap()
}
fn fd_b() -> Fd {
    Fd::try_new(1002).unwrap()
}
fn p1() -> &'static UnixStr {
    unix_lit!("/tmp/h-sys-does-not-exist-a")
}
fn p2() -> &'static UnixStr {
    unix_lit!("/tmp/h-sys-does-not-exist-b")
}
fn mode() -> Mode {
    Mode::S_IRUSR | Mode::S_IWUSR
}
fn sock_unix() -> SocketArgUnix {
    SocketAddressUnix::try_from_unix(p1()).unwrap()
}
fn sock_inet() -> SocketAddressInet {
    SocketAddressInet::new([127, 0, 0, 1], 0)
}

unsafe fn zero_at(p: u64, n: usize) {
    if p != 0 {
        core::ptr::write_bytes(p as *mut u8, 0, n);
    }
}
fn fill_pipe(a: &[u64; 6]) {
    unsafe {
        let p = a[0] as *mut i32;
        *p = 3;
        *p.add(1) = 4;
    }
}
fn fill_stat(a: &[u64; 6]) {
    unsafe { zero_at(a[2], core::mem::size_of::<Stat>()) }
}
fn fill_uname(a: &[u64; 6]) {
    unsafe { zero_at(a[0], core::mem::size_of::<UtsName>()) }
}
fn fill_termios(a: &[u64; 6]) {
    unsafe { zero_at(a[2], core::mem::size_of::<Termios>()) }
}
fn fill_ts(a: &[u64; 6]) {
    unsafe { zero_at(a[1], core::mem::size_of::<TimeSpec>()) }
}
fn fill_hid(a: &[u64; 6]) {
    // struct hiddev_devinfo: 4×u32, 3×s16 (+2 pad), u32
    unsafe { zero_at(a[2], 28) }
}

macro_rules! e {
    ($name:expr, $nr:ident, $dom:ident, $ty:ident, $call:expr) => {
        Entry { name: $name, nr: libc::$nr, dom: Dom::$dom, ty: Ty::$ty, infallible: false, call: $call, fill: None }
    };
    ($name:expr, $nr:ident, $dom:ident, $ty:ident, $call:expr, fill $fill:expr) => {
        Entry { name: $name, nr: libc::$nr, dom: Dom::$dom, ty: Ty::$ty, infallible: false, call: $call, fill: Some($fill) }
    };
    ($name:expr, $nr:ident, $dom:ident, $ty:ident, $call:expr, infallible $fill:expr) => {
        Entry { name: $name, nr: libc::$nr, dom: Dom::$dom, ty: Ty::$ty, infallible: true, call: $call, fill: $fill }
    };
}

fn table() -> Vec<Entry> {
    use rusl::unistd as u;
    vec![
        // ---- unistd
        e!("unistd::chdir", SYS_chdir, Zero, Unit, || unit(u::chdir(p1()))),
        e!("unistd::close", SYS_close, Zero, Unit, || unit(u::close(fd_a()))),
        e!("unistd::copy_file_range", SYS_copy_file_range, Count, U64, || cnt(u::copy_file_range(fd_a(), 0, fd_b(), 0, 16))),
        e!("unistd::dup2", SYS_dup3, Id, Unit, || unit(u::dup2(fd_a(), fd_b()))),
        e!("unistd::dup3", SYS_dup3, Id, Unit, || unit(u::dup3(fd_a(), fd_b(), true))),
        e!("unistd::fcntl_get_file_status", SYS_fcntl, Id, I32, || num(u::fcntl_get_file_status(fd_a()).map(|f| f.bits().value()))),
        e!("unistd::fcntl_set_file_status", SYS_fcntl, Zero, Unit, || unit(u::fcntl_set_file_status(fd_a(), OpenFlags::O_NONBLOCK))),
        e!("unistd::get_dents", SYS_getdents64, Count, U64, || {
            let mut b = [0u8; 64];
            cnt(u::get_dents(fd_a(), &mut b))
        }),
        e!("unistd::get_uid", SYS_getuid, Id, U32, || num(u::get_uid())),
        e!("unistd::mkdir", SYS_mkdirat, Zero, Unit, || unit(u::mkdir(p1(), mode()))),
        e!("unistd::mkdir_at", SYS_mkdirat, Zero, Unit, || unit(u::mkdir_at(fd_a(), p1(), mode()))),
        e!("unistd::mmap", SYS_mmap, Addr, U64, || {
            cnt(unsafe {
                u::mmap(
                    None,
                    NonZeroUsize::new(4096).unwrap(),
                    MemoryProtection::PROT_READ,
                    MapRequiredFlag::MapPrivate,
                    MapAdditionalFlags::MAP_ANONYMOUS,
                    None,
                    0,
                )
            })
        }),
        e!("unistd::munmap", SYS_munmap, Zero, Unit, || unit(unsafe { u::munmap(0x7000_0000_0000, NonZeroUsize::new(4096).unwrap()) })),
        e!("unistd::mount", SYS_mount, Zero, Unit, || unit(u::mount(p1(), p2(), FilesystemType::TMPFS, Mountflags::MS_RDONLY, None))),
        e!("unistd::mount#data", SYS_mount, Zero, Unit, || {
            unit(u::mount(p1(), p2(), FilesystemType::TMPFS, Mountflags::MS_RDONLY, Some(unix_lit!("size=1m"))))
        }),
        e!("unistd::unmount", SYS_umount2, Zero, Unit, || unit(u::unmount(p1()))),
        e!("unistd::open_raw", SYS_openat, Id, I32, || fdr(unsafe { u::open_raw(p1().as_ptr() as usize, OpenFlags::O_RDONLY) })),
        e!("unistd::open", SYS_openat, Id, I32, || fdr(u::open(p1(), OpenFlags::O_RDONLY))),
        e!("unistd::open_mode", SYS_openat, Id, I32, || fdr(u::open_mode(p1(), OpenFlags::O_RDONLY, mode()))),
        e!("unistd::open_at", SYS_openat, Id, I32, || fdr(u::open_at(fd_a(), p1(), OpenFlags::O_RDONLY))),
        e!("unistd::open_at_mode", SYS_openat, Id, I32, || fdr(u::open_at_mode(fd_a(), p1(), OpenFlags::O_RDONLY, mode()))),
        e!("unistd::pipe", SYS_pipe2, Zero, Unit, || unit(u::pipe()), fill fill_pipe),
        e!("unistd::pipe2", SYS_pipe2, Zero, Unit, || unit(u::pipe2(OpenFlags::O_CLOEXEC)), fill fill_pipe),
        e!("unistd::read", SYS_read, Count, U64, || {
            let mut b = [0u8; 8];
            cnt(u::read(fd_a(), &mut b))
        }),
        e!("unistd::readv", SYS_readv, Count, U64, || {
            let mut b = [0u8; 8];
            let mut io = [IoSliceMut::new(&mut b)];
            cnt(u::readv(fd_a(), &mut io))
        }),
        e!("unistd::rename", SYS_renameat2, Zero, Unit, || unit(u::rename(p1(), p2()))),
        e!("unistd::rename_flags", SYS_renameat2, Zero, Unit, || unit(u::rename_flags(p1(), p2(), RenameFlags::empty()))),
        e!("unistd::rename_at", SYS_renameat2, Zero, Unit, || unit(u::rename_at(fd_a(), p1(), fd_b(), p2()))),
        e!("unistd::rename_at2", SYS_renameat2, Zero, Unit, || unit(u::rename_at2(fd_a(), p1(), fd_b(), p2(), RenameFlags::empty()))),
        e!("unistd::lseek", SYS_lseek, Off, I64, || num(u::lseek(fd_a(), 0, u::Whence::SET))),
        e!("unistd::setgid", SYS_setgid, Zero, Unit, || unit(u::setgid(1000))),
        e!("unistd::setpgid", SYS_setpgid, Zero, Unit, || unit(u::setpgid(0, 0))),
        e!("unistd::setsid", SYS_setsid, Id, Unit, || unit(u::setsid())),
        e!("unistd::setuid", SYS_setuid, Zero, Unit, || unit(u::setuid(1000))),
        e!("unistd::stat", SYS_newfstatat, Zero, Unit, || unit(u::stat(p1())), fill fill_stat),
        e!("unistd::statat", SYS_newfstatat, Zero, Unit, || unit(u::statat(fd_a(), p1())), fill fill_stat),
        e!("unistd::stat_fd", SYS_newfstatat, Zero, Unit, || unit(u::stat_fd(fd_a())), fill fill_stat),
        e!("unistd::swapon", SYS_swapon, Zero, Unit, || unit(u::swapon(p1(), 0))),
        e!("unistd::uname", SYS_uname, Zero, Unit, || unit(u::uname()), fill fill_uname),
        e!("unistd::unlink", SYS_unlinkat, Zero, Unit, || unit(u::unlink(p1()))),
        e!("unistd::unlink_flags", SYS_unlinkat, Zero, Unit, || unit(u::unlink_flags(p1(), u::UnlinkFlags::empty()))),
        e!("unistd::unlink_at", SYS_unlinkat, Zero, Unit, || unit(u::unlink_at(fd_a(), p1(), u::UnlinkFlags::at_removedir()))),
        e!("unistd::rmdir", SYS_unlinkat, Zero, Unit, || unit(u::rmdir(fd_a()))),
        e!("unistd::unshare", SYS_unshare, Zero, Unit, || unit(u::unshare(CloneFlags::CLONE_FS))),
        e!("unistd::write", SYS_write, Count, U64, || cnt(u::write(fd_a(), b"x"))),
        e!("unistd::writev", SYS_writev, Count, U64, || cnt(u::writev(fd_a(), &[IoSlice::new(b"x")]))),
        // ---- network
        e!("network::accept_unix", SYS_accept4, Id, I32, || fdr(rusl::network::accept_unix(fd_a(), SocketFlags::SOCK_CLOEXEC).map(|x| x.0))),
        e!("network::accept_inet", SYS_accept4, Id, I32, || fdr(rusl::network::accept_inet(fd_a(), SocketFlags::SOCK_CLOEXEC).map(|x| x.0))),
        e!("network::bind_unix", SYS_bind, Zero, Unit, || unit(rusl::network::bind_unix(fd_a(), &sock_unix()))),
        e!("network::bind_inet", SYS_bind, Zero, Unit, || unit(rusl::network::bind_inet(fd_a(), &sock_inet()))),
        e!("network::connect_unix", SYS_connect, Zero, Unit, || unit(rusl::network::connect_unix(fd_a(), &sock_unix()))),
        e!("network::connect_inet", SYS_connect, Zero, Unit, || unit(rusl::network::connect_inet(fd_a(), &sock_inet()))),
        e!("network::listen", SYS_listen, Zero, Unit, || unit(rusl::network::listen(fd_a(), NonNegativeI32::try_new(8).unwrap()))),
        e!("network::socket", SYS_socket, Id, I32, || {
            fdr(rusl::network::socket(AddressFamily::AF_UNIX, SocketOptions::new(SocketType::SOCK_STREAM, SocketFlags::SOCK_CLOEXEC), 0))
        }),
        e!("network::get_unix_sock_name", SYS_getsockname, Zero, Unit, || unit(rusl::network::get_unix_sock_name(fd_a()))),
        e!("network::get_inet_sock_name", SYS_getsockname, Zero, Unit, || unit(rusl::network::get_inet_sock_name(fd_a()))),
        e!("network::sendmsg", SYS_sendmsg, Count, U64, || {
            let io = [IoSlice::new(b"x")];
            let g = MsgHdrBorrow::create_send(None, &io, None);
            cnt(rusl::network::sendmsg(fd_a(), &g, 0))
        }),
        e!("network::recvmsg", SYS_recvmsg, Count, U64, || {
            let mut b = [0u8; 8];
            let mut io = [IoSliceMut::new(&mut b)];
            let mut h = MsgHdrBorrow::create_recv(&mut io, None);
            cnt(rusl::network::recvmsg(fd_a(), &mut h, 0))
        }),
        // ---- process
        e!("process::fork", SYS_fork, Id, I32, || num(unsafe { rusl::process::fork() })),
        e!("process::clone", SYS_clone, Id, I32, || num(unsafe { rusl::process::clone(&CloneArgs::new(CloneFlags::empty())) })),
        e!("process::clone3", SYS_clone3, Id, U64, || num(unsafe { rusl::process::clone3(&mut Clone3Args::new(CloneFlags::empty())) })),
        e!("process::execve", SYS_execve, NoReturn, Unit, || unit(unsafe { rusl::process::execve(p1(), core::ptr::null(), core::ptr::null()) })),
        e!("process::get_pid", SYS_getpid, Id, I32, || Got::Ok(Some(rusl::process::get_pid() as i128)), infallible None),
        e!("process::add_signal_action", SYS_rt_sigaction, Zero, Unit, || {
            unit(unsafe { rusl::process::add_signal_action(rusl::process::CatchSignal::Hup, rusl::process::SaSignalaction::Dfl) })
        }),
        e!("process::wait_pid", SYS_wait4, Id, I32, || num(rusl::process::wait_pid(-1, WaitPidFlags::WNOHANG).map(|w| w.pid))),
        // ---- select
        e!("select::epoll_create", SYS_epoll_create1, Id, I32, || fdr(rusl::select::epoll_create(true))),
        e!("select::epoll_ctl", SYS_epoll_ctl, Zero, Unit, || {
            unit(rusl::select::epoll_ctl(fd_a(), EpollOp::Add, fd_b(), &EpollEvent::new(7, EpollEventMask::EPOLLIN)))
        }),
        e!("select::epoll_del", SYS_epoll_ctl, Zero, Unit, || unit(rusl::select::epoll_del(fd_a(), fd_b()))),
        e!("select::epoll_wait", SYS_epoll_pwait, Count, U64, || {
            let mut ev = [EpollEvent::new(0, EpollEventMask::empty()); 2];
            cnt(rusl::select::epoll_wait(fd_a(), &mut ev, 0))
        }),
        e!("select::ppoll", SYS_ppoll, Count, U64, || {
            let mut pf = [PollFd::new(fd_a(), PollEvents::POLLIN)];
            cnt(rusl::select::ppoll(&mut pf, Some(&TimeSpec::new_zeroed()), None))
        }),
        // ---- time
        e!("time::clock_get_real_time", SYS_clock_gettime, Zero, Unit, || {
            let _ = rusl::time::clock_get_real_time();
            Got::Ok(None)
        }, infallible Some(fill_ts)),
        e!("time::clock_get_monotonic_time", SYS_clock_gettime, Zero, Unit, || {
            let _ = rusl::time::clock_get_monotonic_time();
            Got::Ok(None)
        }, infallible Some(fill_ts)),
        e!("time::clock_get_time", SYS_clock_gettime, Zero, Unit, || unit(rusl::time::clock_get_time(ClockId::CLOCK_MONOTONIC)), fill fill_ts),
        e!("time::nanosleep", SYS_nanosleep, Zero, Unit, || unit(rusl::time::nanosleep(&TimeSpec::new(0, 1), None))),
        e!("time::nanosleep#rem", SYS_nanosleep, Zero, Unit, || {
            let mut rem = TimeSpec::new_zeroed();
            unit(rusl::time::nanosleep(&TimeSpec::new(0, 1), Some(&mut rem as *mut TimeSpec)))
        }),
        e!("time::nanosleep_same_ptr", SYS_nanosleep, Zero, Unit, || unit(rusl::time::nanosleep_same_ptr(&mut TimeSpec::new(0, 1)))),
        // ---- futex
        e!("futex::futex_wait", SYS_futex, Zero, Unit, || {
            let a = AtomicU32::new(0);
            unit(rusl::futex::futex_wait(&a, 1, FutexFlags::PRIVATE, Some(TimeSpec::new(0, 1000))))
        }),
        e!("futex::futex_wake", SYS_futex, Count, U64, || {
            let a = AtomicU32::new(0);
            cnt(rusl::futex::futex_wake(&a, 1))
        }),
        // ---- io_uring
        e!("io_uring::io_uring_setup", SYS_io_uring_setup, Id, I32, || {
            let mut p = IoUringParams::new(IoUringParamFlags::empty(), 0, 0);
            fdr(rusl::io_uring::io_uring_setup(8, &mut p))
        }),
        e!("io_uring::io_uring_register_files", SYS_io_uring_register, Zero, Unit, || unit(rusl::io_uring::io_uring_register_files(fd_a(), &[fd_b()]))),
        e!("io_uring::io_uring_register_io_slices", SYS_io_uring_register, Zero, Unit, || {
            let mut b = [0u8; 8];
            let io = [IoSliceMut::new(&mut b)];
            unit(rusl::io_uring::io_uring_register_io_slices(fd_a(), &io))
        }),
        e!("io_uring::io_uring_register_buffers", SYS_io_uring_register, Zero, Unit, || {
            let mut b = [0u8; 8];
            let io = [IoSliceMut::new(&mut b)];
            unit(unsafe { rusl::io_uring::io_uring_register_buffers(fd_a(), &io) })
        }),
        e!("io_uring::io_uring_enter", SYS_io_uring_enter, Count, U64, || {
            cnt(rusl::io_uring::io_uring_enter(fd_a(), 1, 0, IoUringEnterFlags::IORING_ENTER_GETEVENTS))
        }),
        // ---- ioctl and its thin callers
        e!("ioctl::ioctl", SYS_ioctl, Count, U64, || cnt(unsafe { rusl::ioctl::ioctl(fd_a(), 0x5401, 0) })),
        e!("termios::tcgetattr", SYS_ioctl, Zero, Unit, || unit(rusl::termios::tcgetattr(fd_a())), fill fill_termios),
        e!("termios::tcsetattr", SYS_ioctl, Zero, Unit, || {
            let t: Termios = unsafe { core::mem::zeroed() };
            unit(rusl::termios::tcsetattr(fd_a(), SetAction::NOW, &t))
        }),
        e!("usb::bulk_transfer", SYS_ioctl, Count, U64, || {
            let mut b = [0u8; 8];
            cnt(rusl::usb::bulk_transfer(fd_a(), 1, &mut b, 10))
        }),
        e!("usb::claim_interface", SYS_ioctl, Zero, Unit, || unit(rusl::usb::claim_interface(fd_a(), 0))),
        e!("usb::reset_usb_device", SYS_ioctl, Zero, Unit, || unit(rusl::usb::reset_usb_device(fd_a()))),
        e!("usb::release_interface", SYS_ioctl, Zero, Unit, || unit(rusl::usb::release_interface(fd_a(), 0))),
        e!("hidio::get_hid_dev_dev_info", SYS_ioctl, Zero, Unit, || unit(rusl::hidio::get_hid_dev_dev_info(fd_a())), fill fill_hid),
    ]
}

/// Scanned functions that deliberately have no invocation entry.
const EXCLUDED: &[(&str, &str)] = &[
    (
        "process::exit",
        "never returns: the wrapper ends in unreachable_unchecked(), so a suppressed exit(2) would be undefined behaviour; it has no result to decode",
    ),
    (
        "io_uring::setup_io_uring",
        "composite, not a raw wrapper: io_uring_setup + 2-3 mmap calls + reads of the mapped rings; each constituent wrapper has its own entry (unistd::mmap, io_uring::io_uring_setup)",
    ),
];

// ---------------------------------------------------------------------------
// the forced-value plan

struct Force<'a> {
    /// answer to the i-th issue; the last one is repeated
    script: &'a [i64],
    fill: Option<fn(&[u64; 6])>,
    first_nr: i64,
    /// the wrapper went past HORIZON issues and was given terminating answers
    over: bool,
    name: &'static str,
}

fn is_err(v: i64) -> bool {
    (-4095..=-1).contains(&v)
}

impl Plan for Force<'_> {
    fn decide(&mut self, idx: usize, nr: i64, args: &[u64; 6]) -> Decision {
        if idx == 0 {
            self.first_nr = nr;
        }
        let mut v = if idx < self.script.len() { self.script[idx] } else { *self.script.last().unwrap() };
        if idx >= HORIZON.max(self.script.len() + 2) {
            self.over = true;
            // terminating answers: plain success first, then a plain error
            v = if idx < 2 * HORIZON { 0 } else { -22 };
            if idx >= 4 * HORIZON {
                // still spinning whatever the answer: die, attributed to the case
                let c = format!("{{\"op\":\"{}:livelock\",\"v\":\"{}\"}}", self.name, show_script(self.script));
                set_case(&c);
                unsafe { libc::abort() };
            }
        }
        if !is_err(v) {
            if let Some(f) = self.fill {
                f(args);
            }
        }
        Decision::Force(v)
    }
}

fn show_script(s: &[i64]) -> String {
    s.iter().map(|v| v.to_string()).collect::<Vec<_>>().join(",")
}
fn parse_script(s: &str) -> Vec<i64> {
    s.split(',').filter_map(|x| x.trim().parse::<i64>().ok()).collect()
}

fn carries(ty: Ty, v: i64) -> Option<i128> {
    match ty {
        Ty::Unit => None,
        Ty::I32 => (i32::MIN as i64 <= v && v <= i32::MAX as i64).then_some(v as i128),
        Ty::U32 => (0 <= v && v <= u32::MAX as i64).then_some(v as i128),
        Ty::I64 => Some(v as i128),
        Ty::U64 => Some(v as u64 as i128),
    }
}

struct Obs {
    got: Result<Got, String>,
    calls: Vec<i64>,
    first_nr: i64,
    over: bool,
}

fn invoke(e: &Entry, script: &[i64]) -> Obs {
    let mut plan = Force { script, fill: e.fill, first_nr: -1, over: false, name: e.name };
    let call = e.call;
    let res = catch(|| sysx::run(&mut plan, call));
    match res {
        Ok((got, log)) => Obs { got: Ok(got), calls: log.iter().map(|c| c.ret).collect(), first_nr: plan.first_nr, over: plan.over },
        Err(p) => Obs { got: Err(p), calls: vec![], first_nr: plan.first_nr, over: plan.over },
    }
}

fn may_retry_ebusy(e: &Entry) -> bool {
    matches!(base_name(e.name), "unistd::dup2" | "unistd::dup3")
}

/// One case: the wrapper invoked once, its call(s) answered by `script`.
fn one_case(e: &Entry, script: &[i64], r: &mut Report, verbose: bool) {
    r.eval();
    r.nontrivial_unique();
    let vs = show_script(script);
    set_case(&format!("{{\"op\":\"{}\",\"v\":\"{}\"}}", e.name, vs));
    let o = invoke(e, script);
    clear_case();
    let case = || json!({"op": e.name, "v": vs});
    let key = |k: &str| format!("C09:{}:{k}", base_name(e.name));
    if verbose {
        println!("{}: answers [{}] -> {:?}; issued {} call(s) {:?}", e.name, vs, o.got, o.calls.len(), o.calls);
    }
    let got = match o.got {
        Err(p) => {
            r.outcome("VIOLATION/panic");
            r.violation(&key("panic"), format!("{} panicked when the kernel result was forced to {vs}: {p}", e.name), case());
            return;
        }
        Ok(g) => g,
    };
    if o.first_nr != e.nr && !o.calls.is_empty() {
        r.cap(format!("harness: {} issued {} but the table expects {}", e.name, sysx::name(o.first_nr), sysx::name(e.nr)));
        r.note("machinery-failure");
        return;
    }
    // --- how often the call was issued
    let n = o.calls.len();
    let retry_ok = may_retry_ebusy(e) && n >= 1 && o.calls[..n - 1].iter().all(|&a| a == -EBUSY);
    let mut count_ok = true;
    if n != 1 && !retry_ok {
        count_ok = false;
        let v_last_scripted = *script.last().unwrap();
        if o.over && !is_err(v_last_scripted) {
            r.outcome("VIOLATION/retries-on-success-value");
            r.violation(
                &key("retries-on-success-value"),
                format!(
                    "{} keeps re-issuing its system call as long as the kernel returns the success value {v_last_scripted}: {n} issues (answers {:?}; only ended by the harness answering differently after {HORIZON})",
                    e.name, o.calls
                ),
                case(),
            );
        } else {
            r.outcome("VIOLATION/issued-N-times");
            r.violation(
                &key("issued-N-times"),
                format!("{} issued its system call {n} times in one invocation (answers {:?}); exactly one is allowed", e.name, o.calls),
                case(),
            );
        }
    }
    if script.len() > 1 && count_ok {
        // dup2/dup3 under -EBUSY×k then w: giving up at the first EBUSY and repeating are both allowed
        r.outcome(if n == 1 { "ebusy-script/gave-up-at-first-EBUSY" } else { "ebusy-script/repeated-until-other-answer" });
    }
    // --- decoding of the value the wrapper saw last
    let v = o.calls.last().copied().unwrap_or(script[0]);
    match (is_err(v), got) {
        (true, Got::Err(Some(c))) if c as i64 == -v => r.outcome("err/errno-exact"),
        (true, Got::Err(c)) => {
            r.outcome("VIOLATION/wrong-errno");
            r.violation(
                &key("wrong-errno"),
                format!("{}: kernel result {v} must give Err with errno {}, got errno {c:?}", e.name, -v),
                case(),
            );
        }
        (true, Got::Ok(x)) => {
            if e.infallible {
                // cannot happen: error values are not forced on infallible signatures
                r.outcome("infallible/error-discarded");
            } else {
                r.outcome("VIOLATION/error-reported-as-success");
                r.violation(
                    &key("error-reported-as-success"),
                    format!("{}: kernel result {v} (errno {}) was reported as Ok({x:?})", e.name, -v),
                    case(),
                );
            }
        }
        (false, Got::Err(c)) => {
            r.outcome("VIOLATION/success-reported-as-error");
            r.violation(
                &key("success-reported-as-error"),
                format!("{}: kernel result {v} ({:#x}) is outside [-4095,-1] but was reported as Err(errno {c:?})", e.name, v as u64),
                case(),
            );
        }
        (false, Got::Ok(x)) => match (carries(e.ty, v), x) {
            (Some(want), Some(have)) if want != have => {
                r.outcome("VIOLATION/value-changed");
                r.violation(
                    &key("value-changed"),
                    format!("{}: kernel result {v} ({:#x}) came back as Ok({have}) ({:?})", e.name, v as u64, e.ty),
                    case(),
                );
            }
            (Some(_), Some(_)) => {
                if !count_ok {
                } else if (-4096 - 65536..=-4096).contains(&v) {
                    r.outcome("ok/boundary-below-errno-range-preserved")
                } else if e.infallible {
                    r.outcome("ok/infallible-value-preserved")
                } else if v >= 0 && v <= 4095 {
                    r.outcome("ok/errno-sized-value-preserved")
                } else {
                    r.outcome("ok/large-value-preserved")
                }
            }
            (Some(_), None) => {
                r.cap(format!("harness: {} is typed {:?} but its invocation returns no number", e.name, e.ty));
                r.note("machinery-failure");
            }
            (None, _) => {
                if !count_ok {
                } else if n > 1 {
                    r.outcome(&format!("ok/after-{}-EBUSY-retries", n - 1))
                } else if e.ty == Ty::Unit {
                    r.outcome(if v == 0 { "ok/unit-zero" } else { "ok/unit-nonzero-success" })
                } else {
                    r.outcome("ok/value-outside-result-type(ok-only)")
                }
            }
        },
    }
}

// ---------------------------------------------------------------------------
// the forced value sets

struct Bounds {
    /// every success value 0..=small_max is forced
    small_max: i64,
    /// every value neg_lo..=-4096 (the band just below the errno range) is forced
    neg_lo: i64,
}
fn bounds(thorough: bool) -> Bounds {
    if thorough {
        Bounds { small_max: 1 << 20, neg_lo: -4096 - 65536 }
    } else {
        Bounds { small_max: 65536, neg_lo: -4097 }
    }
}

fn values(e: &Entry, thorough: bool) -> Vec<i64> {
    let b = bounds(thorough);
    let mut v: Vec<i64> = Vec::new();
    let succ = e.dom != Dom::NoReturn;
    // simplest first: 0 and the errno-sized successes, then the errors, then the band below the
    // errno range, then the large patterns, then the rest of the small range
    if succ {
        v.extend(0..=4095);
    }
    if !e.infallible {
        v.extend((1..=4095).map(|x: i64| -x));
    }
    if succ {
        v.extend((b.neg_lo..=-4096).rev());
        let mut extra: Vec<i64> = vec![i32::MAX as i64];
        // single-bit patterns and their neighbours that fit 31 bits: for every result type
        for k in 12..=30 {
            extra.extend([(1i64 << k) - 1, 1i64 << k]);
        }
        if matches!(e.ty, Ty::U32 | Ty::I64 | Ty::U64) {
            extra.extend([1i64 << 31, 0xFFFF_F000, 0xFFFF_FFFF]);
        }
        if matches!(e.ty, Ty::I64 | Ty::U64) {
            for k in 32..=62 {
                extra.extend([(1i64 << k) - 1, 1i64 << k, -(1i64 << k), -(1i64 << k) - 1]);
            }
            extra.extend([
                0x7fff_ffff_f000,
                isize::MAX as i64,
                i64::MIN,
                i64::MIN + 4095,
                i64::MIN + 4096,
                -(1i64 << 31),
                -(1i64 << 31) - 1,
                -65536,
                -8192,
                -4098,
            ]);
        }
        if e.dom == Dom::Addr {
            extra.extend((1..=256i64).map(|k| k << 12));
            extra.extend(
                [
                    0x5555_5555_4000u64,
                    0x7f12_3456_7000,
                    0x7fff_ffff_e000,
                    0x7fff_ffff_f000,
                    0x8000_0000_0000,
                    0xffff_8000_0000_0000,
                    0xffff_ffff_8000_0000,
                    0xffff_ffff_ffff_0000,
                    0xffff_ffff_ffff_e000,
                    0xffff_ffff_ffff_f000,
                ]
                .map(|x| x as i64),
            );
        }
        let mut seen = std::collections::HashSet::new();
        for x in extra {
            let in_ranges = (0..=b.small_max).contains(&x) || (b.neg_lo..=-1).contains(&x);
            if !in_ranges && seen.insert(x) {
                v.push(x);
            }
        }
        v.extend(4096..=b.small_max);
    }
    v
}

/// dup2/dup3 only: `-EBUSY` k times, then a final answer
fn ebusy_scripts() -> Vec<Vec<i64>> {
    let mut s = Vec::new();
    for k in 1..=3usize {
        for w in [0i64, 5, 16, -9, -24] {
            let mut x = vec![-EBUSY; k];
            x.push(w);
            s.push(x);
        }
    }
    s
}

extern "C" fn on_alarm(_: libc::c_int) {
    // a wrapper that spins without issuing calls: die attributed to the current case
    unsafe { libc::abort() };
}

fn run_wrapper(e: &Entry, thorough: bool) -> Report {
    let mut r = Report::new();
    unsafe {
        libc::signal(libc::SIGALRM, on_alarm as extern "C" fn(libc::c_int) as usize);
    }
    let vals = values(e, thorough);
    for (i, &v) in vals.iter().enumerate() {
        if i % 512 == 0 {
            unsafe { libc::alarm(20) };
        }
        one_case(e, &[v], &mut r, false);
    }
    if may_retry_ebusy(e) {
        for s in ebusy_scripts() {
            one_case(e, &s, &mut r, false);
        }
    }
    unsafe { libc::alarm(0) };
    r.outcome_n(&format!("wrappers/{:?}-{:?}", e.dom, e.ty), 1);
    r
}

// ---------------------------------------------------------------------------

fn scanned_key(m: &str, f: &str) -> String {
    format!("{}::{f}", m.split("::").next().unwrap_or(m))
}

/// Every scanned function must be covered or excluded; returns (covered, excluded, missing).
fn completeness(tab: &[Entry]) -> (Vec<String>, Vec<String>, Vec<String>, Vec<String>) {
    let covered: std::collections::BTreeSet<&str> = tab.iter().map(|e| base_name(e.name)).collect();
    let mut cov = Vec::new();
    let mut exc = Vec::new();
    let mut missing = Vec::new();
    let mut ambiguous = Vec::new();
    let mut keys = std::collections::BTreeMap::<String, usize>::new();
    for (m, f, _) in SCANNED {
        *keys.entry(scanned_key(m, f)).or_insert(0) += 1;
    }
    for (k, n) in &keys {
        if *n > 1 {
            ambiguous.push(k.clone());
        }
        if covered.contains(k.as_str()) {
            cov.push(k.clone());
        } else if EXCLUDED.iter().any(|x| x.0 == k) {
            exc.push(k.clone());
        } else {
            missing.push(k.clone());
        }
    }
    (cov, exc, missing, ambiguous)
}

fn c09(args: &Args) -> Report {
    let tab = table();
    let (cov, exc, missing, ambiguous) = completeness(&tab);
    let n_entries = tab.len();
    let mut items = Vec::new();
    let thorough = args.thorough;
    let mut n_cases = 0usize;
    for e in tab {
        n_cases += values(&e, thorough).len() + if may_retry_ebusy(&e) { ebusy_scripts().len() } else { 0 };
        items.push(isolated(e.name, move || run_wrapper(&e, thorough)));
    }
    // rotate the start order by the seed (no effect on the set of cases)
    if !items.is_empty() {
        let k = (args.seed as usize) % items.len();
        items.rotate_left(k);
    }
    let mut r = run_isolated(items, &args.out, "C09");
    for m in &missing {
        r.cap(format!("wrapper {m} not covered (found by the source scan, neither in the invocation table nor in EXCLUDED)"));
    }
    for a in &ambiguous {
        r.cap(format!("wrapper name {a} is ambiguous in the source scan (two files define it)"));
    }
    if !missing.is_empty() || !ambiguous.is_empty() {
        r.note("machinery-failure");
    }
    if SCANNED.len() < 60 {
        r.cap(format!("source scan of {SCANNED_SRC} found only {} wrappers: scanner broken?", SCANNED.len()));
        r.note("machinery-failure");
    }
    if r.evaluations != n_cases as u64 && r.violations.keys().all(|k| !k.ends_with(":crash")) {
        r.cap(format!("{} cases planned, {} evaluated", n_cases, r.evaluations));
    }
    let bd = bounds(thorough);
    r.rule = format!(
        "for each of {n_entries} invocation entries ({} scanned exported rusl functions that issue a system call, {} excluded with a reason): the real wrapper is called once with harmless arguments, \
         its system call is suppressed and the raw result forced to v, for EVERY v in: 0..={} ; every error -1..=-4095 (fallible signatures); the band just below the errno range {}..=-4096; i32::MAX; \
         2^k-1 and 2^k for k=12..=30; and — where the result type can carry them — 2^31, 0xFFFFF000, u32::MAX (u32/64-bit results), 2^k-1, 2^k, -2^k, -2^k-1 for k=32..=62, 0x7fff_ffff_f000, isize::MAX, i64::MIN(+4095,+4096), \
         -2^31(-1), -65536, -8192, -4098 (64-bit results), page-aligned addresses k<<12 (k=1..=256) and ten high addresses up to 0xffff_ffff_ffff_f000 (mmap); execve only the errors (it does not return on success); \
         get_pid / clock_get_real_time / clock_get_monotonic_time only the non-error values (no error channel in the signature). dup2/dup3 additionally -EBUSY×k (k=1..=3) followed by each of 0,5,16,-9,-24. \
         Each (entry, answer script) is generated exactly once; every case is non-trivial (one real wrapper execution through the seam). Oracle: Err ⇔ v∈[-4095,-1] with errno −v; else Ok with v unchanged \
         when the result type represents it; exactly one issue (dup2/dup3: more only after -EBUSY).",
        cov.len(),
        exc.len(),
        bd.small_max,
        bd.neg_lo
    );
    r.bound("wrappers_scanned", SCANNED.len());
    r.bound("wrappers_scanned_direct_syscall", SCANNED.iter().filter(|s| s.2).count());
    r.bound("wrappers_covered", cov.len());
    r.bound("invocation_entries", n_entries);
    r.bound("wrappers_excluded", json!(EXCLUDED.iter().map(|x| format!("{}: {}", x.0, x.1)).collect::<Vec<_>>()));
    r.bound("scanned_source", SCANNED_SRC);
    r.bound("scanned_files", SCANNED_FILES);
    r.bound("scanned_test_files_skipped", SCANNED_TEST_FILES_SKIPPED);
    r.bound("small_success_values", format!("0..={}", bd.small_max));
    r.bound("band_below_errno_range", format!("{}..=-4096", bd.neg_lo));
    r.bound("error_values", "-4095..=-1 (all)");
    r.bound("retry_horizon", HORIZON);
    r.bound("cases_planned", n_cases);
    r.sample(json!({"op":"unistd::read","v":"-4095","expect":"Err(errno 4095), one issue"}));
    r.sample(json!({"op":"unistd::dup3","v":"16","expect":"Ok(()), one issue"}));
    r.sample(json!({"op":"unistd::mmap","v":"-4096","expect":"Ok(0xffff_ffff_ffff_f000), one issue"}));
    r.sample(json!({"op":"process::execve","v":"-2","expect":"Err(errno 2), one issue"}));
    r.sample(json!({"op":"unistd::open","v":"2147483647","expect":"Ok(fd 2147483647)"}));
    r.sample(json!({"op":"unistd::dup3","v":"-16,-16,5","expect":"Err(EBUSY) after one issue, or three issues and Ok"}));
    r.sample(json!({"op":"unistd::lseek","v":"9223372036854775807","expect":"Ok(i64::MAX)"}));
    r
}

fn replay(v: &Value, r: &mut Report) {
    let op = v["op"].as_str().unwrap_or("");
    let op = op.strip_suffix(":livelock").unwrap_or(op);
    let script = parse_script(v["v"].as_str().unwrap_or(""));
    let tab = table();
    let Some(e) = tab.iter().find(|e| e.name == op) else {
        println!("unknown wrapper {op}");
        r.cap(format!("unknown wrapper {op}"));
        return;
    };
    if script.is_empty() {
        println!("no forced value in the replay file");
        return;
    }
    println!("replaying {op} with the kernel's answers forced to [{}]", show_script(&script));
    unsafe { libc::alarm(20) };
    one_case(e, &script, r, true);
    unsafe { libc::alarm(0) };
    for v in r.violations.values() {
        println!("VIOLATED {}: {}", v.key, v.desc);
    }
    if r.violations.is_empty() {
        println!("no violation");
    }
}

fn main() {
    let args = parse_args();
    install_panic_hook();
    if args.rest.iter().any(|a| a == "--list") {
        let tab = table();
        let (cov, exc, missing, amb) = completeness(&tab);
        println!("scanned {} ({} direct), covered {}, excluded {}, missing {:?}, ambiguous {:?}", SCANNED.len(), SCANNED.iter().filter(|s| s.2).count(), cov.len(), exc.len(), missing, amb);
        for (m, f, d) in SCANNED {
            println!("  {m} :: {f} {}", if *d { "" } else { "(indirect)" });
        }
        return;
    }
    if let Some(p) = &args.replay {
        let v = read_replay(p);
        let mut r = Report::new();
        replay(&v, &mut r);
        println!("{}", serde_json::to_string_pretty(&r.to_json()).unwrap());
        std::process::exit(if r.violations.is_empty() { 0 } else { 1 });
    }
    let phase = args.phase.clone().unwrap_or_else(|| "c09".into());
    let r = match phase.as_str() {
        "c09" => c09(&args),
        _ => panic!("unknown phase"),
    };
    r.write(&args.out);
}
