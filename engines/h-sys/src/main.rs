use sysx::*;
fn main() {
    // smoke test of the seam against real rusl wrappers
    let mut plan = PassAll;
    let (r, log) = run(&mut plan, || rusl::process::get_pid());
    println!("getpid via seam = {r:?}, real {} ; log {:?}", unsafe { libc::getpid() }, log.iter().map(|c| (name(c.nr), c.ret)).collect::<Vec<_>>());
    struct ForceRead;
    impl Plan for ForceRead {
        fn decide(&mut self, _i: usize, nr: i64, _a: &[u64; 6]) -> Decision {
            if nr == libc::SYS_read { Decision::Force(-4095) } else { Decision::Pass }
        }
    }
    let mut buf = [0u8; 8];
    let (r, log) = run(&mut ForceRead, || rusl::unistd::read(rusl::platform::STDIN, &mut buf));
    println!("read forced -4095 => {r:?}; {} calls", log.len());
    let mut fk = FailKth { k: 0, errno: 24, seen: 0, hit: false, pred: |nr, _| nr == libc::SYS_pipe2, execute_anyway: false };
    let (r, _log) = run(&mut fk, || rusl::unistd::pipe2(rusl::platform::OpenFlags::O_CLOEXEC));
    println!("pipe2 failed 1st => {:?} hit={}", r.map(|_| ()), fk.hit);
    // fork pass-through with re-arm in the child
    let (r, log) = run(&mut PassAll, || unsafe {
        let pid = rusl::process::fork().unwrap();
        if pid == 0 {
            let me = rusl::process::get_pid();
            rusl::process::exit(if me > 0 { 7 } else { 1 });
        }
        let w = rusl::process::wait_pid(pid, rusl::platform::WaitPidFlags::empty()).unwrap();
        w.status
    });
    println!("fork+wait via seam: status {r:?}; calls {:?}", log.iter().map(|c| name(c.nr)).collect::<Vec<_>>());
}
